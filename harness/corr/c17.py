"""C17: named states and standard matrices against the Lean closed-form models (Toq/Model/States.lean,
Toq/Model/Matrices.lean) and, directly on the implementation's arrays, the identities the property states."""
from __future__ import annotations

import itertools
import math
import warnings
from fractions import Fraction

import numpy as np
import scipy.sparse as sp

from toqito import matrices as _M
from toqito import states as _S


class _FreshProxy:
    """toqito.matrices / toqito.states with one extra assertion on every constructor call: the returned dense array is a
    fresh object -- after scribbling over it, the same call returns the same values again (catches memoised or module-level
    arrays handed out by reference).  Results and exceptions are passed through unchanged."""

    hook = None  # set by run(): callable(fn_name, args_repr) reporting a violation

    def __init__(self, mod):
        self._mod = mod

    def __getattr__(self, name):
        f = getattr(self._mod, name)
        if not callable(f):
            return f

        def wrapped(*a, **k):
            out = f(*a, **k)
            if isinstance(out, np.ndarray) and out.flags.writeable and out.size and _FreshProxy.hook is not None:
                keep = out.copy()
                same = True
                try:
                    out[...] = 7
                    again = f(*a, **k)
                    same = isinstance(again, np.ndarray) and again.shape == keep.shape and np.array_equal(again, keep)
                except Exception:  # noqa: BLE001 -- a second identical call that raises is also a difference
                    same = False
                finally:
                    out[...] = keep
                if not same:
                    _FreshProxy.hook(name, repr((a, k))[:200])
            return out
        return wrapped


M = _FreshProxy(_M)
S = _FreshProxy(_S)

from ..exact import Pure, call, case_rng, describe, present_nd, strict_fp_call

RULE = ("every constructor exported by toqito.states / toqito.matrices (all have a Lean model since the deepening pass) on dims 2..5, qubit counts 1..5 (0..5 for hadamard), all index "
        "pairs, all accepted argument forms (int/str/list, sparse flag, coefficient vectors with rational norm, the same integer coefficient vectors of ghz / w_state multiplied by 2^e for e in -400..400 "
        "(exact in float64; norms 1e-120..1e120, i.e. far below and above 1) as list and as float64 ndarray with the model's state of the unscaled vector as oracle "
        "(theorems ghz_scaled_coeff_model / w_scaled_coeff_model), scalar and list alpha), "
        "rational parameter grids containing the interval end points, the PPT thresholds, threshold +- 1e-6 and points just outside the "
        "documented ranges; rejection stream where a range is documented. A case = (constructor, arguments). non-trivial = local "
        "dimension >= 2 and the arguments do not select the identity / a computational basis vector; distinct = hash of (constructor, arguments). "
        "Comparison with the model: exact for integer-valued outputs, exact zero pattern + 1e-12 on the non-zero entries otherwise "
        "(1/sqrt(n) and roots of unity are not floats). Identities on the implementation's arrays: 1e-12, invariance under exact rational "
        "unitaries evaluated in integer arithmetic on the exact dyadic value of the returned floats. "
        "The few array-like arguments (coefficient vectors of w_state / ghz as list and as ndarray in C / strided layout with int64 or float64 dtype, alpha lists of "
        "werner, dim of horodecki as list / ndarray, mat_params of chessboard, index lists of pauli) are compared with a deep snapshot after the call. "
        "strict-fp: every constructor at boundary parameters (werner / isotropic at the interval end points and thresholds, horodecki(0), (1), gisin at lambda in {0, 1} and theta in "
        "{0, pi/2, pi}, ghz / w_state with zero coefficients (not the all-zero vector, which the code normalises to NaN), dicke(n, 0), (n, n), breuer / chessboard / pusey_barrett_rudolph end points, extreme indices of the "
        "indexed families) is evaluated a second time with NumPy's error state set to raise for invalid / divide / overflow (harness.exact.strict_fp_call) and must give the outcome of the "
        "default state (same shape, dtype and bitwise equal entries, or the same exception class); no constructor takes two array arguments, so there is no same-object-twice call.")
ASSUMPTIONS = [
    "roots of unity: the harness evaluates the exponent model with exp(2*pi*i*k/d) in float64 (error <= 2 ulp) and compares within 1e-12",
    "PPT verdicts: numpy.linalg.eigvalsh on the harness's own partial transpose; verdicts are only asserted at distance >= 1e-6 (in alpha) from the threshold, "
    "where the closed-form least eigenvalue is >= 1e-8 in modulus; at the threshold |lambda_min| <= 1e-12 is asserted",
    "Horodecki PSD / PPT is a Lean theorem for every a in [0,1] (horodecki33_ppt, horodecki24_ppt); on the implementation's arrays: numerical eigenvalues >= -1e-12 for irrational "
    "sqrt(1-a^2), and for Pythagorean a the model matrix is exact and its partial transpose is additionally certified PSD by exact rational LDL^T",
    "mutually unbiased bases come from LAPACK eig: tolerance 1e-10 on |<e|f>|^2; order and phase of the eigenvectors inside one basis are LAPACK's and are not "
    "compared (each returned vector must be a unimodular multiple of exactly one model eigenvector, residual 1e-10); the order of the bases is compared",
    "trigonometric parameters (gisin theta, pusey_barrett_rudolph theta) are generated from rational Pythagorean (sin, cos) pairs; toqito receives atan2(sin, cos) and the "
    "comparison with the exact rational model uses 1e-12; chessboard parameters are Gaussian rationals with denominators 4 (comparison 1e-12)",
]

TOL = 1e-12
SQ = math.sqrt

# ------------------------------------------------------------------------------------------------
# small helpers


def dense(x):
    if sp.issparse(x):
        return x.toarray()
    return np.asarray(x)


def ffloat(q: Fraction) -> float:
    return q.numerator / q.denominator


def qj(q: Fraction):
    return [q.numerator, q.denominator]


def ru_array(res):
    """exponent-model answer -> complex array"""
    d = res["order"]
    k = np.array(res["k"], dtype=float)
    z = np.where(k < 0, 0.0, np.exp(2j * np.pi * np.where(k < 0, 0, k) / d)) / SQ(res["den2"])
    return z.reshape(res["shape"]), (np.array(res["k"]) < 0).reshape(res["shape"])


def int_array(res):
    re = np.array(res["re"], dtype=object)
    im = np.array(res["im"], dtype=object)
    return re.reshape(res["shape"]), im.reshape(res["shape"])


def rat_array(res):
    q = [Fraction(a, b) for a, b in res["q"]]
    return np.array(q, dtype=object).reshape(res["shape"])


def ptranspose(X, dims=None):
    """partial transpose on the second factor, own index implementation"""
    n = X.shape[0]
    if dims is None:
        d = int(round(SQ(n)))
        dims = (d, d)
    a, b = dims
    return X.reshape(a, b, a, b).transpose(0, 3, 2, 1).reshape(n, n)


def ptrace(X, d, keep):
    T = X.reshape(d, d, d, d)
    return np.einsum("ijkj->ik", T) if keep == 0 else np.einsum("ijil->jl", T)


def psd_exact(A):
    """exact PSD test of a symmetric rational matrix by LDL^T (zero pivot => zero row required)"""
    n = A.shape[0]
    A = [[Fraction(A[i][j]) for j in range(n)] for i in range(n)]
    for k in range(n):
        p = A[k][k]
        if p < 0:
            return False
        if p == 0:
            if any(A[k][j] != 0 for j in range(k, n)):
                return False
            continue
        for i in range(k + 1, n):
            f = A[i][k] / p
            if f != 0:
                for j in range(k, n):
                    A[i][j] -= f * A[k][j]
    return True


PYTH = [(3, 4, 5), (5, 12, 13), (8, 15, 17), (7, 24, 25), (20, 21, 29)]


def rational_unitary(rng, d):
    """exact unitary with Gaussian-rational entries: (Ure + i Uim)/D, integers; product of Givens rotations
    and diagonal phases with Pythagorean cosines"""
    re = [[Fraction(int(i == j)) for j in range(d)] for i in range(d)]
    im = [[Fraction(0) for j in range(d)] for i in range(d)]
    pairs = [(i, j) for i in range(d) for j in range(i + 1, d)]
    order = [pairs[int(k)] for k in rng.permutation(len(pairs))][: max(2, min(len(pairs), d + 1))]
    for (p, q) in order:
        a, b, c = PYTH[int(rng.integers(len(PYTH)))]
        cs, sn = Fraction(a, c), Fraction(b, c)
        if rng.integers(2):
            cs, sn = sn, -cs
        # left-multiply by the rotation in the (p,q) plane
        for col in range(d):
            for arr in (re, im):
                x, y = arr[p][col], arr[q][col]
                arr[p][col], arr[q][col] = cs * x - sn * y, sn * x + cs * y
        # phase on row p: multiply by (a' + i b')/c'
        a2, b2, c2 = PYTH[int(rng.integers(len(PYTH)))]
        pr, pi = Fraction(a2, c2), Fraction(b2, c2)
        for col in range(d):
            x, y = re[p][col], im[p][col]
            re[p][col], im[p][col] = pr * x - pi * y, pr * y + pi * x
    D = 1
    for arr in (re, im):
        for row in arr:
            for v in row:
                D = D * v.denominator // math.gcd(D, v.denominator)
    Ure = np.array([[int(v * D) for v in row] for row in re], dtype=object)
    Uim = np.array([[int(v * D) for v in row] for row in im], dtype=object)
    return Ure, Uim, D


def okron(A, B):
    a, b = A.shape
    c, e = B.shape
    return np.multiply.outer(A, B).transpose(0, 2, 1, 3).reshape(a * c, b * e)


def dyadic_int(X):
    """float array -> (integer object array, e) with X = ints / 2^e exactly"""
    fr = [Fraction(float(v)) for v in np.asarray(X, dtype=float).reshape(-1)]
    e = max(f.denominator.bit_length() - 1 for f in fr)
    ints = np.array([int(f * (1 << e)) for f in fr], dtype=object).reshape(X.shape)
    return ints, e


def commutator_residual(rho, factors):
    """max |(W rho - rho W)| for W = kron of the given (re, im, D) integer factors, evaluated exactly"""
    R, e = dyadic_int(rho)
    Wre, Wim, D = factors[0]
    for (re, im, dd) in factors[1:]:
        Wre, Wim = okron(Wre, re) - okron(Wim, im), okron(Wre, im) + okron(Wim, re)
        D *= dd
    Cre = Wre.dot(R) - R.dot(Wre)
    Cim = Wim.dot(R) - R.dot(Wim)
    m = max(max(abs(int(v)) for v in Cre.reshape(-1)), max(abs(int(v)) for v in Cim.reshape(-1)))
    return float(Fraction(m, D * (1 << e)))


class K:
    """per-run state"""

    def __init__(self, ctx):
        self.ctx = ctx
        self.L = ctx.lean()
        self.quick = ctx.tier == "quick"

    # -- bookkeeping
    def case(self, fn, args, nontrivial=True, branch=None):
        self.ctx.case({"fn": fn, "args": args}, nontrivial, branch or fn)

    def bad(self, what, fn, args, **kw):
        info = {"function": fn, "args": args}
        info.update(kw)
        return self.ctx.violation(f"{fn}{args}: {what}", info)

    def run_impl(self, f, *a, **k):
        guard = Pure(*a, **k)
        out = call(f, *a, kinds=(), **k)
        self.check_pure(guard, getattr(f, "__name__", str(f)), a)
        self.check_fresh(f, out, a, k)
        return out

    def check_fresh(self, f, out, a, k):
        """a constructor returns a fresh object on every call: scribbling over a returned dense array must not change what
        the next call (or a constructor built on it) returns -- catches memoised / module-level arrays handed out by reference"""
        if out[0] != "ok" or not isinstance(out[1], np.ndarray) or not out[1].flags.writeable or out[1].size == 0:
            return
        fn = getattr(f, "__name__", str(f))
        self.ctx.count("fresh-object-check")
        keep = out[1].copy()
        same = False
        try:
            out[1][...] = 7
            again = call(f, *a, kinds=(), **k)
            same = again[0] == "ok" and isinstance(again[1], np.ndarray) and again[1].shape == keep.shape and np.array_equal(again[1], keep)
        finally:
            out[1][...] = keep
        if not same:
            self.ctx.violation(f"{fn}: a second call returns a different object after the first result was modified in place (results are shared / cached)",
                               {"function": fn, "args": describe(list(a)), "kind": "shared-result"})

    def check_pure(self, guard, fn, a):
        """purity assertion on the (list / ndarray) arguments of a constructor call"""
        why = guard.modified()
        if why:
            self.ctx.violation(f"{fn}: caller's arguments were modified", {"function": fn, "args": describe(list(a)), "modified": why})

    def pure(self, f, *a, **k):
        """f(*a, **k) with the purity assertion (exceptions propagate as before)"""
        guard = Pure(*a, **k)
        out = f(*a, **k)
        self.check_pure(guard, getattr(f, "__name__", str(f)), a)
        return out

    # -- comparison with the three model encodings
    def cmp_ru(self, fn, args, impl, res, theorem):
        z, zero = ru_array(res)
        x = dense(impl)
        if list(x.shape) != res["shape"]:
            return self.bad(f"shape {list(x.shape)} differs from the model's {res['shape']}", fn, args, theorem=theorem)
        if not np.array_equal(x == 0, zero):
            return self.bad("zero pattern differs from the model", fn, args, impl=x, model_k=res["k"], theorem=theorem)
        err = float(np.abs(x - z).max())
        if err > TOL:
            return self.bad(f"entries differ from omega^k/sqrt(den2) by {err:.3e}", fn, args, impl=x, model_k=res["k"], den2=res["den2"], theorem=theorem)
        return False

    def cmp_int(self, fn, args, impl, res, theorem, kind=None):
        re, im = int_array(res)
        x = dense(impl)
        if list(x.shape) != res["shape"]:
            return self.bad(f"shape {list(x.shape)} differs from the model's {res['shape']}", fn, args, theorem=theorem)
        den2 = res["den2"]
        tgt = (re.astype(float) + 1j * im.astype(float))
        if den2 == 1:
            if not np.array_equal(x, tgt):
                return self.bad("integer-valued output differs from the model", fn, args, impl=x, model_re=res["re"], model_im=res["im"], theorem=theorem)
            return False
        if not np.array_equal(x == 0, tgt == 0):
            return self.bad("zero pattern (support) differs from the model", fn, args, impl=x, model_re=res["re"], den2=den2, theorem=theorem)
        err = float(np.abs(x * SQ(den2) - tgt).max())
        if err > TOL * max(1.0, float(np.abs(tgt).max())):
            return self.bad(f"amplitudes differ from numerator/sqrt({den2}) by {err:.3e} (relative to sqrt(den2))", fn, args, impl=x, model_re=res["re"],
                            model_im=res["im"], den2=den2, theorem=theorem, kind=kind(x, tgt / SQ(den2)) if kind else None)
        return False

    def cmp_rat(self, fn, args, impl, res, theorem, kind=None):
        q = rat_array(res)
        x = dense(impl)
        if list(x.shape) != res["shape"]:
            return self.bad(f"shape {list(x.shape)} differs from the model's {res['shape']}", fn, args, theorem=theorem)
        tgt = np.array([ffloat(v) for v in q.reshape(-1)]).reshape(q.shape)
        if np.iscomplexobj(x) and float(np.abs(x.imag).max()) > 0:
            return self.bad("complex output for a real state", fn, args, theorem=theorem)
        err = float(np.abs(np.real(x) - tgt).max())
        if err > TOL:
            return self.bad(f"entries differ from the exact rational model by {err:.3e}", fn, args, impl=x, model=[str(v) for v in q.reshape(-1)][:64], theorem=theorem,
                            kind=kind(np.real(x), tgt) if kind else None)
        return False

    def expect_reject(self, fn, args, f, pyargs, res, pykw=None):
        """model rejects <=> implementation raises ValueError"""
        r = self.run_impl(f, *pyargs, **(pykw or {}))
        self.case(fn, args, False, f"{fn}/reject-stream")
        mrej = "reject" in res
        irej = r[0] == "raise" and r[1].startswith("ValueError")
        if r[0] == "raise" and not irej and mrej:
            irej = True  # any exception on an inadmissible input counts as rejection
        if mrej != irej:
            self.bad(f"rejection differs: model {'rejects (' + res['reject'] + ')' if mrej else 'accepts'}, implementation {r[0]} {str(r[1])[:80]}", fn, args, theorem="(documented range)")
        return r

    def close(self, what, fn, args, a, b, tol=TOL, theorem=None, **kw):
        err = float(np.abs(np.asarray(a) - np.asarray(b)).max())
        if err > tol:
            self.bad(f"{what}: residual {err:.3e} > {tol:g}", fn, args, theorem=theorem, **kw)
            return False
        return True


# ------------------------------------------------------------------------------------------------
# matrices


def check_clock_shift_fourier(k: K):
    for d in range(2, 6):
        args = {"d": d}
        X, Z, F = M.gen_pauli_x(d), M.gen_pauli_z(d), M.fourier(d)
        k.case("gen_pauli_x", args)
        k.cmp_ru("gen_pauli_x", args, X, k.L.ask("c17_ru", {"kind": "shift", "d": d}), "shiftE_eval")
        k.case("gen_pauli_z", args)
        k.cmp_ru("gen_pauli_z", args, Z, k.L.ask("c17_ru", {"kind": "clock", "d": d}), "clockE_eval")
        k.case("fourier", args)
        k.cmp_ru("fourier", args, F, k.L.ask("c17_ru", {"kind": "fourier", "d": d}), "fourierE_eval")
        w = np.exp(2j * np.pi / d)
        k.close("Weyl relation Z X = omega X Z", "gen_pauli_x/gen_pauli_z", args, Z @ X, w * (X @ Z), theorem="weyl_relation")
        k.close("Fourier intertwining F X F^dagger = Z", "fourier", args, F @ X @ F.conj().T, Z, theorem="fourier_intertwines")
        k.close("Fourier unitarity", "fourier", args, F @ F.conj().T, np.eye(d), theorem="fourier_unitary")
        k.close("X^d = I", "gen_pauli_x", args, np.linalg.matrix_power(X, d), np.eye(d), theorem="shift_pow_order")
        k.close("Z^d = I", "gen_pauli_z", args, np.linalg.matrix_power(Z, d), np.eye(d), theorem="clock_pow_order")


def check_gen_pauli(k: K):
    for d in range(2, 6):
        ops = {}
        for a in range(d):
            for b in range(d):
                args = {"k_1": a, "k_2": b, "dim": d}
                W = M.gen_pauli(a, b, d)
                ops[(a, b)] = W
                k.case("gen_pauli", args, (a, b) != (0, 0))
                k.cmp_ru("gen_pauli", args, W, k.L.ask("c17_ru", {"kind": "gen_pauli", "d": d, "a": a, "b": b}), "genPauliE_eval + genPauli_mirror_eq")
                k.close("unitarity", "gen_pauli", args, W @ W.conj().T, np.eye(d), theorem="genPauli_unitary")
        # trace-orthogonality of all d^2 operators (every pair)
        for (p, A), (q, B) in itertools.product(ops.items(), repeat=2):
            t = np.trace(A.conj().T @ B)
            want = d if p == q else 0
            if abs(t - want) > TOL:
                k.bad(f"tr(P_{p}^dagger P_{q}) = {t} instead of {want}", "gen_pauli", {"dim": d, "pair": [list(p), list(q)]}, theorem="genPauli_trace_orthogonal")
        k.ctx.count("gen_pauli/trace-orthogonality pairs", d ** 4)


def check_pauli(k: K):
    names = {0: ["I", "i", 0], 1: ["x", "X", 1], 2: ["y", "Y", 2], 3: ["z", "Z", 3]}
    mats = {}
    for ind, forms in names.items():
        res = k.L.ask("c17_int", {"kind": "pauli", "ind": [ind]})
        for f in forms:
            for sparse in (False, True):
                args = {"ind": f, "is_sparse": sparse}
                P = M.pauli(f, sparse)
                k.case("pauli", args, ind != 0, "pauli/single")
                k.cmp_int("pauli", args, P, res, "pauliString_trace_orthogonal")
        mats[ind] = dense(M.pauli(ind)).astype(complex)
    # algebra, exactly (entries are Gaussian integers)
    eps = {(1, 2): 3, (2, 3): 1, (3, 1): 2}
    for a in range(1, 4):
        for b in range(1, 4):
            prod = mats[a] @ mats[b]
            if a == b:
                want = np.eye(2)
            elif (a, b) in eps:
                want = 1j * mats[eps[(a, b)]]
            else:
                want = -1j * mats[eps[(b, a)]]
            if not np.array_equal(prod, want):
                k.bad("product rule sigma_a sigma_b = delta I + i eps sigma_c fails", "pauli", {"a": a, "b": b}, theorem="pauli_sq / pauli_product / pauli_anticommute")
            if a != b and not np.array_equal(prod + mats[b] @ mats[a], np.zeros((2, 2))):
                k.bad("anticommutation fails", "pauli", {"a": a, "b": b}, theorem="pauli_sq / pauli_product / pauli_anticommute")
    # every other integer / string selects the identity (the final `else` of the code)
    for other in (4, 7, -1, "I", "q"):
        P = M.pauli(other)
        k.case("pauli", {"ind": other}, False, "pauli/other")
        k.cmp_int("pauli", {"ind": other}, P, k.L.ask("c17_int", {"kind": "pauli", "ind": [4]}), "(model definition) pauli: every index other than 1, 2, 3 gives the identity")
    # tensor strings
    nmax = 2 if k.quick else 3
    for n in range(2, nmax + 1):
        strs = list(itertools.product(range(4), repeat=n))
        arrs = {}
        for s in strs:
            args = {"ind": list(s)}
            P = dense(k.pure(M.pauli, list(s)))
            arrs[s] = P
            k.case("pauli", args, any(s), f"pauli/list{n}")
            k.cmp_int("pauli", args, P, k.L.ask("c17_int", {"kind": "pauli", "ind": list(s)}), "pauliString_trace_orthogonal")
        for s, t in itertools.product(strs, repeat=2):
            tr = np.trace(arrs[s].conj().T @ arrs[t])
            if tr != (2 ** n if s == t else 0):
                k.bad(f"tr(P_s^dagger P_t) = {tr}", "pauli", {"s": list(s), "t": list(t)}, theorem="pauliString_trace_orthogonal")
    # string / sparse list forms
    P = dense(k.pure(M.pauli, ["x", "Z"]))
    k.case("pauli", {"ind": ["x", "Z"]}, True, "pauli/strlist")
    k.cmp_int("pauli", {"ind": ["x", "Z"]}, P, k.L.ask("c17_int", {"kind": "pauli", "ind": [1, 3]}), "pauliString_trace_orthogonal")
    for s in ([2, 1], [3, 1, 2]):
        P = k.pure(M.pauli, s, True)
        args = {"ind": s, "is_sparse": True}
        k.case("pauli", args, True, "pauli/sparselist")
        res = k.L.ask("c17_int", {"kind": "pauli", "ind": s})
        if not sp.issparse(P):
            k.bad("is_sparse=True did not return a sparse array", "pauli", args, theorem="pauliString_trace_orthogonal")
        k.cmp_int("pauli", args, P, res, "pauliString_trace_orthogonal")


def check_gell_mann(k: K):
    mats = []
    for ind in range(9):
        for sparse in (False, True):
            args = {"ind": ind, "is_sparse": sparse}
            G = M.gell_mann(ind, sparse)
            k.case("gell_mann", args, ind != 0)
            k.cmp_int("gell_mann", args, G, k.L.ask("c17_int", {"kind": "gell_mann", "ind": ind}), "gellMann_trace_orthogonal")
        mats.append(dense(M.gell_mann(ind)).astype(complex))
    for a in range(9):
        k.close("Hermitian", "gell_mann", {"ind": a}, mats[a], mats[a].conj().T, theorem="gellMann_hermitian")
        if a and abs(np.trace(mats[a])) > TOL:
            k.bad("not traceless", "gell_mann", {"ind": a}, theorem="gellMann_traceless")
        for b in range(9):
            t = np.trace(mats[a] @ mats[b])
            want = 0 if a != b else (3 if a == 0 else 2)
            if abs(t - want) > TOL:
                k.bad(f"tr(l_{a} l_{b}) = {t} instead of {want}", "gell_mann", {"a": a, "b": b}, theorem="gellMann_trace_orthogonal")
    for ind in (9, 10):
        k.expect_reject("gell_mann", {"ind": ind}, M.gell_mann, (ind,), k.L.ask("c17_int", {"kind": "gell_mann", "ind": ind}))
    r = k.run_impl(M.gell_mann, -1)
    k.case("gell_mann", {"ind": -1}, False, "gell_mann/reject-stream")
    if r[0] == "ok":
        k.bad("index -1 accepted", "gell_mann", {"ind": -1}, theorem="(documented range)")


def check_gen_gell_mann(k: K):
    for d in range(2, 6):
        ops = {}
        for a in range(d):
            for b in range(d):
                args = {"ind_1": a, "ind_2": b, "dim": d}
                G = M.gen_gell_mann(a, b, d)
                ops[(a, b)] = np.asarray(G).astype(complex)
                k.case("gen_gell_mann", args, (a, b) != (0, 0))
                k.cmp_int("gen_gell_mann", args, G, k.L.ask("c17_int", {"kind": "gen_gell_mann", "a": a, "b": b, "d": d}), "genGellMann_trace_orthogonal")
                k.close("Hermitian", "gen_gell_mann", args, ops[(a, b)], ops[(a, b)].conj().T, theorem="genGellMann_hermitian")
                if (a, b) != (0, 0) and abs(np.trace(ops[(a, b)])) > TOL:
                    k.bad("not traceless", "gen_gell_mann", args, theorem="genGellMann_traceless")
        for (p, A), (q, B) in itertools.product(ops.items(), repeat=2):
            t = np.trace(A @ B)
            want = 0 if p != q else (d if p == (0, 0) else 2)
            if abs(t - want) > TOL:
                k.bad(f"tr(G_{p} G_{q}) = {t} instead of {want}", "gen_gell_mann", {"dim": d, "pair": [list(p), list(q)]}, theorem="genGellMann_trace_orthogonal")
        k.ctx.count("gen_gell_mann/trace-orthogonality pairs", d ** 4)
    # d = 2 reproduces the Pauli matrices
    for (a, b), ind in {(0, 1): 1, (1, 0): 2, (1, 1): 3}.items():
        if not np.array_equal(np.asarray(M.gen_gell_mann(a, b, 2)).astype(complex), dense(M.pauli(ind)).astype(complex)):
            k.bad("gen_gell_mann(.,.,2) is not the Pauli matrix", "gen_gell_mann", {"ind_1": a, "ind_2": b, "dim": 2}, theorem="genGellMann_trace_orthogonal")


def check_hadamard(k: K):
    for n in range(0, 6):
        args = {"n_param": n}
        H = M.hadamard(n)
        k.case("hadamard", args, n >= 1)
        res = k.L.ask("c17_int", {"kind": "hadamard", "n": n})
        res2 = k.L.ask("c17_int", {"kind": "hadamard_mirror", "n": n})
        if res["re"] != res2["re"]:
            k.bad("closed-form and mirror model of hadamard disagree (model defect)", "hadamard", args, theorem="hadamardMirror_eq")
        k.cmp_int("hadamard", args, H, res, "hadamard_orthogonal")
        sign = H / H[0, 0]
        if not np.array_equal(sign, np.array(res["re"], dtype=float).reshape(res["shape"])):
            k.bad("sign pattern differs from (-1)^popcount(i&j)", "hadamard", args, theorem="hadamard_orthogonal")
        k.close("H H^T = I", "hadamard", args, H @ H.T, np.eye(2 ** n), theorem="hadamard_orthogonal")
    if not np.array_equal(M.hadamard(), M.hadamard(1)):
        k.bad("default argument is not n = 1", "hadamard", {})


def check_cnot_cyclic_basis(k: K):
    C = M.cnot()
    k.case("cnot", {}, True)
    k.cmp_int("cnot", {}, C, k.L.ask("c17_int", {"kind": "cnot"}), "cnot_action")
    for x in range(2):
        for y in range(2):
            e = np.zeros(4)
            e[2 * x + y] = 1
            out = C @ e
            want = np.zeros(4)
            want[2 * x + (x ^ y)] = 1
            if not np.array_equal(out, want):
                k.bad("CNOT|x,y> != |x, x xor y>", "cnot", {"x": x, "y": y}, theorem="cnot_action")
    if not np.array_equal(C @ C.T, np.eye(4)):
        k.bad("CNOT not unitary", "cnot", {}, theorem="cnot_action")
    for n in range(2, 7):
        for kk in range(0, 2 * n + 1):
            args = {"n": n, "k": kk}
            P = M.cyclic_permutation_matrix(n, kk)
            k.case("cyclic_permutation_matrix", args, kk % n != 0)
            res = k.L.ask("c17_int", {"kind": "cyclic", "n": n, "k": kk})
            k.cmp_int("cyclic_permutation_matrix", args, P, res, "cyclicPerm_mirror_eq")
            if n <= 4:
                res2 = k.L.ask("c17_int", {"kind": "cyclic_mirror", "n": n, "k": kk})
                if res2["re"] != res["re"]:
                    k.bad("closed-form and mirror model of cyclic_permutation_matrix disagree (model defect)", "cyclic_permutation_matrix", args, theorem="cyclicPerm_mirror_eq")
            if not np.array_equal(P @ P.T, np.eye(n, dtype=int)):
                k.bad("not a permutation (unitary) matrix", "cyclic_permutation_matrix", args, theorem="cyclicPerm_mirror_eq")
            # action: e_j -> e_{j+k mod n}
            for j in range(n):
                if P[(j + kk) % n, j] != 1:
                    k.bad("does not map e_j to e_{j+k}", "cyclic_permutation_matrix", args, theorem="cyclicPerm_mirror_eq")
                    break
        if not np.array_equal(M.cyclic_permutation_matrix(n), M.cyclic_permutation_matrix(n, 1)):
            k.bad("default k is not 1", "cyclic_permutation_matrix", {"n": n})
        if n <= 5 and not np.array_equal(M.cyclic_permutation_matrix(n, 1), M.gen_pauli_x(n)):
            k.bad("cyclic shift differs from gen_pauli_x", "cyclic_permutation_matrix", {"n": n})
    for d in range(2, 6):
        for flat in (False, True):
            args = {"dim": d, "flatten": flat}
            B = M.standard_basis(d, flat)
            k.case("standard_basis", args, True)
            res = k.L.ask("c17_int", {"kind": "standard_basis", "d": d})
            ok = len(B) == d and all(np.asarray(v).shape == ((d,) if flat else (d, 1)) for v in B)
            if not ok:
                k.bad("wrong number/shape of basis vectors", "standard_basis", args, theorem="standardBasis_eq")
                continue
            k.cmp_int("standard_basis", args, np.array([np.asarray(v).reshape(-1) for v in B]), res, "standardBasis_eq")


# ------------------------------------------------------------------------------------------------
# state vectors


def check_basis_bell_maxent(k: K):
    for d in range(2, 6):
        for pos in range(d):
            args = {"dim": d, "pos": pos}
            k.case("basis", args, True)
            k.cmp_int("basis", args, S.basis(d, pos), k.L.ask("c17_int", {"kind": "basis", "d": d, "pos": pos}), "(model definition) basisS")
        for pos in (d, d + 1):
            k.expect_reject("basis", {"dim": d, "pos": pos}, S.basis, (d, pos), k.L.ask("c17_int", {"kind": "basis", "d": d, "pos": pos}))
    vs = []
    for idx in range(4):
        args = {"idx": idx}
        v = S.bell(idx)
        vs.append(np.asarray(v, dtype=float).reshape(-1))
        k.case("bell", args, True)
        resb = k.L.ask("c17_int", {"kind": "bell", "idx": idx})
        if resb["re"] != k.L.ask("c17_int", {"kind": "bell_mirror", "idx": idx})["re"]:
            k.bad("closed-form and mirror model of bell disagree (model defect)", "bell", args, theorem="bellMirror_eq")
        k.cmp_int("bell", args, v, resb, "bell_orthonormal / bellMirror_eq")
    G = np.array(vs) @ np.array(vs).T
    k.close("Bell states orthonormal", "bell", {}, G, np.eye(4), theorem="bell_orthonormal")
    for idx in range(4):
        rho = np.outer(vs[idx], vs[idx])
        for keep in (0, 1):
            k.close("Bell state marginal is I/2", "bell", {"idx": idx, "keep": keep}, ptrace(rho, 2, keep), np.eye(2) / 2, theorem="bell_maximally_entangled")
    for idx in (4, 5):
        k.expect_reject("bell", {"idx": idx}, S.bell, (idx,), k.L.ask("c17_int", {"kind": "bell", "idx": idx}))
    r = k.run_impl(S.bell, -1)
    k.case("bell", {"idx": -1}, False, "bell/reject-stream")
    if r[0] == "ok":
        k.bad("index -1 accepted", "bell", {"idx": -1}, theorem="(documented range)")
    for d in range(2, 6):
        for sparse in (False, True):
            for nrm in (True, False):
                args = {"dim": d, "is_sparse": sparse, "is_normalized": nrm}
                v = dense(S.max_entangled(d, sparse, nrm))
                k.case("max_entangled", args, True)
                k.cmp_int("max_entangled", args, v, k.L.ask("c17_int", {"kind": "max_entangled", "d": d, "normalized": nrm}), "maxEnt_marginal_mixed")
                x = np.asarray(v, dtype=float).reshape(-1)
                rho = np.outer(x, x)
                scale = 1.0 if nrm else float(d)
                for keep in (0, 1):
                    k.close("marginal of the maximally entangled state is I/d", "max_entangled", {**args, "keep": keep}, ptrace(rho, d, keep), scale * np.eye(d) / d, theorem="maxEnt_marginal_mixed")
                k.close("norm", "max_entangled", args, x @ x, scale, theorem="maxEnt_norm")
        # bell(0) = max_entangled(2)
    k.close("bell(0) = max_entangled(2)", "bell", {"idx": 0}, S.bell(0), S.max_entangled(2))


def perm_axes_invariant(v, d, n, perms):
    T = np.asarray(v).reshape([d] * n)
    return all(np.array_equal(T.transpose(p), T) for p in perms)


def some_perms(rng, n, quick):
    allp = list(itertools.permutations(range(n)))
    if len(allp) <= 24 or not quick:
        return allp
    return [allp[int(i)] for i in rng.choice(len(allp), size=24, replace=False)]


# log2 of the factors applied to integer coefficient vectors: norms 1e-120 .. 1e120 (squares stay inside the normal float64 range)
SCALE_EXPONENTS = (-400, -100, -50, -41, -30, -20, -10, 10, 30, 100, 400)


def check_ghz(k: K):
    rng = k.ctx.rng
    for d in range(2, 6):
        for n in range(1, 6):
            args = {"dim": d, "num_qubits": n}
            v = S.ghz(d, n)
            k.case("ghz", args, True)
            res = k.L.ask("c17_int", {"kind": "ghz", "d": d, "n": n, "coeff": None})
            k.cmp_int("ghz", args, v, res, "ghz_support")
            x = np.asarray(v).reshape(-1)
            nz = x[x != 0]
            if len(nz) != d or not np.all(nz == nz[0]):
                k.bad("GHZ amplitudes are not d equal non-zero numbers", "ghz", args, theorem="ghz_support")
            k.close("norm", "ghz", args, x @ x, 1.0, theorem="ghz_norm")
            if not perm_axes_invariant(x, d, n, some_perms(rng, n, k.quick)):
                k.bad("GHZ state not invariant under a permutation of the parties", "ghz", args, theorem="ghz_symmetric")
    coeffs = {2: [[3, 4], [1, 0], [-5, 12]], 3: [[1, 2, 2], [2, 3, 6]], 4: [[1, 1, 1, 1], [1, 2, 4, 10]], 5: [[1, 1, 3, 3, 4]]}
    for d, cl in coeffs.items():
        for c in cl:
            for n in (1, 2, 3):
                nrm = SQ(sum(x * x for x in c))
                prng = case_rng("c17/ghz", d, n, c)
                # the coefficient vector as list and as ndarray (documented: "a 1-by-dim vector"): int64 / float64, contiguous or a strided view
                for form, cpy in (("int", list(c)), ("normalised", [x / nrm for x in c]), ("array-int", present_nd(prng, np.array(c))), ("array-float", present_nd(prng, np.array(c, dtype=float), allow_dtype=False)),
                                  ("array-normalised", present_nd(prng, np.array(c) / nrm))):
                    args = {"dim": d, "num_qubits": n, "coeff": c, "form": form}
                    v = k.pure(S.ghz, d, n, cpy)
                    k.case("ghz", args, True, "ghz/coeff")
                    k.cmp_int("ghz", args, v, k.L.ask("c17_int", {"kind": "ghz", "d": d, "n": n, "coeff": c}), "ghz_support")
    # un-normalised coefficients at every scale: t*c with t an exact power of two (so t*c is exact in float64 and no square
    # under- or overflows) must give the state of c itself: tiny norms (far below any "division guard" such as 1e-12 or machine epsilon) and huge ones
    for d, cl in coeffs.items():
        for c in cl:
            for n in (1, 2, 3):
                res = k.L.ask("c17_int", {"kind": "ghz", "d": d, "n": n, "coeff": c})
                prng = case_rng("c17/ghz-scale", d, n, c)
                for e in SCALE_EXPONENTS:
                    t = math.ldexp(1.0, e)
                    for form, cpy in (("scaled-list", [t * x for x in c]), ("scaled-array", present_nd(prng, np.array([t * x for x in c], dtype=float), allow_dtype=False))):
                        args = {"dim": d, "num_qubits": n, "coeff": c, "scale_log2": e, "form": form}
                        r = k.run_impl(S.ghz, d, n, cpy)
                        k.case("ghz", args, True, "ghz/coeff-scaled")
                        if r[0] != "ok":
                            k.bad(f"raised {r[1]} on a coefficient vector of norm 2^{e} * {SQ(sum(x * x for x in c)):.4g}", "ghz", args, theorem="ghz_scaled_coeff_model")
                            continue
                        v = r[1]
                        if not k.cmp_int("ghz", args, v, res, "ghz_scaled_coeff_model / ghz_coeff_scale_invariant (normalisation at every scale) + ghz_support"):
                            x = np.asarray(v, dtype=float).reshape(-1)
                            k.close("norm", "ghz", args, x @ x, 1.0, theorem="ghz_norm / ghz_scaled_coeff_model")
    for (d, n, c) in [(0, 2, None), (-1, 2, None), (2, 0, None), (2, -1, None), (2, 2, [1, 2, 3]), (3, 2, [1, 2])]:
        res = k.L.ask("c17_int", {"kind": "ghz", "d": d, "n": n, "coeff": c})
        k.expect_reject("ghz", {"dim": d, "num_qubits": n, "coeff": c}, S.ghz, (d, n, c), res)


def w_kind(x, tgt):
    return "rounded-to-4-decimals" if np.array_equal(np.real(np.asarray(x)), np.around(np.real(np.asarray(tgt)), 4)) else "other"


def check_w(k: K):
    rng = k.ctx.rng
    for n in range(2, 6):
        args = {"num_qubits": n}
        v = S.w_state(n)
        k.case("w_state", args, True)
        res = k.L.ask("c17_int", {"kind": "w_state", "n": n, "coeff": None})
        x = np.asarray(v, dtype=float).reshape(-1)
        tgt = np.array(res["re"], dtype=float) / SQ(res["den2"])
        # support and symmetry are exact statements and hold independently of the rounding
        if not np.array_equal(x != 0, tgt != 0):
            k.bad("support is not the single-excitation basis states", "w_state", args, theorem="w_support")
        nz = x[x != 0]
        if len(nz) and not np.all(nz == nz[0]):
            k.bad("W amplitudes are not all equal", "w_state", args, theorem="w_support")
        if not perm_axes_invariant(x, 2, n, some_perms(rng, n, k.quick)):
            k.bad("W state not invariant under a permutation of the qubits", "w_state", args, theorem="w_symmetric")
        k.cmp_int("w_state", args, v, res, "w_amplitude / w_support / w_norm (normalisation 1/sqrt(n) as documented)", kind=w_kind)
    for c in ([3, 4], [1, 2, 2], [2, 3, 6], [1, 1, 1, 1], [1, 2, 3, 4], [1, 2, 4, 10], [1, 1, 3, 3, 4]):
        n = len(c)
        nrm = SQ(sum(x * x for x in c))
        prng = case_rng("c17/w_state", c)
        # list and ndarray forms (the docstring example passes an ndarray): int64 / float64, contiguous or a strided view
        for form, cpy in (("int", list(c)), ("normalised", [x / nrm for x in c]), ("array-int", present_nd(prng, np.array(c))), ("array-float", present_nd(prng, np.array(c, dtype=float), allow_dtype=False)),
                          ("array-normalised", present_nd(prng, np.array(c) / nrm))):
            args = {"num_qubits": n, "coeff": c, "form": form}
            v = k.pure(S.w_state, n, cpy)
            k.case("w_state", args, True, "w_state/coeff")
            k.cmp_int("w_state", args, v, k.L.ask("c17_int", {"kind": "w_state", "n": n, "coeff": c}), "w_amplitude / w_support / w_norm (generalised W state, documented normalisation)", kind=w_kind)
    # the same coefficient vectors at every scale (exact powers of two): tiny and huge norms
    for c in ([3, 4], [1, 2, 2], [2, 3, 6], [1, 2, 4, 10], [1, 1, 3, 3, 4]):
        n = len(c)
        res = k.L.ask("c17_int", {"kind": "w_state", "n": n, "coeff": c})
        prng = case_rng("c17/w_state-scale", c)
        for e in SCALE_EXPONENTS:
            t = math.ldexp(1.0, e)
            for form, cpy in (("scaled-list", [t * x for x in c]), ("scaled-array", present_nd(prng, np.array([t * x for x in c], dtype=float), allow_dtype=False))):
                args = {"num_qubits": n, "coeff": c, "scale_log2": e, "form": form}
                r = k.run_impl(S.w_state, n, cpy)
                k.case("w_state", args, True, "w_state/coeff-scaled")
                if r[0] != "ok":
                    k.bad(f"raised {r[1]} on a coefficient vector of norm 2^{e} * {SQ(sum(x * x for x in c)):.4g}", "w_state", args, theorem="w_scaled_coeff_model")
                    continue
                if not k.cmp_int("w_state", args, r[1], res, "w_scaled_coeff_model / w_coeff_scale_invariant (normalisation at every scale) + w_amplitude / w_support", kind=w_kind):
                    x = np.asarray(r[1], dtype=float).reshape(-1)
                    k.close("norm", "w_state", args, x @ x, 1.0, theorem="w_norm / w_scaled_coeff_model")
    for (n, c) in [(1, None), (0, None), (-1, None), (4, [1, 2, 3]), (2, [1, 2, 3])]:
        k.expect_reject("w_state", {"num_qubits": n, "coeff": c}, S.w_state, (n, c), k.L.ask("c17_int", {"kind": "w_state", "n": n, "coeff": c}))


def check_dicke(k: K):
    rng = k.ctx.rng
    for n in range(1, 6):
        for e in range(0, n + 1):
            args = {"num_qubit": n, "num_excited": e}
            v = S.dicke(n, e)
            k.case("dicke", args, 0 < e < n or n == 1)
            res = k.L.ask("c17_int", {"kind": "dicke", "n": n, "k": e})
            k.cmp_int("dicke", args, v, res, "dicke_support")
            x = np.asarray(v, dtype=float)
            nz = x[x != 0]
            if not np.all(nz == nz[0]) or len(nz) != math.comb(n, e):
                k.bad("Dicke amplitudes are not C(n,k) equal numbers", "dicke", args, theorem="dicke_support")
            if any(bin(j).count("1") != e for j in np.nonzero(x)[0]):
                k.bad("support contains a basis state with the wrong number of excitations", "dicke", args, theorem="dicke_support")
            k.close("norm", "dicke", args, x @ x, 1.0, theorem="dicke_norm")
            if not perm_axes_invariant(x, 2, n, some_perms(rng, n, k.quick)):
                k.bad("Dicke state not permutation symmetric", "dicke", args, theorem="dicke_symmetric")
            dm = S.dicke(n, e, True)
            k.case("dicke", {**args, "return_dm": True}, 0 < e < n, "dicke/dm")
            k.close("density-matrix form is |D><D|", "dicke", {**args, "return_dm": True}, dm, np.outer(x, x), theorem="dicke_support")
        k.expect_reject("dicke", {"num_qubit": n, "num_excited": n + 1}, S.dicke, (n, n + 1), k.L.ask("c17_int", {"kind": "dicke", "n": n, "k": n + 1}))
    # w_state(n) is the Dicke state with one excitation (documented normalisation): compared through the models
    for n in range(2, 6):
        a = k.L.ask("c17_int", {"kind": "dicke", "n": n, "k": 1})
        b = k.L.ask("c17_int", {"kind": "w_state", "n": n, "coeff": None})
        if a["re"] != b["re"] or a["den2"] != b["den2"]:
            k.bad("models of dicke(n,1) and w_state(n) differ (model defect)", "dicke", {"n": n})


def is_product(v, d):
    return np.linalg.matrix_rank(np.asarray(v, dtype=float).reshape(d, d), tol=1e-12) == 1


def check_tile_domino(k: K):
    for name, f, cnt, kind in (("tile", S.tile, 5, "tile"), ("domino", S.domino, 9, "domino")):
        vs = []
        for idx in range(cnt):
            args = {"idx": idx}
            v = f(idx)
            vs.append(np.asarray(v, dtype=float).reshape(-1))
            k.case(name, args, True)
            k.cmp_int(name, args, v, k.L.ask("c17_int", {"kind": kind, "idx": idx}), f"{name}_orthonormal")
            if not is_product(v, 3):
                k.bad("not a product vector", name, args, theorem=f"{name}_orthonormal (product vector by construction: kronV)")
        G = np.array(vs) @ np.array(vs).T
        k.close(f"{name} states orthonormal", name, {}, G, np.eye(cnt), theorem=f"{name}_orthonormal")
        for idx in (cnt, cnt + 1):
            k.expect_reject(name, {"idx": idx}, f, (idx,), k.L.ask("c17_int", {"kind": kind, "idx": idx}))
    # domino: a complete basis of C^3 (x) C^3
    V = np.array([np.asarray(S.domino(i), dtype=float).reshape(-1) for i in range(9)])
    k.close("domino basis complete", "domino", {}, V.T @ V, np.eye(9), theorem="domino_orthonormal")


def check_gen_bell(k: K):
    for d in range(2, 6):
        rhos = {}
        for a in range(d):
            for b in range(d):
                args = {"k_1": a, "k_2": b, "dim": d}
                rho = S.gen_bell(a, b, d)
                rhos[(a, b)] = rho
                k.case("gen_bell", args, True)
                k.cmp_ru("gen_bell", args, rho, k.L.ask("c17_ru", {"kind": "gen_bell", "d": d, "a": a, "b": b}), "genBellE_eval")
                k.close("pure (rho^2 = rho)", "gen_bell", args, rho @ rho, rho, theorem="genBell_orthonormal")
                for keep in (0, 1):
                    k.close("marginal is I/d", "gen_bell", {**args, "keep": keep}, ptrace(rho, d, keep), np.eye(d) / d, theorem="genBell_marginal_mixed")
        for (p, A), (q, B) in itertools.product(rhos.items(), repeat=2):
            t = np.trace(A @ B)
            if abs(t - (1 if p == q else 0)) > TOL:
                k.bad(f"|<psi_{p}|psi_{q}>|^2 = {t}", "gen_bell", {"dim": d, "pair": [list(p), list(q)]}, theorem="genBell_orthonormal")
        k.close("generalised Bell basis complete", "gen_bell", {"dim": d}, sum(rhos.values()), np.eye(d * d), theorem="genBell_orthonormal")
    b = [np.asarray(S.bell(i)).reshape(-1) for i in range(4)]
    for (a, c), i in {(0, 0): 0, (0, 1): 1, (1, 0): 2, (1, 1): 3}.items():
        k.close("gen_bell(.,.,2) is the Bell projector", "gen_bell", {"k_1": a, "k_2": c, "dim": 2}, S.gen_bell(a, c, 2), np.outer(b[i], b[i]))


# ------------------------------------------------------------------------------------------------
# Werner / isotropic / Horodecki


def werner_grid(d):
    t = Fraction(1, d)
    eps = Fraction(1, 10 ** 6)
    inside = [Fraction(-1), Fraction(-1, 2), Fraction(0), t / 2, t - eps, t, t + eps, Fraction(1, 2), Fraction(9, 10), Fraction(1)]
    outside = [Fraction(-1) - Fraction(1, 1000), Fraction(1) + Fraction(1, 1000)]
    return sorted(set(inside)), outside


def iso_grid(d):
    t = Fraction(1, d + 1)
    lo = Fraction(-1, d * d - 1)
    eps = Fraction(1, 10 ** 6)
    inside = [lo, lo / 2, Fraction(0), t / 2, t - eps, t, t + eps, Fraction(1, 2), Fraction(9, 10), Fraction(1)]
    outside = [lo - Fraction(1, 1000), Fraction(1) + Fraction(1, 1000)]
    return sorted(set(inside)), outside


def check_ppt(k: K, fn, args, rho, d, eig_model, alpha, thr_lo, thr_hi, theorem):
    """eig_model: the two closed-form eigenvalues of the partial transpose (Fractions); PPT iff both >= 0"""
    pt = ptranspose(np.real(dense(rho)))
    ev = np.linalg.eigvalsh((pt + pt.T) / 2)
    lam_impl = float(ev.min())
    lam_model = ffloat(min(eig_model))
    if abs(lam_impl - lam_model) > 1e-11:
        k.bad(f"least eigenvalue of the partial transpose {lam_impl:.3e} differs from the closed form {lam_model:.3e}", fn, args, theorem=theorem)
        return
    margin = min(abs(alpha - t) for t in (thr_lo, thr_hi) if t is not None)
    model_ppt = min(eig_model) >= 0
    spec_ppt = (thr_lo is None or alpha >= thr_lo) and alpha <= thr_hi
    if model_ppt != spec_ppt:
        k.bad("closed-form eigenvalues contradict the threshold (model defect)", fn, args, theorem=theorem)
    if margin >= Fraction(1, 10 ** 6):
        if (lam_impl >= -1e-13) != spec_ppt or abs(lam_impl) < 1e-9:
            k.bad(f"PPT verdict on the returned state ({lam_impl:.3e}) contradicts the threshold", fn, args, theorem=theorem)
        k.ctx.count(f"{fn}/ppt-verdict-{'ppt' if spec_ppt else 'npt'}")
    elif margin == 0 and abs(lam_impl) > 1e-9:
        k.bad(f"at the threshold the least eigenvalue of the partial transpose is {lam_impl:.3e}, not 0", fn, args, theorem=theorem)


def werner_list_kind(d, al):
    """what the unchanged code computes: alpha[0] unused, P(sigma_k) paired with alpha[k], last permutation unused"""
    from toqito.perms import permutation_operator

    def kind(x, tgt):
        n = len(al) + 1
        p = {2: 2, 6: 3, 24: 4}.get(n)
        if p is None:
            return "other"
        perms = list(itertools.permutations(range(p)))
        sp_ = np.argsort(perms, axis=1)
        rho = np.identity(d ** p)
        for i in range(1, n - 1):
            rho = rho - ffloat(al[i]) * dense(permutation_operator(d, sp_[i, :], False, False))
        rho = rho / np.trace(rho)
        return "alpha-index-shift" if float(np.abs(x - rho).max()) <= 1e-12 else "other"

    return kind


def check_werner(k: K):
    rng = k.ctx.rng
    for d in range(2, 6):
        inside, outside = werner_grid(d)
        for al in inside + outside:
            af = ffloat(al)
            ax = Fraction(af)  # the exact value the implementation receives
            args = {"dim": d, "alpha": qj(ax), "in_range": al in inside}
            rho = S.werner(d, af)
            k.case("werner", args, al != 0, "werner/scalar" + ("" if al in inside else "/outside"))
            k.cmp_rat("werner", args, rho, k.L.ask("c17_rat", {"kind": "werner", "d": d, "alpha": qj(ax)}), "(model definition) werner = (I - alpha S)/(d(d - alpha))")
            k.close("trace 1", "werner", args, np.trace(rho), 1.0, theorem="werner_trace_one")
            k.close("Hermitian", "werner", args, rho, rho.T, theorem="(model definition) werner = (I - alpha S)/(d(d - alpha))")
            # invariance under U (x) U, exact rational unitaries
            nU = (3 if d <= 3 else (2 if d == 4 else 1)) * (1 if k.quick else 4)
            for _ in range(nU):
                U = rational_unitary(rng, d)
                r = commutator_residual(np.real(rho), [U, U])
                k.ctx.count("werner/UxU-invariance (exact arithmetic)")
                if r > TOL:
                    k.bad(f"(U x U) rho != rho (U x U): residual {r:.3e}", "werner", {**args, "U_num_re": U[0].tolist(), "U_num_im": U[1].tolist(), "U_den": U[2]}, theorem="werner_UU_invariant")
            e = k.L.ask("c17_rat", {"kind": "werner_pt_eigs", "d": d, "alpha": qj(ax)})["eigs"]
            check_ppt(k, "werner", args, rho, d, [Fraction(*e[0]), Fraction(*e[1])], ax, None, Fraction(1, d), "werner_ppt_iff")
            # PSD exactly in [-1, 1]
            lam = float(np.linalg.eigvalsh((rho + rho.T) / 2).min())
            psd = -1 <= ax <= 1
            if abs(lam) > 1e-9 and (lam >= 0) != psd:
                k.bad(f"positivity ({lam:.3e}) contradicts alpha in [-1,1]", "werner", args, theorem="werner_psd_iff")
            # list form with one parameter = scalar form
            la = {"dim": d, "alpha": [qj(ax)]}
            r1 = k.run_impl(S.werner, d, [af])
            k.case("werner", la, al != 0, "werner/list1")
            if r1[0] != "ok":
                k.bad(f"one-parameter list form raises: {r1[1]}", "werner", la, theorem="werner_list_eq_scalar")
            else:
                m = k.L.ask("c17_rat", {"kind": "werner_list", "d": d, "alpha": [qj(ax)], "argsort": True})
                k.cmp_rat("werner", la, r1[1], m, "werner_list_eq_scalar", kind=werner_list_kind(d, [ax]))
        # singlet = werner(d, 1)
        sg = S.singlet(d)
        k.case("singlet", {"dim": d}, True)
        k.cmp_rat("singlet", {"dim": d}, sg, k.L.ask("c17_rat", {"kind": "singlet", "d": d}), "singlet_eq_werner_one")
        k.close("singlet = werner(d, 1)", "singlet", {"dim": d}, sg, S.werner(d, 1.0), theorem="singlet_eq_werner_one")
    # multipartite list form (p = 3): the documented I - sum alpha(k) P(k+1), normalised
    dims3 = [2] if k.quick else [2, 3]
    for d in dims3:
        for _ in range(3 if k.quick else 8):
            al = [Fraction(int(x), 100) for x in rng.integers(-9, 10, size=5)]
            al = [Fraction(ffloat(a)) for a in al]
            la = {"dim": d, "alpha": [qj(a) for a in al]}
            r3 = k.run_impl(S.werner, d, [ffloat(a) for a in al])
            k.case("werner", la, True, "werner/list5")
            if r3[0] != "ok":
                k.bad(f"five-parameter list form raises: {r3[1]}", "werner", la, theorem="wernerList (documented form)")
                continue
            rho = dense(r3[1])
            k.close("trace 1", "werner", la, np.trace(rho), 1.0)
            U = rational_unitary(rng, d)
            r = commutator_residual(np.real(rho), [U, U, U])
            if r > TOL:
                k.bad(f"(U x U x U) rho != rho (U x U x U): residual {r:.3e}", "werner", la, theorem="wernerList_tensor_invariant / wernerPerms_valid")
            ok = False
            for asort in (True, False):
                m = k.L.ask("c17_rat", {"kind": "werner_list", "d": d, "alpha": la["alpha"], "argsort": asort})
                if "reject" in m:
                    continue
                tgt = np.array([ffloat(v) for v in rat_array(m).reshape(-1)]).reshape(rho.shape)
                if float(np.abs(rho - tgt).max()) <= TOL:
                    ok = True
                    k.ctx.count(f"werner/list5 matches documented form with permutation convention argsort={asort}")
            if not ok:
                m = k.L.ask("c17_rat", {"kind": "werner_list", "d": d, "alpha": la["alpha"], "argsort": True})
                k.cmp_rat("werner", la, rho, m, "wernerList (documented form: I - sum_k alpha(k) P(k+1), normalised)", kind=werner_list_kind(d, al))
    # p = 4 (23 parameters): the party-count loop `n_var //= i` takes two rounds
    if True:
        d = 2
        al = [Fraction(ffloat(Fraction(int(x), 100))) for x in rng.integers(-4, 5, size=23)]
        la = {"dim": d, "alpha": [qj(a) for a in al]}
        r4 = k.run_impl(S.werner, d, [ffloat(a) for a in al])
        k.case("werner", la, True, "werner/list23")
        m = k.L.ask("c17_rat", {"kind": "werner_list", "d": d, "alpha": la["alpha"], "argsort": True})
        if r4[0] != "ok" or "reject" in m:
            k.bad(f"23-parameter list form: implementation {r4[0]} {str(r4[1])[:80]}, model {'rejects' if 'reject' in m else 'accepts'}", "werner", la, theorem="wernerParties_spec")
        else:
            k.cmp_rat("werner", la, r4[1], m, "wernerList (documented form: I - sum_k alpha(k) P(k+1), normalised); wernerParties_spec", kind=werner_list_kind(d, al))
            U = rational_unitary(rng, d)
            r = commutator_residual(np.real(dense(r4[1])), [U, U, U, U])
            if r > TOL:
                k.bad(f"(U^(x)4) rho != rho (U^(x)4): residual {r:.3e}", "werner", la, theorem="wernerList_tensor_invariant / wernerPerms_valid")
    # scalar alpha must be a float: an int is rejected by the dispatch (`isinstance(alpha, float)`)
    for ia in (0, 1):
        r = k.run_impl(S.werner, 2, ia)
        k.case("werner", {"dim": 2, "alpha": ia, "alpha_type": "int"}, False, "werner/reject-stream")
        if not (r[0] == "raise" and r[1].startswith("ValueError")):
            k.bad("integer alpha is not rejected with ValueError (the code dispatches on isinstance(alpha, float))", "werner", {"dim": 2, "alpha": ia, "alpha_type": "int"}, theorem="(code branch) dispatch on the type of alpha")
    for bad_alpha in ([0.5, 0.6], [0.5, 0.6, 0.7], [0.1] * 4, [0.01] * 6, [0.01] * 7, [0.01] * 11, [0.01] * 24):
        r = k.run_impl(S.werner, 2, bad_alpha)
        k.case("werner", {"dim": 2, "alpha_len": len(bad_alpha)}, False, "werner/reject-stream")
        m = k.L.ask("c17_rat", {"kind": "werner_list", "d": 2, "alpha": [qj(Fraction(a)) for a in bad_alpha], "argsort": True})
        if ("reject" in m) != (r[0] == "raise"):
            k.bad("rejection of an alpha vector whose length is not p!-1 differs from the model", "werner", {"dim": 2, "alpha_len": len(bad_alpha)}, theorem="(documented range)")


def check_isotropic(k: K):
    rng = k.ctx.rng
    for d in range(2, 6):
        inside, outside = iso_grid(d)
        for al in inside + outside:
            af = ffloat(al)
            ax = Fraction(af)
            args = {"dim": d, "alpha": qj(ax), "in_range": al in inside}
            rho = S.isotropic(d, af)
            k.case("isotropic", args, al != 0, "isotropic" + ("" if al in inside else "/outside"))
            k.cmp_rat("isotropic", args, rho, k.L.ask("c17_rat", {"kind": "isotropic", "d": d, "alpha": qj(ax)}), "(model definition) isotropic = (1-alpha) I/d^2 + alpha |Omega><Omega|/d")
            k.close("trace 1", "isotropic", args, np.trace(rho), 1.0, theorem="isotropic_trace_one")
            nU = (3 if d <= 3 else (2 if d == 4 else 1)) * (1 if k.quick else 4)
            for _ in range(nU):
                U = rational_unitary(rng, d)
                Uc = (U[0], -U[1], U[2])
                r = commutator_residual(np.real(rho), [U, Uc])
                k.ctx.count("isotropic/UxconjU-invariance (exact arithmetic)")
                if r > TOL:
                    k.bad(f"(U x conj U) rho != rho (U x conj U): residual {r:.3e}", "isotropic", {**args, "U_num_re": U[0].tolist(), "U_num_im": U[1].tolist(), "U_den": U[2]}, theorem="isotropic_UUbar_invariant")
            e = k.L.ask("c17_rat", {"kind": "isotropic_pt_eigs", "d": d, "alpha": qj(ax)})["eigs"]
            check_ppt(k, "isotropic", args, rho, d, [Fraction(*e[0]), Fraction(*e[1])], ax, Fraction(-1, d - 1), Fraction(1, d + 1), "isotropic_ppt_iff")
            lam = float(np.linalg.eigvalsh((rho + rho.T) / 2).min())
            psd = Fraction(-1, d * d - 1) <= ax <= 1
            if abs(lam) > 1e-9 and (lam >= 0) != psd:
                k.bad(f"positivity ({lam:.3e}) contradicts alpha in [-1/(d^2-1), 1]", "isotropic", args, theorem="isotropic_psd_iff")
        # self-test of the invariance check: without the conjugate (U (x) U) a complex U must not commute with an isotropic state
        U = rational_unitary(rng, d)
        if commutator_residual(np.real(S.isotropic(d, 0.5)), [U, U]) < 1e-6:
            from ..common import InfraError
            raise InfraError("C17 self-test: generated unitary does not separate U(x)U from U(x)conj(U)")
        k.ctx.count("isotropic/self-test: U(x)U does not commute")
        k.close("isotropic(d, 1) = |psi+><psi+|", "isotropic", {"dim": d, "alpha": [1, 1]}, S.isotropic(d, 1.0), S.max_entangled(d) @ S.max_entangled(d).T)
        for sparse in (False, True):
            mm = S.max_mixed(d, sparse)
            k.case("max_mixed", {"dim": d, "is_sparse": sparse}, True)
            k.cmp_rat("max_mixed", {"dim": d, "is_sparse": sparse}, mm, k.L.ask("c17_rat", {"kind": "max_mixed", "d": d}), "(model definition) maxMixed")
        k.close("isotropic(d, 0) = max_mixed(d^2)", "isotropic", {"dim": d, "alpha": [0, 1]}, S.isotropic(d, 0.0), S.max_mixed(d * d))


def check_horodecki(k: K):
    pyth = [(Fraction(0), Fraction(1, 2)), (Fraction(3, 5), Fraction(2, 5)), (Fraction(4, 5), Fraction(3, 10)), (Fraction(5, 13), Fraction(6, 13)),
            (Fraction(12, 13), Fraction(5, 26)), (Fraction(7, 25), Fraction(12, 25)), (Fraction(1), Fraction(0))]
    for dim in (None, [3, 3], [2, 4], np.array([2, 4])):
        dl = [3, 3] if dim is None else [int(x) for x in dim]
        for a, c in pyth:
            args = {"a_param": qj(a), "dim": None if dim is None else dl, "dim_type": type(dim).__name__}
            pdim = present_nd(case_rng("c17/horodecki", dl, qj(a)), dim, allow_dtype=False) if isinstance(dim, np.ndarray) else dim
            rho = k.pure(S.horodecki, ffloat(a), pdim)
            k.case("horodecki", args, True, f"horodecki/{dl}")
            m = k.L.ask("c17_rat", {"kind": "horodecki", "a": qj(a), "c": qj(c), "dim": dl})
            k.cmp_rat("horodecki", args, rho, m, "(model definition) horodecki33 / horodecki24; horodecki_trace_one")
            q = rat_array(m)
            n = q.shape[0]
            ptq = np.array([[q[(r // dl[1]) * dl[1] + cc % dl[1]][(cc // dl[1]) * dl[1] + r % dl[1]] for cc in range(n)] for r in range(n)], dtype=object)
            if sum(q[i][i] for i in range(n)) != 1:
                k.bad("model trace is not 1 (model defect)", "horodecki", args)
            if not psd_exact(q) or not psd_exact(ptq):
                k.bad("exact rational check: Horodecki state or its partial transpose is not PSD", "horodecki", args, theorem="horodecki33_psd / horodecki33_ppt / horodecki24_psd / horodecki24_ppt (all a in [0,1], symbolic); here re-checked by an exact LDL^T certificate of the model matrix")
            k.ctx.count("horodecki/exact PSD+PPT certificates")
        grid = [0.0, 1e-9, 0.1, 0.25, 1 / 3, 0.5, 0.7, 0.9, 1 - 1e-9, 1.0]
        for a in grid:
            args = {"a_param": a, "dim": None if dim is None else dl}
            rho = S.horodecki(a, dim)
            k.case("horodecki", args, True, f"horodecki/{dl}/float-grid")
            k.close("trace 1", "horodecki", args, np.trace(rho), 1.0, theorem="(model definition) horodecki33 / horodecki24; horodecki_trace_one")
            k.close("Hermitian", "horodecki", args, rho, rho.T)
            ev = np.linalg.eigvalsh(rho).min()
            pt = ptranspose(rho, tuple(dl))
            evt = np.linalg.eigvalsh((pt + pt.T) / 2).min()
            if ev < -TOL or evt < -TOL:
                k.bad(f"not PSD ({ev:.3e}) or not PPT ({evt:.3e})", "horodecki", args, theorem="horodecki33_psd / horodecki33_ppt / horodecki24_psd / horodecki24_ppt")
    for a in (-1e-9, -0.5, 1 + 1e-9, 2.0):
        for dim in (None, [2, 4]):
            r = k.run_impl(S.horodecki, a, dim)
            k.case("horodecki", {"a_param": a, "dim": dim}, False, "horodecki/reject-stream")
            if not (r[0] == "raise" and r[1].startswith("ValueError")):
                k.bad("parameter outside [0,1] not rejected with ValueError", "horodecki", {"a_param": a, "dim": dim}, theorem="(documented range)")
    for dim in ([2, 3], [4, 2], [3, 3, 3]):
        r = k.run_impl(S.horodecki, 0.5, dim)
        k.case("horodecki", {"a_param": 0.5, "dim": dim}, False, "horodecki/reject-stream")
        if not (r[0] == "raise" and r[1].startswith("ValueError")):
            k.bad("unsupported dimension not rejected", "horodecki", {"a_param": 0.5, "dim": dim}, theorem="(documented range)")


# ------------------------------------------------------------------------------------------------
# MUBs and the constructors without a Lean model


def mub_match(k: K, args, g, vecs, models, theorem):
    """vecs: the d returned vectors of basis g; models: the d model vectors (unit norm).  LAPACK fixes neither order nor phase of
    eigenvectors (eigenspaces are one-dimensional: mub_eigenvector_unique), so each returned vector must be a unimodular multiple
    of exactly one model vector"""
    d = len(models)
    used = set()
    for r, v in enumerate(vecs):
        ov = [complex(np.vdot(w, v)) for w in models]
        best = int(np.argmax([abs(z) for z in ov]))
        res = float(np.abs(v - ov[best] * models[best]).max())
        if abs(abs(ov[best]) - 1) > 1e-10 or res > 1e-10 or best in used:
            k.bad(f"vector {r} of basis {g} is not (a phase times) a fresh eigenvector of the model of X Z^j: best overlap {abs(ov[best]):.12f}, residual {res:.3e}",
                  "mutually_unbiased_basis", {**args, "basis": g, "vector": r}, impl=v, theorem=theorem)
            return False
        used.add(best)
    return True


def check_mub(k: K):
    for d in (2, 3, 5, 7) if k.quick else (2, 3, 5, 7, 11, 13):
        args = {"dim": d}
        m = S.mutually_unbiased_basis(d)
        k.case("mutually_unbiased_basis", args, True)
        if len(m) != d * (d + 1) or any(np.asarray(v).shape != (d,) for v in m):
            k.bad("expected d(d+1) vectors of length d", "mutually_unbiased_basis", args, theorem="mub_unbiased")
            continue
        B = [np.array(m[g * d:(g + 1) * d]) for g in range(d + 1)]
        for g in range(d + 1):
            for h in range(d + 1):
                G = np.abs(B[g].conj() @ B[h].T) ** 2
                tgt = np.eye(d) if g == h else np.ones((d, d)) / d
                k.close("orthonormal / unbiased", "mutually_unbiased_basis", {**args, "bases": [g, h]}, G, tgt, tol=1e-10,
                        theorem="mub_basis_orthonormal / mub_unbiased / mub_unbiased_standard / mub2_orthonormal / mub2_unbiased")
        # correspondence with the Lean model: standard basis first, then the eigenbases of X Z^j, j = d, d-1, ..., 1
        if not np.array_equal(B[0], np.eye(d)):
            k.bad("the first basis is not the standard basis", "mutually_unbiased_basis", args, impl=B[0], theorem="(model definition) mubLoopJ")
        X, Z = _M.gen_pauli(1, 0, d), _M.gen_pauli(0, 1, d)
        for g in range(1, d + 1):
            cargs = {**args, "basis": g}
            k.case("mutually_unbiased_basis", cargs, True, "mutually_unbiased_basis/model-eigenbasis")
            if d == 2:
                models = []
                for mm in range(2):
                    res = k.L.ask("c17_int", {"kind": "mub2", "g": g, "m": mm})
                    re, im = int_array(res)
                    models.append((re.astype(float) + 1j * im.astype(float)) / SQ(res["den2"]))
                mub_match(k, args, g, list(B[g]), models, "mub2_eigenvector / mub2_orthonormal")
                continue
            res = k.L.ask("c17_ru", {"kind": "mub", "d": d, "g": g})
            jj = res["j"]
            # the matrix the code hands to eig (elementwise power of the clock matrix), rebuilt from the implementation's gen_pauli
            k.cmp_ru("mutually_unbiased_basis", {**cargs, "what": "pauli_x @ pauli_z ** j", "j": jj}, X @ Z ** jj, res["matrix"], "mubMatMirror_eq")
            models = [np.exp(2j * np.pi * np.array(row, dtype=float) / d) / SQ(res["den2"]) for row in res["vectors"]]
            if mub_match(k, args, g, list(B[g]), models, "mubE_eval / mub_eigenvector / mub_eigenvector_unique"):
                k.ctx.count("mutually_unbiased_basis/eigenbasis matches the model up to order and phase")
    for d in list(range(2, 17)) + [25, 27] if k.quick else list(range(2, 40)):
        br = k.L.ask("c17_int", {"kind": "mub_guard", "d": d})["branch"]
        r = k.run_impl(S.mutually_unbiased_basis, d)
        k.case("mutually_unbiased_basis", {"dim": d, "guard": br}, False, "mutually_unbiased_basis/guard-stream")
        if br == 0:
            if r[0] != "ok":
                k.bad(f"prime dimension rejected: {r[1]}", "mutually_unbiased_basis", {"dim": d}, theorem="isPrimeB_iff_prime")
        elif not (r[0] == "raise" and r[1].startswith("ValueError")):
            k.bad("non-prime dimension not rejected with ValueError", "mutually_unbiased_basis", {"dim": d}, theorem="isPrimeB_iff_prime")
        elif ("prime power" in r[1]) != (br == 1):
            k.ctx.count("mutually_unbiased_basis/guard message kind differs from the model branch")


def qi_array(res):
    re = np.array([ffloat(Fraction(a, b)) for a, b in res["re"]]).reshape(res["shape"])
    im = np.array([ffloat(Fraction(a, b)) for a, b in res["im"]]).reshape(res["shape"])
    return re + 1j * im


def check_misc(k: K):
    rng = k.ctx.rng
    # ---- bb84: [[e_0, e_1], [e_+, e_-]]
    bb = S.bb84()
    z = np.array([np.asarray(v).reshape(-1) for v in bb[0]])
    x = np.array([np.asarray(v).reshape(-1) for v in bb[1]])
    for b in range(2):
        for mm in range(2):
            k.case("bb84", {"basis": b, "vector": mm}, True)
            k.cmp_int("bb84", {"basis": b, "vector": mm}, bb[b][mm], k.L.ask("c17_int", {"kind": "bb84", "b": b, "m": mm}), "bb84_orthonormal / bb84_unbiased")
    k.close("Z basis orthonormal", "bb84", {}, z @ z.T, np.eye(2), theorem="bb84_orthonormal")
    k.close("X basis orthonormal", "bb84", {}, x @ x.T, np.eye(2), theorem="bb84_orthonormal")
    k.close("bases unbiased", "bb84", {}, (z @ x.T) ** 2, np.ones((2, 2)) / 2, theorem="bb84_unbiased")
    # ---- trine: components (p + q sqrt 3)/2
    tl = S.trine()
    tr = [np.asarray(v, dtype=float).reshape(-1) for v in tl]
    for i in range(3):
        k.case("trine", {"idx": i}, True)
        res = k.L.ask("c17_int", {"kind": "trine", "k": i})
        tgt = (np.array(res["p"], dtype=float) + np.array(res["q"], dtype=float) * SQ(3)) / res["den"]
        if len(tl) != 3 or np.asarray(tl[i]).shape != (2, 1):
            k.bad("expected three (2,1) vectors", "trine", {"idx": i}, theorem="trine_gram")
        elif not np.array_equal(tr[i] == 0, tgt == 0) or float(np.abs(tr[i] - tgt).max()) > TOL:
            k.bad("trine state differs from the model (p + q sqrt 3)/2", "trine", {"idx": i}, impl=tr[i], model=res, theorem="trine_gram / trine_sum_zero")
    G = np.array(tr) @ np.array(tr).T
    k.close("trine Gram matrix", "trine", {}, G, 1.5 * np.eye(3) - 0.5 * np.ones((3, 3)), theorem="trine_gram")
    k.close("trine states sum to zero", "trine", {}, sum(tr), np.zeros(2), theorem="trine_sum_zero")
    # ---- gisin(lambda, theta): rational lambda, Pythagorean (sin, cos)
    angles = [(Fraction(0), Fraction(1)), (Fraction(1), Fraction(0)), (Fraction(3, 5), Fraction(4, 5)), (Fraction(-5, 13), Fraction(12, 13)), (Fraction(15, 17), Fraction(-8, 17)),
              (Fraction(-7, 25), Fraction(-24, 25))]
    for lam in (Fraction(0), Fraction(1, 3), Fraction(1, 2), Fraction(9, 10), Fraction(1)):
        for (sn, cs) in angles:
            th = math.atan2(ffloat(sn), ffloat(cs))
            args = {"lambda": qj(lam), "sin": qj(sn), "cos": qj(cs)}
            g = S.gisin(ffloat(lam), th)
            k.case("gisin", args, 0 < lam, "gisin")
            k.cmp_rat("gisin", args, g, k.L.ask("c17_rat", {"kind": "gisin", "lam": qj(lam), "s": qj(sn), "c": qj(cs)}), "gisin_mixture")
            k.close("trace 1", "gisin", args, np.trace(g), 1.0, theorem="gisin_trace_one")
            k.close("symmetric", "gisin", args, g, g.T, theorem="gisin_mixture")
            if np.linalg.eigvalsh(g).min() < -TOL:
                k.bad("not PSD", "gisin", args, theorem="gisin_psd")
    for lam in (Fraction(-1, 10 ** 9), Fraction(-1, 2), 1 + Fraction(1, 10 ** 9), Fraction(2)):
        res = k.L.ask("c17_rat", {"kind": "gisin", "lam": qj(Fraction(ffloat(lam))), "s": [3, 5], "c": [4, 5]})
        k.expect_reject("gisin", {"lambda": qj(lam)}, S.gisin, (ffloat(lam), 0.3), res)
    # ---- breuer(d, lambda)
    for d in (2, 4) if k.quick else (2, 4, 6):
        ps = k.L.ask("c17_int", {"kind": "breuer_psi", "d": d})
        if ps["closed"] != ps["mirror"]:
            k.bad("closed-form and mirror model of the pure component disagree (model defect)", "breuer", {"dim": d}, theorem="breuerPsi_mirror_eq")
        for lam in (Fraction(0), Fraction(1, 3), Fraction(7, 10), Fraction(1)):
            args = {"dim": d, "lam": qj(lam)}
            b = S.breuer(d, ffloat(lam))
            k.case("breuer", args, True)
            k.cmp_rat("breuer", args, b, k.L.ask("c17_rat", {"kind": "breuer", "d": d, "lam": qj(Fraction(ffloat(lam)))}), "(model definition) breuer; breuerPsi_mirror_eq")
            k.close("trace 1", "breuer", args, np.trace(b), 1.0, theorem="breuer_trace_one")
            k.close("Hermitian", "breuer", args, b, b.conj().T, theorem="(model definition) breuer")
            if np.linalg.eigvalsh(b).min() < -TOL:
                k.bad("not PSD", "breuer", args, theorem="breuer_psd")
    for d in (3, 5, 0, -2):
        k.expect_reject("breuer", {"dim": d}, S.breuer, (d, 0.1), k.L.ask("c17_rat", {"kind": "breuer", "d": d, "lam": [1, 10]}))
    # ---- chessboard: Gaussian-rational parameters, default and explicit s, t
    crng = case_rng("c17/chessboard", k.ctx.seed, k.ctx.tier)   # a function of the seed alone, so a replay regenerates the same parameters

    def gq():
        while True:
            a, b = int(crng.integers(-8, 9)), int(crng.integers(-8, 9))
            if a and b:
                return (Fraction(a, 4), Fraction(b, 4))
    for it in range(4 if k.quick else 12):
        form = ("real-int", "complex-default", "complex-explicit-st", "complex-default")[it % 4]
        if form == "real-int":
            qs = [(Fraction(int(v)), Fraction(0)) for v in crng.integers(1, 7, size=6)]
            pyp = [int(q[0]) for q in qs]
        else:
            qs = [gq() for _ in range(6)]
            pyp = [complex(ffloat(a), ffloat(b)) for a, b in qs]
        req = {"kind": "chessboard", "params": [[qj(a), qj(b)] for a, b in qs], "s": None, "t": None}
        extra = ()
        if form == "complex-explicit-st":
            sq, tq = gq(), gq()
            req["s"], req["t"] = [[qj(sq[0]), qj(sq[1])]], [[qj(tq[0]), qj(tq[1])]]
            extra = (complex(ffloat(sq[0]), ffloat(sq[1])), complex(ffloat(tq[0]), ffloat(tq[1])))
        args = {"mat_params": req["params"], "s": req["s"], "t": req["t"], "form": form}
        res = k.L.ask("c17_qi", req)
        if "reject" in res:
            continue
        c = k.pure(S.chessboard, pyp, *extra)
        k.case("chessboard", args, True, f"chessboard/{form}")
        tgt = qi_array(res)
        if c.shape != (9, 9) or float(np.abs(c - tgt).max()) > TOL:
            k.bad(f"entries differ from the exact model by {float(np.abs(c - tgt).max()) if c.shape == (9, 9) else 'shape'}", "chessboard", args, impl=c, theorem="(model definition) chessboard; chessboard_trace_one")
        k.close("trace 1", "chessboard", args, np.trace(c), 1.0, theorem="chessboard_trace_one")
        k.close("Hermitian", "chessboard", args, c, c.conj().T, theorem="chessboard_hermitian")
        if np.linalg.eigvalsh((c + c.conj().T) / 2).min() < -TOL:
            k.bad("not PSD", "chessboard", args)
    # ---- brauer(d, p): exact 0/1 matrix, columns in the order of perfect_matchings(2p)
    for d, p in ((2, 1), (3, 1), (5, 1), (2, 2), (3, 2), (2, 3)) if k.quick else ((2, 1), (3, 1), (4, 1), (5, 1), (2, 2), (3, 2), (4, 2), (2, 3), (3, 3)):
        args = {"dim": d, "p_val": p}
        r = k.run_impl(S.brauer, d, p)
        k.case("brauer", args, True, f"brauer/p{p}")
        if r[0] != "ok":
            k.bad(f"raises {r[1]}", "brauer", args, theorem="brauer_column")
            continue
        b = r[1]
        res = k.L.ask("c17_int", {"kind": "brauer", "d": d, "p": p})
        cnt = math.factorial(2 * p) // (math.factorial(p) * 2 ** p)
        if list(b.shape) != res["shape"] or b.shape[1] != cnt:
            k.bad(f"shape {list(b.shape)} instead of {res['shape']}", "brauer", args, theorem="brauer_column")
            continue
        tgt = np.array(res["re"], dtype=float).reshape(res["shape"])
        if not np.array_equal(b, tgt):
            k.bad("Brauer states differ from the model (columns = permute_systems(phi, matching))", "brauer", args, impl=b, matchings=res["matchings"], theorem="brauer_column")
        k.close("column norms^2 = d^p", "brauer", args, (b * b).sum(axis=0), np.full(cnt, float(d ** p)), theorem="brauer_column_norm")
    # ---- pusey_barrett_rudolph(n, theta): cos(theta/2), sin(theta/2) Pythagorean
    for n in (1, 2, 3) if k.quick else (1, 2, 3, 4):
        for (sn, cs) in ((Fraction(3, 5), Fraction(4, 5)), (Fraction(5, 13), Fraction(12, 13)), (Fraction(0), Fraction(1)), (Fraction(20, 29), Fraction(21, 29))):
            th = 2 * math.atan2(ffloat(sn), ffloat(cs))
            args = {"n": n, "sin_half": qj(sn), "cos_half": qj(cs)}
            st = S.pusey_barrett_rudolph(n, th)
            k.case("pusey_barrett_rudolph", args, sn != 0)
            res = k.L.ask("c17_rat", {"kind": "pbr", "n": n, "s": qj(sn), "c": qj(cs)})
            if len(st) != 2 ** n:
                k.bad("expected 2^n states", "pusey_barrett_rudolph", args, theorem="pbr_gram")
                continue
            V = np.array([np.asarray(v).reshape(-1) for v in st])
            tgt = np.array([ffloat(Fraction(a, b)) for a, b in res["q"]]).reshape(res["shape"])
            gram = np.array([ffloat(Fraction(a, b)) for a, b in res["gram"]]).reshape(res["shape"])
            if V.shape != tgt.shape or float(np.abs(V - tgt).max()) > TOL:
                k.bad("PBR states differ from the model", "pusey_barrett_rudolph", args, impl=V, theorem="(model definition) pbrVec")
                continue
            k.close("Gram matrix cos(theta)^hamming", "pusey_barrett_rudolph", args, V @ V.T, gram, theorem="pbr_gram / pbr_gram_cos")
            want = np.array([[math.cos(th) ** sum(x != y for x, y in zip(s_, t_)) for t_ in itertools.product([0, 1], repeat=n)] for s_ in itertools.product([0, 1], repeat=n)])
            k.close("model Gram matrix is cos(theta)^hamming", "pusey_barrett_rudolph", args, gram, want, theorem="pbr_gram_cos")


# ------------------------------------------------------------------------------------------------

def strict_calls():
    """every constructor at boundary parameters (interval end points, zero coefficients, extreme indices): (name, function, args, kwargs)"""
    pi = math.pi
    c = []
    A = lambda n, f, *a, **k: c.append((n, f, a, k))
    for d in (2, 3, 4):
        for al in (0, 1, -1, 0.5, 1 / d, -1 / d):
            A("werner", _S.werner, d, al)
        for al in (0, 1, 1 / (d + 1), -1 / (d * d - 1)):
            A("isotropic", _S.isotropic, d, al)
        A("max_entangled", _S.max_entangled, d)
        A("max_entangled", _S.max_entangled, d, True)
        A("max_entangled", _S.max_entangled, d, False, False)
        A("max_mixed", _S.max_mixed, d)
        A("max_mixed", _S.max_mixed, d, True)
        A("mutually_unbiased_basis", _S.mutually_unbiased_basis, d)
        A("singlet", _S.singlet, d)
        A("basis", _S.basis, d, 0)
        A("basis", _S.basis, d, d - 1)
        for (a, b) in ((0, 0), (d - 1, d - 1), (0, d - 1), (d - 1, 0)):
            A("gen_bell", _S.gen_bell, a, b, d)
            A("gen_pauli", _M.gen_pauli, a, b, d)
            A("gen_gell_mann", _M.gen_gell_mann, a, b, d)
        A("gen_pauli_x", _M.gen_pauli_x, d)
        A("gen_pauli_z", _M.gen_pauli_z, d)
        A("fourier", _M.fourier, d)
        A("standard_basis", _M.standard_basis, d)
        A("standard_basis", _M.standard_basis, d, True)
        for kk in (0, 1, d):
            A("cyclic_permutation_matrix", _M.cyclic_permutation_matrix, d, kk)
    A("werner", _S.werner, 3, [0, 0, 0, 0, 0])
    A("werner", _S.werner, 3, [1, 0, 0, 0, 0])
    A("werner", _S.werner, 2, [0])
    for a in (0, 1, 0.5, 0.0, 1.0):
        A("horodecki", _S.horodecki, a)
        A("horodecki", _S.horodecki, a, [3, 3])
        A("horodecki", _S.horodecki, a, [2, 4])
    for lam in (0, 1, 0.5):
        for th in (0, pi / 2, pi, pi / 4):
            A("gisin", _S.gisin, lam, th)
    for (d, n, co) in ((2, 3, [0, 1]), (2, 3, [1, 0]), (3, 2, [0, 0, 1]), (2, 3, np.array([0.0, 1.0])), (3, 3, [0, 1, 0]), (2, 2, [0.0, 1.0]), (2, 4, [1, -1])):
        A("ghz", _S.ghz, d, n, co)
    for (d, n) in ((2, 2), (2, 5), (5, 2), (3, 3)):
        A("ghz", _S.ghz, d, n)
    for n, co in ((3, [0, 0, 1]), (3, [1, 0, 0]), (2, [0, 1]), (4, [0, 1, 0, 1]), (3, np.array([0.0, 0.0, 1.0])), (3, [0.0, 1.0, 0.0]), (2, [1, -1])):
        A("w_state", _S.w_state, n, co)
    for n in (2, 3, 5):
        A("w_state", _S.w_state, n)
    for n in (1, 2, 3, 5):
        for kk in (0, n, 1):
            A("dicke", _S.dicke, n, kk)
            A("dicke", _S.dicke, n, kk, True)
    for d in (2, 4):
        for lam in (0, 1, 0.5, -1):
            A("breuer", _S.breuer, d, lam)
    for (d, pv) in ((2, 1), (2, 2), (4, 1), (4, 2)):
        A("brauer", _S.brauer, d, pv)
    # not called (the unchanged code divides 0/0 there: NaN state resp. ZeroDivisionError in the default state, FloatingPointError under StrictFP): the all-zero coefficient
    # vector of ghz / w_state, chessboard with mat_params[5] = 0 and derived s / t, chessboard of the all-zero parameter vector with s = t = 0
    for mp in ([0, 0, 0, 0, 0, 0], [1, 2, 3, 4, 5, 6], [1, 0, 0, 0, 0, 0], [0, 0, 0, 0, 0, 1], [1, 1, 1, 1, 1, 1], [1, 2, 0, 4, 5, 6], [1, 2, 3, 0, 5, 6]):
        if mp[5] != 0:
            A("chessboard", _S.chessboard, mp)
        if any(mp):
            A("chessboard", _S.chessboard, mp, 0, 0)
        A("chessboard", _S.chessboard, mp, 7, 8)
    for n in (1, 2):
        for th in (0, pi / 2, pi / 4, pi):
            A("pusey_barrett_rudolph", _S.pusey_barrett_rudolph, n, th)
    for i in range(4):
        A("bell", _S.bell, i)
        A("pauli", _M.pauli, i)
        A("pauli", _M.pauli, i, True)
    for i in (0, 4):
        A("tile", _S.tile, i)
    for i in (0, 8):
        A("domino", _S.domino, i)
    for i in (0, 8):
        A("gell_mann", _M.gell_mann, i)
        A("gell_mann", _M.gell_mann, i, True)
    for n in (0, 1, 3):
        A("hadamard", _M.hadamard, n)
    A("pauli", _M.pauli, "I")
    A("pauli", _M.pauli, [0, 3])
    A("pauli", _M.pauli, [0, 0])
    A("trine", _S.trine)
    A("bb84", _S.bb84)
    A("cnot", _M.cnot)
    A("cyclic_permutation_matrix", _M.cyclic_permutation_matrix, 1, 1)
    A("fourier", _M.fourier, 1)
    return c


def check_strict_fp(k: K):
    """every boundary call once in the default floating-point error state and once with invalid / divide / overflow set to raise: identical outcome"""
    def canon(v):
        if isinstance(v, (list, tuple)):
            return [canon(x) for x in v]
        return dense(v) if hasattr(v, "shape") else v

    def same(a, b):
        if isinstance(a, list) or isinstance(b, list):
            return isinstance(a, list) and isinstance(b, list) and len(a) == len(b) and all(same(x, y) for x, y in zip(a, b))
        a, b = np.asarray(a), np.asarray(b)
        return a.shape == b.shape and a.dtype == b.dtype and np.array_equal(a, b, equal_nan=True)

    def cp(x):
        return x.copy() if isinstance(x, np.ndarray) else list(x) if isinstance(x, list) else x

    for name, f, a, kw in strict_calls():
        args = repr((a, kw))[:200]
        with warnings.catch_warnings():
            warnings.simplefilter("ignore")
            try:
                d0 = ("ok", canon(f(*[cp(x) for x in a], **kw)))
            except Exception as e:  # the outcome of the default state
                d0 = ("raise", type(e).__name__)
        st, v = strict_fp_call(f, *[cp(x) for x in a], **kw)
        d1 = ("ok", canon(v)) if st == "ok" else ("raise", v.split(":")[0])
        k.case(name + "/strict-fp", args, True, f"strict-fp/{name}")
        if d0[0] != d1[0] or (d0[0] == "raise" and d0[1] != d1[1]) or (d0[0] == "ok" and not same(d0[1], d1[1])):
            what = ("value depends on NumPy's floating-point error state: the default state returns a value, invalid/divide/overflow='raise' gives " + str(v)[:160]
                    if (st == "raise" and d0[0] == "ok") else f"outcome under StrictFP differs from the default state ({d0[0]} vs {st})")
            k.bad(what, name, args, kind="strict-fp", theorem="(a constructor is a function of its arguments)")


SECTIONS = [check_clock_shift_fourier, check_gen_pauli, check_pauli, check_gell_mann, check_gen_gell_mann, check_hadamard, check_cnot_cyclic_basis,
            check_basis_bell_maxent, check_ghz, check_w, check_dicke, check_tile_domino, check_gen_bell, check_werner, check_isotropic,
            check_horodecki, check_mub, check_misc, check_strict_fp]


def run(ctx, model_ok=True):
    k = K(ctx)
    reported = set()

    def shared(fn, args):
        ctx.count("fresh-object-violations")
        if fn not in reported:
            reported.add(fn)
            ctx.violation(f"{fn}: a second identical call returns different values after the first result was modified in place "
                          "(the returned array is shared / cached between calls)", {"function": fn, "args": args, "kind": "shared-result"})

    _FreshProxy.hook = shared
    try:
        for sec in SECTIONS:
            sec(k)
    finally:
        _FreshProxy.hook = None
    ctx.extra["exhaustive_small_space"] = ("all index pairs of gen_pauli / gen_gell_mann / gen_bell for d = 2..5, all Pauli strings of length <= "
                                           + ("2" if k.quick else "3") + ", all (n, k) of dicke for n <= 5, all (d, n) of ghz for d, n <= 5, hadamard n = 0..5")


def replay(ctx, rec):
    """re-run the section that owns the recorded function (cases are deterministic enumerations)"""
    k = K(ctx)
    fn = rec.get("function", "")
    owner = {
        "gen_pauli_x": check_clock_shift_fourier, "gen_pauli_z": check_clock_shift_fourier, "fourier": check_clock_shift_fourier,
        "gen_pauli_x/gen_pauli_z": check_clock_shift_fourier, "gen_pauli": check_gen_pauli, "pauli": check_pauli, "gell_mann": check_gell_mann,
        "gen_gell_mann": check_gen_gell_mann, "hadamard": check_hadamard, "cnot": check_cnot_cyclic_basis,
        "cyclic_permutation_matrix": check_cnot_cyclic_basis, "standard_basis": check_cnot_cyclic_basis, "basis": check_basis_bell_maxent,
        "bell": check_basis_bell_maxent, "max_entangled": check_basis_bell_maxent, "ghz": check_ghz, "w_state": check_w, "dicke": check_dicke,
        "tile": check_tile_domino, "domino": check_tile_domino, "gen_bell": check_gen_bell, "werner": check_werner, "singlet": check_werner,
        "isotropic": check_isotropic, "max_mixed": check_isotropic, "horodecki": check_horodecki, "mutually_unbiased_basis": check_mub,
        "bb84": check_misc, "trine": check_misc, "gisin": check_misc, "breuer": check_misc, "chessboard": check_misc, "brauer": check_misc,
        "pusey_barrett_rudolph": check_misc,
    }.get(fn)
    if rec.get("kind") == "strict-fp":
        owner = check_strict_fp
    for sec in ([owner] if owner else SECTIONS):
        sec(k)
