"""C04: one linear map, many representations.

apply_channel (all Kraus list forms, Choi form), kraus_to_choi, partial_channel (Kraus and Choi branches),
natural_representation and channel_dim are compared for exact equality with the Lean mirror models on
Gaussian-integer inputs, and in addition with the property's own oracle computed independently here in exact
integer arithmetic (Phi(X) = sum_i A_i X B_i^dagger, J = sum_ij E_ij (x) Phi(E_ij)).  choi_to_kraus returns
floats: they are read as exact rationals and the defining relation sum_i vec(A_i) vec(B_i)^dagger = J is
evaluated exactly; only the residual is compared with a tolerance.
"""
from __future__ import annotations

import itertools
from fractions import Fraction

import numpy as np

from toqito.channel_ops import apply_channel, choi_to_kraus, kraus_to_choi, natural_representation, partial_channel
from toqito.helper import channel_dim

from ..exact import NotExact, Pure, call, case_rng, describe, present_nd, present_obj, split_int

RULE = ("maps are random Kraus families (A_i, B_i) with Gaussian-integer entries (|re|,|im| < 2^6; real and complex; CP with B_i = A_i and "
        "non-CP) of every rank 1..5 and every input/output row and column dimension 1..4 (quick: sampled; thorough: full grid), given in every "
        "list form the isinstance cascade accepts (flat, column [[K]..], row [[K1..Kr]], pairs, wider nestings) and as Choi matrix; inputs X are "
        "random Gaussian-integer matrices (non-symmetric, complex); float arithmetic on such data is exact, so equality is demanded. "
        "partial_channel: 2-3 subsystems with dims <= 3, every target position, square and rectangular dim arrays, Kraus and Choi form; dim omitted on square operators (all forms) "
        "and on non-square operators whose row and column counts are perfect squares (4x9, 9x4, 4x16, 16x4, 9x16, 16x9; pairs and Choi form, sys 1 and 2, sys omitted). "
        "choi_to_kraus: Choi matrices Hermitian-PSD / Hermitian-indefinite / non-Hermitian, square and rectangular in/out dims, exact residual of the "
        "defining relation <= 1e-8*max(1,|J|max) and #Kraus <= exact rank; in addition the factors that np.linalg.eigh / np.linalg.svd return inside the call are recorded "
        "(in-process wrapper) and handed as exact rationals, together with the table of the doubles np.sqrt(.) of the eigen/singular values, to the Lean mirror model of the "
        "post-processing (dim decoding, Hermitian / PSD / general branch, tolerance filter, column-major unvec, conjugation, signs, flat-vs-pairs form): the returned list must have "
        "the model's form and length, every operator within 1e-12*max(1,|entry|max) of the model's (one rounding of sqrt*entry); a value mismatch while the defining relation holds "
        "is reported as broken correspondence, not as a failing input; chains Kraus->Choi->Kraus->Choi. kraus_to_choi is called with sys=2 and sys=1 (sum_ij Phi(E_ij) (x) E_ij). "
        "A case is non-trivial when input and output "
        "spaces both have more than one entry and the rank/data are generic; distinct = hash of (function, form, dims, rank, kind, dtype). "
        "Not generated (outside the quantifier, degenerate; observed to misbehave and reported): Choi matrices that are row or column vectors (maps "
        "between spaces of kets: swap/permute_systems takes its vector branch), Hermitian Choi matrices declared on a non-square operator space in "
        "choi_to_kraus (dim=[[r,x],[c,y]] with r != c), flat/column/row (CP) lists together with a rectangular 2xn dim in partial_channel; also the zero "
        "map and empty lists. Presentation: every ndarray handed to toqito (each Kraus operator of a list independently, X, rho, Choi matrices, dim arrays) is a "
        "seeded re-presentation of the drawn values (C / Fortran / strided / permuted-stride layout; complex128 with zero imaginary part also as float64 or int64, "
        "float64 integers also as int64; dim arrays keep their integer dtype), so mixed dtypes and layouts occur inside one list; the values and hence all oracles are "
        "unchanged; after every call the arguments (arrays, list objects, their elements) are compared with a deep snapshot. "
        "Repeated members: CP families (flat / column / row form, rank 2..4) in which one operator is listed twice, as the SAME ndarray object (identity kept through the "
        "presentation) or as an equal copy, through apply_channel / kraus_to_choi (sys 2 and 1) / Choi form / partial_channel / the chain, against the Lean model of the listed family. "
        "Strict floating-point stream (c04_w5.py): choi_to_kraus (rank-deficient and full-rank PSD, Hermitian indefinite, general, low rank), kraus_to_choi, apply_channel, partial_channel, "
        "natural_representation are evaluated in NumPy's default error state and with invalid / divide / overflow set to 'raise' on the same integer data: the same outcome is demanded.")
ASSUMPTIONS = [
    "two different polynomial maps of degree <= 3 agree on a random point of a box of side 2^6 per coordinate with probability <= 3/2^6 per case (Schwartz-Zippel); many independent cases per configuration class, and the thorough tier determines maps on the full E_ij basis",
    "choi_to_kraus is judged by the exact residual of its defining relation with tolerance 1e-8*scale (LAPACK eigh/svd)",
    "the LAPACK factors and the correctly rounded doubles np.sqrt(x) are inputs of the choi_to_kraus model (not modelled); on Gaussian-integer Choi matrices is_hermitian's np.allclose decides exact Hermiticity (entries differ by >= 1 or not at all)",
]

BITS = 6


# ------------------------------------------------------------------------------------------------ exact helpers

def assert_exact(degree, bits, terms):
    """float64 arithmetic on Gaussian integers is exact when degree*bits + log2(#terms) + 2 (complex products) <= 52"""
    import math
    need = degree * (bits + 1) + math.ceil(math.log2(max(terms, 1))) + 2
    if need > 52:
        raise AssertionError(f"exactness bound violated: {need} bits needed")


def gint(rng, shape, cplx=True, bits=BITS):
    lim = 1 << bits
    re = rng.integers(-lim + 1, lim, size=shape)
    if cplx:
        return (re + 1j * rng.integers(-lim + 1, lim, size=shape)).astype(np.complex128)
    return re.astype(np.float64)


def to_obj(a):
    """integer-valued complex array -> pair of Python-int object arrays (re, im)"""
    a = np.asarray(a)
    re = np.vectorize(lambda z: int(round(z.real)), otypes=[object])(a) if a.size else np.zeros(a.shape, dtype=object)
    im = np.vectorize(lambda z: int(round(z.imag)), otypes=[object])(a) if a.size else np.zeros(a.shape, dtype=object)
    return re, im


class Z:
    """exact complex matrices with Python-int / Fraction entries (object arrays)"""

    def __init__(self, re, im):
        self.re, self.im = re, im

    @staticmethod
    def of(a):
        return Z(*to_obj(a))

    @staticmethod
    def of_float(a):
        a = np.asarray(a, dtype=complex)
        f = np.vectorize(lambda x: Fraction(float(x)), otypes=[object])
        if a.size == 0:
            return Z(np.zeros(a.shape, dtype=object), np.zeros(a.shape, dtype=object))
        return Z(f(a.real), f(a.imag))

    @staticmethod
    def zeros(shape):
        z = np.zeros(shape, dtype=object)
        z[...] = 0
        return Z(z, z.copy())

    @property
    def shape(self):
        return self.re.shape

    def __matmul__(self, o):
        return Z(self.re.dot(o.re) - self.im.dot(o.im), self.re.dot(o.im) + self.im.dot(o.re))

    def __add__(self, o):
        return Z(self.re + o.re, self.im + o.im)

    def __sub__(self, o):
        return Z(self.re - o.re, self.im - o.im)

    def ct(self):
        return Z(self.re.T.copy(), -self.im.T)

    def eq(self, o):
        return self.shape == o.shape and bool(np.all(self.re == o.re)) and bool(np.all(self.im == o.im))

    def maxabs(self):
        """max(|re|, |im|) over entries"""
        if self.re.size == 0:
            return 0
        return max(max(abs(x) for x in self.re.reshape(-1)), max(abs(x) for x in self.im.reshape(-1)))

    def vecF(self):
        return Z(self.re.reshape(-1, 1, order="F"), self.im.reshape(-1, 1, order="F"))

    def vecR(self):
        return Z(self.re.reshape(-1, 1), self.im.reshape(-1, 1))


def spec_apply(As, Bs, X):
    """sum_i A_i X B_i^dagger in exact arithmetic"""
    out = None
    for A, B in zip(As, Bs):
        t = A @ X @ B.ct()
        out = t if out is None else out + t
    return out


def spec_choi(As, Bs):
    """sum_ij E_ij (x) Phi(E_ij) = sum_k vec_c(A_k) vec_c(B_k)^dagger with rows indexed (i, a) -> i*dout + a"""
    out = None
    for A, B in zip(As, Bs):
        t = A.vecF() @ B.vecF().ct()
        out = t if out is None else out + t
    return out


def spec_choi_sys1(As, Bs):
    """sum_ij Phi(E_ij) (x) E_ij = sum_k vec_r(A_k) vec_r(B_k)^dagger with rows indexed (a, i) -> a*din + i  (kraus_to_choi(., sys=1))"""
    out = None
    for A, B in zip(As, Bs):
        t = A.vecR() @ B.vecR().ct()
        out = t if out is None else out + t
    return out


def exact_rank(M: Z):
    """rank over Q[i] by Gaussian elimination with exact Fractions"""
    R, C = M.shape
    a = [[(Fraction(M.re[i, j]), Fraction(M.im[i, j])) for j in range(C)] for i in range(R)]

    def mul(x, y):
        return (x[0] * y[0] - x[1] * y[1], x[0] * y[1] + x[1] * y[0])

    def inv(x):
        n = x[0] * x[0] + x[1] * x[1]
        return (x[0] / n, -x[1] / n)

    rk, row = 0, 0
    for col in range(C):
        piv = next((i for i in range(row, R) if a[i][col] != (0, 0)), None)
        if piv is None:
            continue
        a[row], a[piv] = a[piv], a[row]
        pi = inv(a[row][col])
        for i in range(row + 1, R):
            if a[i][col] != (0, 0):
                f = mul(a[i][col], pi)
                for j in range(col, C):
                    m = mul(f, a[row][j])
                    a[i][j] = (a[i][j][0] - m[0], a[i][j][1] - m[1])
        row += 1
        rk += 1
        if row == R:
            break
    return rk


# ------------------------------------------------------------------------------------------------ JSON forms

def jmat(a):
    a = np.asarray(a)
    if a.ndim != 2:
        raise ValueError("2-d expected")
    shape, re, im = split_int(a)
    return {"r": shape[0], "c": shape[1], "re": re, "im": im}


def safe_jmat(a):
    try:
        return jmat(a)
    except Exception:
        return str(a)[:400]


def jkraus(form):
    if isinstance(form[0], np.ndarray):
        return {"tag": "flat", "ops": [jmat(k) for k in form]}
    return {"tag": "nested", "ops": [[jmat(k) for k in row] for row in form]}


def mat_eq(impl, model):
    """impl: ndarray (integer-valued); model: json mat"""
    a = np.asarray(impl)
    if a.ndim != 2:
        return False
    shape, re, im = split_int(a)
    return shape == [model["r"], model["c"]] and re == model["re"] and im == model["im"]


def z_eq_arr(z: Z, impl):
    a = np.asarray(impl)
    if a.shape != z.shape:
        return False
    shape, re, im = split_int(a)
    return re == [int(x) for x in z.re.reshape(-1)] and im == [int(x) for x in z.im.reshape(-1)]


def build_forms(As, Bs, cp):
    """every list form that denotes the family; value: (python object, (left ops, right ops) it denotes)"""
    r = len(As)
    forms = {}
    if cp:
        forms["flat"] = (list(As), (As, As))
        forms["column"] = ([[k] for k in As], (As, As))
        if r > 2 or r == 1:
            forms["row"] = ([list(As)], (As, As))
        else:
            # [[K1, K2]] is read as ONE pair (A, B) = (K1, K2) by the cascade (documented: the row form needs r > 2)
            forms["row2-as-pair"] = ([list(As)], ([As[0]], [As[1]]))
    forms["pairs"] = ([[a, b] for a, b in zip(As, Bs)], (As, Bs))
    return forms


def mix_real(prng, lists, cplx):
    """a complex family sometimes contains a real-valued operator (most often the first one): its imaginary part is dropped, so that
    `present_obj` can hand it over as float64 / int64 next to complex128 operators (mixed dtypes inside one list).  Decided by the
    presentation stream, so the data stream of the case is not shifted."""
    for ops in lists:
        if cplx and len(ops) > 1 and prng.integers(3) == 0:
            k = 0 if prng.integers(2) else int(prng.integers(len(ops)))
            ops[k] = ops[k].real + 0j


def present_shared(prng, obj, _memo=None):
    """`present_obj` that keeps OBJECT identity: an ndarray object listed more than once in the nested list is presented once and
    the same presented object is listed in every place (a family like [K, L, K] with `K is K`)"""
    memo = {} if _memo is None else _memo
    if isinstance(obj, np.ndarray):
        if id(obj) not in memo:
            memo[id(obj)] = (obj, present_nd(prng, obj))      # the original is kept alive: its id cannot be reused
        return memo[id(obj)][1]
    if isinstance(obj, (list, tuple)):
        return type(obj)(present_shared(prng, e, memo) for e in obj)
    return obj


def repeat_member(prng, ops, repeat):
    """in place: ops[j] = ops[i] for two random places i < j -- the SAME ndarray object ("same") or an equal copy ("copy", the control).
    The family then lists an operator twice: Phi(X) = 2 K X K^dagger + ... (the Lean model sees the listed family)."""
    if not repeat or len(ops) < 2:
        return None
    i, j = sorted(int(x) for x in prng.choice(len(ops), size=2, replace=False))
    ops[j] = ops[i] if repeat == "same" else ops[i].copy()
    return [i, j]


def impure(ctx, guard, fn, info):
    """purity assertion: the guard was taken before the call on exactly the objects handed to toqito"""
    why = guard.modified()
    if why:
        ctx.violation(f"{fn}: caller's arguments were modified", dict(info, modified=why))
        return True
    return False


# ------------------------------------------------------------------------------------------------ choi_to_kraus: LAPACK factors -> Lean model

class LapackTap:
    """records what np.linalg.eigh / np.linalg.svd return while toqito runs (in-process wrapper, restored on exit; no source hook).
    The factors are the inputs of the Lean model `choiToKraus` (Toq/Model/ChannelOpsExtra.lean), which mirrors everything else."""

    def __enter__(self):
        self.calls = []
        self._eigh, self._svd = np.linalg.eigh, np.linalg.svd
        tap = self

        def eigh(a, *args, **kw):
            out = tap._eigh(a, *args, **kw)
            try:
                tap.calls.append(("eigh", np.array(out[0], copy=True), np.array(out[1], copy=True)))
            except Exception:
                pass
            return out

        def svd(a, *args, **kw):
            out = tap._svd(a, *args, **kw)
            try:
                if not isinstance(out, np.ndarray) and len(out) == 3:
                    tap.calls.append(("svd", np.array(out[0], copy=True), np.array(out[1], copy=True), np.array(out[2], copy=True)))
            except Exception:
                pass
            return out

        np.linalg.eigh, np.linalg.svd = eigh, svd
        return self

    def __exit__(self, *exc):
        np.linalg.eigh, np.linalg.svd = self._eigh, self._svd
        return False


def qj(x):
    """double -> exact rational in the driver's JSON form (integer or [num, den])"""
    f = Fraction(float(x))
    return int(f) if f.denominator == 1 else [f.numerator, f.denominator]


def jmatq(a):
    a = np.asarray(a)
    if a.ndim != 2:
        raise ValueError("2-d expected")
    z = a.astype(np.complex128)
    return {"r": a.shape[0], "c": a.shape[1], "re": [qj(v) for v in z.real.reshape(-1)], "im": [qj(v) for v in z.imag.reshape(-1)]}


def qfrac(v):
    return Fraction(v[0], v[1]) if isinstance(v, list) else Fraction(v)


def op_close(impl_op, m, rel=Fraction(1, 10**12)):
    """implementation's float operator against the model's exact rational one: max |difference| <= rel * max(1, |model|max) (one rounding of
    `np.sqrt(.) * entry` per entry is all that separates them)"""
    a = np.asarray(impl_op)
    if a.ndim != 2 or list(a.shape) != [m["r"], m["c"]]:
        return False
    z = a.astype(np.complex128).reshape(-1)
    scale = Fraction(1)
    worst = Fraction(0)
    for k in range(z.size):
        mr, mi = qfrac(m["re"][k]), qfrac(m["im"][k])
        scale = max(scale, abs(mr), abs(mi))
        if not (np.isfinite(z[k].real) and np.isfinite(z[k].imag)):
            return False
        worst = max(worst, abs(Fraction(float(z[k].real)) - mr), abs(Fraction(float(z[k].imag)) - mi))
    return worst <= rel * scale


def c2k_model_compare(ctx, info, J, dim_js, tap_calls, kraus, tol=1e-9, atol=1e-8):
    """tie of the post-processing of choi_to_kraus to the Lean mirror model: same LAPACK factors in, same list out.
    Returns (verdict, detail): verdict in {"agree", "form", "values", "model-reject", "uncaptured"}"""
    herm_exact = J.shape[0] == J.shape[1] and bool(np.all(J == J.conj().T))
    eig = next((c for c in tap_calls if c[0] == "eigh"), None)
    svd = next((c for c in tap_calls if c[0] == "svd"), None)
    captured = True
    if herm_exact and eig is None:
        captured = False
        w, v = np.linalg.eigh(J)
        eig = ("eigh", w, v)
    if not herm_exact and svd is None:
        captured = False
        u, sv, vh = np.linalg.svd(J, full_matrices=False)
        svd = ("svd", u, sv, vh)
    args = {"J": jmatq(J), "tol": qj(tol), "atol": qj(atol), "dim": dim_js, "eigh": None, "svd": None, "sqrt": []}
    if herm_exact:
        args["eigh"] = {"evals": [qj(x) for x in eig[1]], "V": jmatq(eig[2])}
        args["sqrt"] = [[qj(abs(x)), qj(np.sqrt(abs(x)))] for x in eig[1]]
    else:
        args["svd"] = {"U": jmatq(svd[1]), "S": [qj(x) for x in svd[2]], "Vh": jmatq(svd[3])}
        args["sqrt"] = [[qj(x), qj(np.sqrt(x))] for x in svd[2] if x >= 0]
    model = ctx.lean().ask("c04_choi_to_kraus", args)
    if "reject" in model:
        return "model-reject", model["reject"]
    out = model["out"]
    branch = ("psd" if model["psd"] else "herm") if model["hermitian"] else "svd"
    ctx.count("choi_to_kraus-model/branch=" + branch + ("" if captured else "/factors-recomputed"))
    flat_impl = not (len(kraus) and isinstance(kraus[0], list))
    if flat_impl != (out["tag"] == "flat"):
        return "form", f"implementation returns {'a flat list' if flat_impl else 'pairs'}, model ({branch} branch) {'a flat list' if out['tag'] == 'flat' else 'pairs'}"
    if len(kraus) != len(out["ops"]):
        return "values", f"{len(kraus)} operators returned, model ({branch} branch) keeps {len(out['ops'])}"
    for k, (got, want) in enumerate(zip(kraus, out["ops"])):
        if flat_impl:
            good = op_close(got, want)
        else:
            good = len(got) == 2 and len(want) == 2 and op_close(got[0], want[0]) and op_close(got[1], want[1])
        if not good:
            return ("values" if captured else "uncaptured"), f"operator {k} differs from the model's ({branch} branch)"
    return "agree", branch


# ------------------------------------------------------------------------------------------------ checks

def _scale_obj(obj, sc):
    """the same representation with every operator multiplied by sc"""
    if isinstance(obj, (list, tuple)):
        return type(obj)(_scale_obj(o, sc) for o in obj)
    return np.asarray(obj) * sc


def check_apply(ctx, din, dout, r, cp, cplx, extra_form=None, basis=None, seed=None, repeat=None):
    """one map in every representation, one input"""
    seed = int(ctx.rng.integers(1 << 62)) if seed is None else int(seed)
    rng = np.random.default_rng(seed)
    (di0, di1), (do0, do1) = din, dout
    As = [gint(rng, (do0, di0), cplx) for _ in range(r)]
    Bs = As if cp else [gint(rng, (do1, di1), cplx) for _ in range(r)]
    if basis is None:
        X = gint(rng, (di0, di1), True)
    else:
        X = np.zeros((di0, di1), dtype=np.complex128)
        X[basis] = 1
    assert_exact(3, BITS, r * di0 * di1)
    prng = case_rng("c04/apply", seed)      # presentation stream: a function of the case seed only
    mix_real(prng, [As] if cp else [As, Bs], cplx)
    rep_at = repeat_member(prng, As, repeat) if cp else None       # CP list forms: one operator listed twice (same object / equal copy)
    P = (lambda o: present_shared(prng, o)) if (repeat == "same" and rep_at) else (lambda o: present_obj(prng, o))
    forms = build_forms(As, Bs, cp)
    if extra_form == "triples":
        Cs = [gint(rng, (do1, di1), cplx) for _ in range(r)]
        if r >= 2:
            # [[A1,B1,C1],[A2,B2,C2],..]: the cascade takes elements 0 and 1 of every inner list
            forms["triples"] = ([[a, b, c] for a, b, c in zip(As, Bs, Cs)], (As, Bs))
    ok = True
    base = {"din": list(din), "dout": list(dout), "rank": r, "cp": cp, "complex": cplx}
    if rep_at:
        base.update(repeat=repeat, repeated_places=rep_at)
    nontriv = di0 * di1 > 1 and do0 * do1 > 1 and basis is None
    zX = Z.of(X)
    J_ref = None
    for name, (obj, (LA, LB)) in forms.items():
        desc = dict(base, fn="apply_channel", form=name)
        ctx.case(desc, nontriv, f"apply/{name}/{'cp' if cp else 'noncp'}/{'square' if di0 == di1 and do0 == do1 else 'rect'}")
        jX, jphi = jmat(X), jkraus(obj)          # exact forms taken from the drawn values; toqito only sees re-presentations of them
        pX, pobj = present_nd(prng, X), P(obj)
        guard = Pure(pX, pobj)
        impl = call(apply_channel, pX, pobj)
        model = ctx.lean().ask("c04_apply_kraus", {"X": jX, "phi": jphi})
        oracle = spec_apply([Z.of(a) for a in LA], [Z.of(b) for b in LB], zX)
        info = {"case_seed": seed, "function": "apply_channel", "args": desc, "X": jX, "phi": jphi, "theorem": "applyKraus_eq_spec",
                "presentation": {"X": describe(pX), "phi": describe(pobj)}}
        if impure(ctx, guard, f"apply_channel[{name}]", info):
            ok = False
        if "reject" in model:
            ok = False
            ctx.violation(f"apply_channel[{name}]: model rejects a well-formed call ({model['reject']})", dict(info, impl=str(impl)[:300]))
            continue
        if impl[0] != "ok":
            ok = False
            ctx.violation(f"apply_channel[{name}]: implementation {impl[0]} ({impl[1]}) on a valid call", info)
            continue
        try:
            good_model = mat_eq(impl[1], model)
            good_spec = z_eq_arr(oracle, impl[1])
        except NotExact as e:
            ok = False
            ctx.violation(f"apply_channel[{name}]: non-integer output on integer data ({e})", info)
            continue
        if not (good_model and good_spec):
            ok = False
            ctx.violation(f"apply_channel[{name}]: output differs from sum_i A_i X B_i^dagger (model agree={good_model}, oracle agree={good_spec})",
                          dict(info, impl=safe_jmat(impl[1]), model=model))
        # linear in the input operator, at any norm: X * 2^-40 must give Phi(X) * 2^-40 exactly (applyKraus_eq_spec)
        if seed % 3 == 1:
            outs = call(apply_channel, np.asarray(X) * 2.0 ** -40, pobj)
            ctx.count("apply/scaled-input/2^-40")
            if outs[0] != "ok" or not np.array_equal(np.asarray(outs[1]), np.asarray(impl[1]) * 2.0 ** -40):
                ok = False
                ctx.violation(f"apply_channel[{name}]: the input scaled by 2^-40 does not give the output scaled by 2^-40", dict(info, scale_exp=-40))
        # ---- Kraus -> Choi
        if name == "triples":
            continue  # channel_dim documents only the four forms
        desc2 = dict(base, fn="kraus_to_choi", form=name)
        ctx.case(desc2, nontriv, f"kraus_to_choi/{name}")
        pobj2 = P(obj)
        guard = Pure(pobj2)
        implJ = call(kraus_to_choi, pobj2)
        modelJ = ctx.lean().ask("c04_kraus_to_choi", {"phi": jphi, "sys": 2})
        oracleJ = spec_choi([Z.of(a) for a in LA], [Z.of(b) for b in LB])
        info2 = {"case_seed": seed, "function": "kraus_to_choi", "args": desc2, "phi": jphi, "theorem": "krausToChoi_eq_spec",
                 "presentation": {"phi": describe(pobj2)}}
        if impure(ctx, guard, f"kraus_to_choi[{name}]", info2):
            ok = False
        if "reject" in modelJ or implJ[0] != "ok":
            ok = False
            ctx.violation(f"kraus_to_choi[{name}]: {'model rejects' if 'reject' in modelJ else 'implementation ' + implJ[0]} on a valid call",
                          dict(info2, impl=str(implJ)[:300], model=str(modelJ)[:200]))
            continue
        try:
            gm, gs = mat_eq(implJ[1], modelJ), z_eq_arr(oracleJ, implJ[1])
        except NotExact as e:
            gm = gs = False
        if not (gm and gs):
            ok = False
            ctx.violation(f"kraus_to_choi[{name}]: Choi matrix differs from sum_ij E_ij (x) Phi(E_ij) (model agree={gm}, oracle agree={gs})",
                          dict(info2, impl=safe_jmat(implJ[1]), model=modelJ))
            continue
        # ---- homogeneity on maps of very small / large norm: Kraus operators scaled by a power of two (exact in floating point) give the
        # Choi matrix scaled by its square, entry for entry (krausToChoi_eq_spec: every entry is a sum of products A[.,.] * conj(B[.,.]))
        if seed % 3 == 0:
            for kexp in (-24, -30, 20):
                sc = 2.0 ** kexp
                pobj3 = present_obj(prng, _scale_obj(obj, sc))
                implS = call(kraus_to_choi, pobj3)
                ctx.case(dict(desc2, scale_exp=kexp), nontriv, f"kraus_to_choi/scaled/2^{kexp}")
                if implS[0] != "ok" or not np.array_equal(np.asarray(implS[1]), np.asarray(implJ[1]) * (sc * sc)):
                    ok = False
                    ctx.violation(f"kraus_to_choi[{name}]: Kraus operators scaled by 2^{kexp} do not give the Choi matrix scaled by 2^{2 * kexp}",
                                  dict(info2, scale_exp=kexp, impl=str(implS)[:300], theorem="krausToChoi_eq_spec (bilinear in the operators)"))
        J = implJ[1]
        if LA is As and (LB is Bs or LB is As):
            J_ref = J
        # ---- Kraus -> Choi with sys=1 (map applied to the first half: sum_ij Phi(E_ij) (x) E_ij)
        desc2b = dict(base, fn="kraus_to_choi", form=name, sys=1)
        ctx.case(desc2b, nontriv, f"kraus_to_choi/sys=1/{name}")
        pobj3 = P(obj)
        guard = Pure(pobj3)
        implJ1 = call(kraus_to_choi, pobj3, 1)
        modelJ1 = ctx.lean().ask("c04_kraus_to_choi", {"phi": jphi, "sys": 1})
        oracleJ1 = spec_choi_sys1([Z.of(a) for a in LA], [Z.of(b) for b in LB])
        info2b = {"case_seed": seed, "function": "kraus_to_choi", "args": desc2b, "phi": jphi, "sys": 1, "theorem": "krausToChoi_sys1_eq_spec",
                  "presentation": {"phi": describe(pobj3)}}
        if impure(ctx, guard, f"kraus_to_choi[{name}, sys=1]", info2b):
            ok = False
        if "reject" in modelJ1 or implJ1[0] != "ok":
            ok = False
            ctx.violation(f"kraus_to_choi[{name}, sys=1]: {'model rejects' if 'reject' in modelJ1 else 'implementation ' + implJ1[0]} on a valid call",
                          dict(info2b, impl=str(implJ1)[:300], model=str(modelJ1)[:200]))
        else:
            try:
                gm1, gs1 = mat_eq(implJ1[1], modelJ1), z_eq_arr(oracleJ1, implJ1[1])
            except NotExact:
                gm1 = gs1 = False
            if not (gm1 and gs1):
                ok = False
                ctx.violation(f"kraus_to_choi[{name}, sys=1]: Choi matrix differs from sum_ij Phi(E_ij) (x) E_ij (model agree={gm1}, oracle agree={gs1})",
                              dict(info2b, impl=safe_jmat(implJ1[1]), model=modelJ1))
        # ---- Choi form of the same map on the same input
        if min(J.shape) < 2:
            ctx.count("skipped/vector-shaped-choi")
            continue
        desc3 = dict(base, fn="apply_channel", form="choi-of-" + name)
        ctx.case(desc3, nontriv, "apply/choi/" + ("square" if di0 == di1 and do0 == do1 else "rect"))
        jJ = jmat(J)
        Xl, pJ = present_nd(prng, X), present_nd(prng, J)
        guard = Pure(Xl, pJ)
        implC = call(apply_channel, Xl, pJ)
        modelC = ctx.lean().ask("c04_apply_choi", {"X": jX, "J": jJ})
        info3 = {"case_seed": seed, "function": "apply_channel", "args": desc3, "X": jX, "J": jJ, "theorem": "apply_repr_independent",
                 "presentation": {"X": describe(Xl), "J": describe(pJ)}}
        if impure(ctx, guard, "apply_channel[choi]", info3):
            ok = False
        if "reject" in modelC or implC[0] != "ok":
            ok = False
            ctx.violation(f"apply_channel[choi]: {'model rejects' if 'reject' in modelC else 'implementation ' + implC[0] + ' ' + str(implC[1])} on a valid call", info3)
            continue
        try:
            gm, gs = mat_eq(implC[1], modelC), z_eq_arr(oracle, implC[1])
        except NotExact:
            gm = gs = False
        if not (gm and gs):
            ok = False
            ctx.violation(f"apply_channel: Choi form and Kraus form of the same map act differently (model agree={gm}, oracle agree={gs})",
                          dict(info3, impl=safe_jmat(implC[1]), model=modelC))
    return ok


def frob_resid(J: Z, kraus, scale_note=""):
    """exact max-norm of sum_i vec(A_i) vec(B_i)^dagger - J for float Kraus output"""
    if len(kraus) and isinstance(kraus[0], list):
        As = [Z.of_float(k[0]) for k in kraus]
        Bs = [Z.of_float(k[1]) for k in kraus]
    else:
        As = [Z.of_float(k) for k in kraus]
        Bs = As
    S = spec_choi(As, Bs) if As else Z.zeros(J.shape)
    if S.shape != J.shape:
        return None, len(As)
    D = S - J
    return D.maxabs(), len(As)


def check_choi_to_kraus(ctx, din, dout, kind, cplx, dim_form="mat", seed=None, tol=None):
    """choi_to_kraus on an exact integer Choi matrix of a given kind"""
    seed = int(ctx.rng.integers(1 << 62)) if seed is None else int(seed)
    rng = np.random.default_rng(seed)
    (di0, di1), (do0, do1) = din, dout
    rows, cols = di0 * do0, di1 * do1
    if kind == "psd":
        rk = int(rng.integers(1, rows + 1))
        G = gint(rng, (rows, rk), cplx, 3)
        J = G @ G.conj().T
    elif kind == "herm":
        G = gint(rng, (rows, rows), cplx, 4)
        J = G + G.conj().T
        if rows > 1 and rng.integers(2):
            # rank-deficient indefinite: G1 G1^* - G2 G2^*
            G1, G2 = gint(rng, (rows, 1), cplx, 3), gint(rng, (rows, 1), cplx, 3)
            J = G1 @ G1.conj().T - G2 @ G2.conj().T
    elif kind == "lowrank":
        rk = int(rng.integers(1, min(rows, cols) + 1))
        J = gint(rng, (rows, rk), cplx, 3) @ gint(rng, (rk, cols), cplx, 3)
    else:
        J = gint(rng, (rows, cols), cplx, 5)
    if tol is not None and kind == "herm" and rows == cols and rows > 2:
        # plant an eigenvalue below the cut-off (in modulus, and away from 0) between larger ones of both signs: shift by the integer nearest to a middle eigenvalue
        wv = np.linalg.eigvalsh(J)
        J = J - int(round(float(wv[len(wv) // 2]))) * np.eye(rows)
    if not np.any(J):
        return True
    if not cplx:
        J = J.real.astype(np.float64)
    if dim_form == "mat":
        dim = [[di0, do0], [di1, do1]]
    elif dim_form == "vec":
        dim = [di0, do0]
    elif dim_form == "int":
        dim = di0
    else:
        dim = None
    desc = {"fn": "choi_to_kraus", "din": list(din), "dout": list(dout), "kind": kind, "complex": cplx, "dim_form": dim_form}
    if tol is not None:
        desc["tol"] = tol     # an explicit cut-off above some eigenvalue / singular value of J: those terms are dropped, on BOTH sides of every pair
    nontriv = rows > 1 and cols > 1
    ctx.case(desc, nontriv, f"choi_to_kraus/{kind}/{'square' if din[0] == din[1] and dout[0] == dout[1] else 'rect'}/{dim_form}" + ("" if tol is None else "/tol-given"))
    prng = case_rng("c04/choi_to_kraus", seed)
    pJ = present_nd(prng, J)
    pdim = dim if not isinstance(dim, list) or prng.integers(3) else present_nd(prng, np.array(dim), allow_dtype=False)   # dim is documented as int | list[int] | np.ndarray
    info = {"case_seed": seed, "function": "choi_to_kraus", "args": desc, "J": jmat(J), "dim": dim, "theorem": "kraus_of_choi_reproduces",
            "presentation": {"J": describe(pJ), "dim": describe(pdim)}}
    zJ = Z.of(J)
    guard = Pure(pJ, dim=pdim)
    with LapackTap() as tap:
        impl = call(choi_to_kraus, pJ, dim=pdim) if tol is None else call(choi_to_kraus, pJ, tol=tol, dim=pdim)
    if impure(ctx, guard, "choi_to_kraus", info):
        return False
    if impl[0] != "ok":
        return not ctx.violation(f"choi_to_kraus: implementation {impl[0]} ({impl[1]}) on a valid call", info)
    kraus = impl[1]
    scale = max(1, zJ.maxabs())
    # shapes
    flat = not (len(kraus) and isinstance(kraus[0], list))
    shapes_ok = all(k.shape == (do0, di0) for k in kraus) if flat else all(k[0].shape == (do0, di0) and k[1].shape == (do1, di1) for k in kraus)
    if not shapes_ok or len(kraus) == 0:
        return not ctx.violation("choi_to_kraus: returned operators do not have the shapes (d_out x d_in) of the map", dict(info, n=len(kraus)))
    res, n = frob_resid(zJ, kraus)
    ctx.extra["choi_to_kraus_max_rel_residual"] = max(ctx.extra.get("choi_to_kraus_max_rel_residual", 0.0), float(res / scale))
    ok = True
    slack = Fraction(1, 10**8) * scale + (0 if tol is None else Fraction(tol) * max(rows, cols))   # dropped terms are each below tol in norm
    if res is None or res > slack:
        ok = False
        ctx.violation(f"choi_to_kraus: returned operators do not reproduce the Choi matrix (max residual {float(res) if res is not None else 'shape'}, scale {scale})",
                      dict(info, residual=float(res) if res is not None else None, n_kraus=n))
    rk = exact_rank(zJ)
    if n > rk:
        ok = False
        ctx.violation(f"choi_to_kraus: {n} Kraus operators returned for a Choi matrix of rank {rk}", dict(info, n_kraus=n, rank=rk))
    # ---- the post-processing against the Lean mirror model (same LAPACK factors in, same list out)
    dim_js = None if dim is None else (dim if isinstance(dim, int) else np.asarray(dim).tolist())
    verdict, detail = c2k_model_compare(ctx, info, J, dim_js, tap.calls, kraus) if tol is None else c2k_model_compare(ctx, info, J, dim_js, tap.calls, kraus, tol=tol)
    ctx.count("choi_to_kraus-model/" + verdict)
    minfo = dict(info, theorem="choiToKraus_general_branch / choiToKraus_hermitian_branch / choiToKraus_psd_branch", model_detail=detail)
    if verdict == "model-reject":
        ok = False
        ctx.violation(f"choi_to_kraus: model rejects a well-formed call ({detail})", minfo)
    elif verdict == "form":
        ok = False
        ctx.violation(f"choi_to_kraus: form of the result differs from the documented one ({detail})", minfo)
    elif verdict in ("values", "uncaptured") and ok:
        # the returned operators satisfy the defining relation (judged above) but are not the ones the modelled post-processing
        # produces from the LAPACK factors: the property is not violated on this input, the tie model <-> code is
        ctx.broken.append(f"choi_to_kraus no longer assembles its result as modelled (choiToKraus, Toq/Model/ChannelOpsExtra.lean): {detail}")
    # the returned operators act like the Choi matrix on a random input (both through apply_channel)
    if min(J.shape) >= 2:
        X = gint(rng, (di0, di1), True)
        y1 = call(apply_channel, present_nd(prng, X), kraus)
        y2 = call(apply_channel, present_nd(prng, X), present_nd(prng, J))
        if y1[0] != "ok" or y2[0] != "ok":
            ok = False
            ctx.violation("choi_to_kraus: apply_channel fails on the returned operators / the Choi matrix", dict(info, X=jmat(X), y1=str(y1)[:200], y2=str(y2)[:200]))
        else:
            sx = max(1.0, float(np.max(np.abs(X)))) * scale * di0 * di1
            if y1[1].shape != y2[1].shape or float(np.max(np.abs(y1[1] - y2[1]))) > 1e-8 * sx + (0 if tol is None else tol * max(rows, cols) * sx):
                ok = False
                ctx.violation("choi_to_kraus: returned operators act differently from the Choi matrix", dict(info, X=jmat(X)))
    return ok


def check_chain(ctx, din, dout, r, cp, cplx, seed=None, repeat=None, form="flat"):
    """Kraus -> Choi -> Kraus -> Choi: first and last Choi matrices agree"""
    seed = int(ctx.rng.integers(1 << 62)) if seed is None else int(seed)
    rng = np.random.default_rng(seed)
    (di0, di1), (do0, do1) = din, dout
    As = [gint(rng, (do0, di0), cplx, 3) for _ in range(r)]
    sign = [1 if rng.integers(2) else -1 for _ in range(r)]
    prng = case_rng("c04/chain", seed)
    mix_real(prng, [As], cplx)
    kind = "cp" if cp else ("herm" if (din[0] == din[1] and dout[0] == dout[1] and rng.integers(2)) else "gen")
    rep_at = repeat_member(prng, As, repeat) if kind == "cp" else None
    if kind == "cp":
        obj = list(As) if form == "flat" else ([[k] for k in As] if form == "column" or len(As) == 2 else [list(As)])
    elif kind == "herm":
        obj = [[a, s * a] for a, s in zip(As, sign)]    # Hermiticity preserving, not CP
    else:
        obj = [[a, gint(rng, (do1, di1), cplx, 3)] for a in As]
    desc = {"fn": "chain", "din": list(din), "dout": list(dout), "rank": r, "kind": kind, "complex": cplx}
    if rep_at:
        desc.update(repeat=repeat, repeated_places=rep_at, form=form)
    ctx.case(desc, di0 * di1 > 1 and do0 * do1 > 1, f"chain/{kind}" + (f"/repeated-{repeat}/{form}" if rep_at else ""))
    info = {"case_seed": seed, "function": "kraus_to_choi/choi_to_kraus chain", "args": desc, "phi": jkraus(obj), "theorem": "krausToChoi_of_reproduces / kraus_of_choi_reproduces"}
    pobj = present_shared(prng, obj) if (repeat == "same" and rep_at) else present_obj(prng, obj)
    guard = Pure(pobj)
    J1 = call(kraus_to_choi, pobj)
    if impure(ctx, guard, "kraus_to_choi", dict(info, presentation=describe(pobj))):
        return False
    if J1[0] != "ok":
        return not ctx.violation(f"chain: kraus_to_choi {J1[0]} {J1[1]}", info)
    J1 = J1[1]
    if rep_at:
        # a family that lists an operator twice: the first link of the chain is compared with the Lean model of the LISTED family
        mJ = ctx.lean().ask("c04_kraus_to_choi", {"phi": jkraus(obj), "sys": 2})
        try:
            gm = "reject" not in mJ and mat_eq(J1, mJ)
        except NotExact:
            gm = False
        if not gm:
            return not ctx.violation(f"chain: kraus_to_choi of a family that lists one operator twice ({repeat} object, places {rep_at}, form {form}) differs from "
                                     "sum_ij E_ij (x) Phi(E_ij) of the listed family", dict(info, impl=safe_jmat(J1), model=mJ, theorem="krausToChoi_eq_spec"))
    if not np.any(J1):
        return True
    pJ1 = present_nd(prng, J1)
    guard = Pure(pJ1)
    K2 = call(choi_to_kraus, pJ1, dim=[[di0, do0], [di1, do1]])
    if impure(ctx, guard, "choi_to_kraus", dict(info, presentation=describe(pJ1))):
        return False
    if K2[0] != "ok" or len(K2[1]) == 0:
        return not ctx.violation(f"chain: choi_to_kraus {K2[0]} {str(K2[1])[:200]}", info)
    guard = Pure(K2[1])
    J2 = call(kraus_to_choi, K2[1])
    if impure(ctx, guard, "kraus_to_choi", info):
        return False
    if J2[0] != "ok":
        return not ctx.violation(f"chain: kraus_to_choi of the returned operators {J2[0]} {J2[1]}", info)
    J2 = J2[1]
    scale = max(1.0, float(np.max(np.abs(J1))))
    if J2.shape != J1.shape or float(np.max(np.abs(J2 - J1))) > 1e-8 * scale:
        return not ctx.violation("chain: Kraus->Choi->Kraus->Choi does not return to the first Choi matrix",
                                 dict(info, J1=jmat(J1), diff=float(np.max(np.abs(J2 - J1))) if J2.shape == J1.shape else "shape"))
    if kind == "cp" and isinstance(K2[1][0], list):
        return not ctx.violation("chain: a completely positive map came back as left/right pairs", info)
    return True


def check_partial(ctx, rd, cd, sys, dout, r, form, cplx, dim_form="list", sys_default=False, seed=None, repeat=None):
    """partial_channel against the model and against id (x) Phi (x) id computed here"""
    seed = int(ctx.rng.integers(1 << 62)) if seed is None else int(seed)
    rng = np.random.default_rng(seed)
    n = len(rd)
    t = sys - 1
    do0, do1 = dout
    cp = form in ("flat", "column", "row")
    As = [gint(rng, (do0, rd[t]), cplx) for _ in range(r)]
    Bs = As if cp else [gint(rng, (do1, cd[t]), cplx) for _ in range(r)]
    R, C = int(np.prod(rd)), int(np.prod(cd))
    assert_exact(3, BITS, r * R * C)
    rho = gint(rng, (R, C), True)
    prng = case_rng("c04/partial", seed)
    mix_real(prng, [As] if cp else [As, Bs], cplx)
    rep_at = repeat_member(prng, As, repeat) if cp else None       # before the oracle below is computed: it sees the listed family
    if form == "flat":
        obj = list(As)
    elif form == "column":
        obj = [[k] for k in As]
    elif form == "row":
        obj = [list(As)]
    elif form == "pairs":
        obj = [[a, b] for a, b in zip(As, Bs)]
    else:
        obj = None
    if dim_form == "list":
        dim = list(rd)
    elif dim_form == "array":
        dim = np.array(rd)
    elif dim_form == "two":
        dim = [list(rd), list(cd)]
    elif dim_form == "two_array":
        dim = np.array([list(rd), list(cd)])
    else:
        dim = None
    dim_js = None if dim is None else (np.asarray(dim).tolist())
    desc = {"fn": "partial_channel", "rd": list(rd), "cd": list(cd), "sys": sys, "dout": list(dout), "rank": r, "form": form,
            "complex": cplx, "dim_form": dim_form, "sys_default": sys_default}
    if rep_at:
        desc.update(repeat=repeat, repeated_places=rep_at)
    nontriv = rd[t] * cd[t] > 1 and R * C > rd[t] * cd[t]
    ctx.case(desc, nontriv, f"partial/{form}/{'square' if list(rd) == list(cd) and do0 == do1 else 'rect'}/n={n}/{'dim=None' if dim_form == 'none' else 'dim given'}")
    ctx.count(f"partial-target/sys={sys}-of-{n}")
    # oracle: (I (x) A (x) I) rho (I (x) B (x) I)^dagger
    preR, postR = int(np.prod(rd[:t])), int(np.prod(rd[t + 1:]))
    preC, postC = int(np.prod(cd[:t])), int(np.prod(cd[t + 1:]))
    fA = [Z.of(np.kron(np.kron(np.eye(preR), a), np.eye(postR))) for a in As]
    fB = [Z.of(np.kron(np.kron(np.eye(preC), b), np.eye(postC))) for b in Bs]
    oracle = spec_apply(fA, fB, Z.of(rho))
    kw = {}
    args = [rho]
    if form == "choi":
        J = call(kraus_to_choi, present_obj(case_rng("c04/partial/choi", seed), [[a, b] for a, b in zip(As, Bs)]))
        if J[0] != "ok":
            return not ctx.violation(f"partial_channel: kraus_to_choi failed {J[1]}", {"function": "kraus_to_choi", "args": desc})
        J = J[1]
        if min(J.shape) < 2 or min(rho.shape) < 2:
            ctx.count("skipped/vector-shaped-choi")
            return True
        phi_py = J
        op, margs = "c04_partial_choi", {"rho": jmat(rho), "J": jmat(J), "sys": sys, "dim": dim_js}
    else:
        phi_py = obj
        op, margs = "c04_partial_kraus", {"rho": jmat(rho), "phi": jkraus(obj), "sys": sys, "dim": dim_js}
    prho, pphi = present_nd(prng, rho), (present_shared(prng, phi_py) if (repeat == "same" and rep_at) else present_obj(prng, phi_py))
    pdim = present_nd(prng, dim, allow_dtype=False) if isinstance(dim, np.ndarray) else dim     # dimension arrays keep their integer dtype
    guard = Pure(prho, pphi, pdim)
    if sys_default:
        impl = call(partial_channel, prho, pphi) if dim is None else call(partial_channel, prho, pphi, dim=pdim)
    else:
        impl = call(partial_channel, prho, pphi, sys, pdim)
    model = ctx.lean().ask(op, margs)
    info = {"case_seed": seed, "function": "partial_channel", "args": desc, "model_op": op, "model_args": margs, "theorem": "partialChannel_eq_id_tensor",
            "presentation": {"rho": describe(prho), "phi": describe(pphi), "dim": describe(pdim)}}
    if impure(ctx, guard, f"partial_channel[{form}]", info):
        return False
    if "reject" in model:
        return not ctx.violation(f"partial_channel[{form}]: model rejects a well-formed call ({model['reject']})", dict(info, impl=str(impl)[:200]))
    if impl[0] != "ok":
        return not ctx.violation(f"partial_channel[{form}]: implementation {impl[0]} ({impl[1]}) on a valid call", info)
    try:
        gm, gs = mat_eq(impl[1], model), z_eq_arr(oracle, impl[1])
    except NotExact:
        gm = gs = False
    if not (gm and gs):
        return not ctx.violation(f"partial_channel[{form}]: result differs from id (x) Phi (x) id (model agree={gm}, oracle agree={gs})",
                                 dict(info, impl=safe_jmat(impl[1]), model=model))
    return True


def check_natural(ctx, d_in, d_out, r, cplx, seed=None):
    seed = int(ctx.rng.integers(1 << 62)) if seed is None else int(seed)
    rng = np.random.default_rng(seed)
    Ks = [gint(rng, (d_out, d_in), cplx) for _ in range(r)]
    X = gint(rng, (d_in, d_in), True)
    prng = case_rng("c04/natural", seed)
    mix_real(prng, [Ks], cplx)
    desc = {"fn": "natural_representation", "d_in": d_in, "d_out": d_out, "rank": r, "complex": cplx}
    ctx.case(desc, d_in > 1 and d_out > 1, "natural_representation")
    pKs = present_obj(prng, Ks)
    guard = Pure(pKs)
    impl = call(natural_representation, pKs)
    model = ctx.lean().ask("c04_natural_rep", {"ops": [jmat(k) for k in Ks]})
    info = {"case_seed": seed, "function": "natural_representation", "args": desc, "ops": [jmat(k) for k in Ks], "theorem": "naturalRep_vec",
            "presentation": describe(pKs)}
    if impure(ctx, guard, "natural_representation", info):
        return False
    if "reject" in model or impl[0] != "ok":
        return not ctx.violation(f"natural_representation: {'model rejects' if 'reject' in model else 'implementation ' + str(impl)[:200]}", info)
    try:
        gm = mat_eq(impl[1], model)
    except NotExact:
        gm = False
    # K vec_r(X) = vec_r(Phi(X)), exact
    zK = Z.of(impl[1]) if gm else None
    zs = [Z.of(k) for k in Ks]
    phiX = spec_apply(zs, zs, Z.of(X))
    vr = lambda z: Z(z.re.reshape(-1, 1), z.im.reshape(-1, 1))
    gs = gm and (zK @ vr(Z.of(X))).eq(vr(phiX))
    if not (gm and gs):
        return not ctx.violation(f"natural_representation: K vec(X) != vec(Phi(X)) (model agree={gm}, oracle agree={gs})",
                                 dict(info, impl=safe_jmat(impl[1]), model=model))
    return True


def check_channel_dim(ctx, din, dout, r, form, dim_form, allow_rect, mismatch=False, seed=None):
    seed = int(ctx.rng.integers(1 << 62)) if seed is None else int(seed)
    rng = np.random.default_rng(seed)
    (di0, di1), (do0, do1) = din, dout
    As = [gint(rng, (do0, di0), False, 2) for _ in range(r)]
    Bs = [gint(rng, (do1, di1), False, 2) for _ in range(r)]
    if form == "flat":
        obj = list(As)
    elif form == "column":
        obj = [[k] for k in As]
    elif form == "row":
        obj = [list(As)]
    elif form == "pairs":
        obj = [[a, b] for a, b in zip(As, Bs)]
    else:
        obj = None   # Choi
    a, b, c, d = di0, do0, di1, do1
    if mismatch:
        b += 1
    dim = {"none": None, "int": a, "vec": [a, b], "mat": [[a, b], [c, d]], "array": np.array([[a, b], [c, d]])}[dim_form]
    dim_js = None if dim is None else (dim if isinstance(dim, int) else np.asarray(dim).tolist())
    desc = {"fn": "channel_dim", "din": list(din), "dout": list(dout), "rank": r, "form": form, "dim_form": dim_form, "allow_rect": allow_rect,
            "mismatch": mismatch}
    ctx.case(desc, False, f"channel_dim/{form}/{dim_form}")
    prng = case_rng("c04/channel_dim", seed)
    pdim = present_nd(prng, dim, allow_dtype=False) if isinstance(dim, np.ndarray) else dim
    if obj is None:
        rows, cols = di0 * do0, di1 * do1
        pobj = present_nd(prng, np.zeros((rows, cols)))
        guard = Pure(pobj, pdim)
        impl = call(channel_dim, pobj, allow_rect, pdim, False)
        model = ctx.lean().ask("c04_channel_dim", {"phi": None, "rows": rows, "cols": cols, "allow_rect": allow_rect, "dim": dim_js})
    else:
        pobj = present_obj(prng, obj)
        guard = Pure(pobj, pdim)
        impl = call(channel_dim, pobj, allow_rect, pdim)
        model = ctx.lean().ask("c04_channel_dim", {"phi": jkraus(obj), "allow_rect": allow_rect, "dim": dim_js})
    info = {"case_seed": seed, "function": "channel_dim", "args": desc, "model": model, "impl": str(impl)[:300], "presentation": {"phi": describe(pobj), "dim": describe(pdim)}}
    if impure(ctx, guard, "channel_dim", info):
        return False
    if "reject" in model:
        if impl[0] == "ok":
            return not ctx.violation(f"channel_dim: model rejects ({model['reject']}) but the implementation returns", info)
        return True
    if impl[0] != "ok":
        return not ctx.violation(f"channel_dim: implementation {impl[0]} ({impl[1]}) where the model returns", info)
    i_in, i_out, i_e = impl[1]
    got = {"dim_in": [int(x) for x in np.atleast_1d(i_in)] * (1 if allow_rect else 2), "dim_out": [int(x) for x in np.atleast_1d(i_out)] * (1 if allow_rect else 2),
           "dim_e": None if i_e is None else int(i_e)}
    if got != model:
        return not ctx.violation("channel_dim: dimensions differ from the model", dict(info, got=got))
    return True


# ------------------------------------------------------------------------------------------------ driver of the run

def rand_dims2(rng, hi=4, square_p=0.5):
    if rng.random() < square_p:
        a, b = int(rng.integers(1, hi + 1)), int(rng.integers(1, hi + 1))
        return (a, a), (b, b)
    return (int(rng.integers(1, hi + 1)), int(rng.integers(1, hi + 1))), (int(rng.integers(1, hi + 1)), int(rng.integers(1, hi + 1)))


def run(ctx, model_ok=True):
    rng = ctx.rng
    quick = ctx.tier == "quick"
    # ---- corpus: corner cases first
    check_apply(ctx, (2, 2), (3, 3), 2, True, True)                 # includes the [[K1, K2]] = one pair reading
    check_apply(ctx, (2, 3), (3, 2), 2, False, True, "triples")     # rectangular in/out, complex, wider nesting
    check_apply(ctx, (3, 3), (1, 1), 3, True, True)                 # functional (output dimension 1)
    check_apply(ctx, (1, 1), (2, 2), 2, False, True)                # input dimension 1
    check_apply(ctx, (4, 2), (1, 3), 5, False, True)
    check_choi_to_kraus(ctx, (2, 2), (2, 2), "herm", True)
    check_choi_to_kraus(ctx, (2, 3), (3, 1), "gen", True)
    # explicit cut-offs that lie above the smallest eigenvalue / singular value of some of these integer matrices (3 - sqrt(10) = -0.16 ...):
    # the kept terms must be the same on the left and on the right of every pair
    trng = ctx.rng.spawn(1)[0]
    for i in range(24 if ctx.tier == "quick" else 200):
        dd = int(trng.choice([2, 2, 3]))
        check_choi_to_kraus(ctx, (dd, dd), (2, 2), ["herm", "herm", "psd", "gen"][i % 4], bool(trng.integers(2)), "mat", seed=int(trng.integers(1 << 62)), tol=float(trng.choice([0.5, 1.0, 2.0])))
    # ---- wave 5 (streams of their own: `spawn` does not advance ctx.rng)
    # (a) CP families that list the SAME ndarray object twice ([K, L, K], [[K],[L],[K]], [[K, L, K]]) and the control with an equal copy:
    #     Phi(X) = 2 K X K^dagger + L X L^dagger for the listed family, in every representation (Lean model of the listed family)
    wrng = ctx.rng.spawn(1)[0]
    sd = lambda: int(wrng.integers(1 << 62))      # noqa: E731
    check_apply(ctx, (2, 2), (2, 2), 3, True, True, seed=sd(), repeat="same")
    check_partial(ctx, (2, 2), (2, 2), 2, (2, 2), 3, "flat", True, seed=sd(), repeat="same")
    for it in range(18 if quick else 180):
        a, b, r = int(wrng.integers(1, 4)), int(wrng.integers(1, 4)), int(wrng.integers(2, 5))
        rp = "same" if it % 3 else "copy"
        check_apply(ctx, (a, a), (b, b), r, True, bool(wrng.integers(4)), seed=sd(), repeat=rp)
        form = ("flat", "column", "row")[it % 3]
        n = int(wrng.choice([2, 2, 3]))
        dims = tuple(int(x) for x in wrng.integers(1, 3, size=n))
        if int(np.prod(dims)) < 2:
            dims = (2,) + dims[1:]
        rr = 3 if (form == "row" and r == 2) else r
        check_partial(ctx, dims, dims, int(wrng.integers(1, n + 1)), (b, b), rr, form, bool(wrng.integers(4)), str(wrng.choice(["list", "array", "two"])),
                      seed=sd(), repeat=rp)
        check_chain(ctx, (a, a), (b, b), r, True, bool(wrng.integers(4)), seed=sd(), repeat=rp, form=form)
    # (b) value independent of NumPy's floating-point error state
    import sys as _sys
    from . import c04_w5
    c04_w5.run_strict_fp(ctx, _sys.modules[__name__], ctx.rng.spawn(1)[0])
    check_partial(ctx, (2, 3), (2, 3), 1, (2, 2), 2, "choi", True)
    check_partial(ctx, (2, 3, 2), (3, 2, 2), 2, (1, 2), 2, "choi", True, "two")
    check_partial(ctx, (3, 3), (3, 3), 2, (3, 3), 2, "pairs", True, "none", True)
    check_partial(ctx, (2, 2), (3, 3), 1, (2, 3), 1, "pairs", True, "none")          # rho 4x9, dim omitted (reported corner, fixed in f134012)
    check_partial(ctx, (2, 2), (3, 3), 2, (2, 3), 1, "pairs", True, "none", True)
    check_partial(ctx, (3, 3), (2, 2), 2, (1, 2), 2, "choi", True, "none")           # rho 9x4, Choi form
    check_partial(ctx, (2, 2), (4, 4), 1, (3, 2), 2, "choi", True, "none")           # rho 4x16
    # ---- apply_channel / kraus_to_choi / Choi form: all (d_in, d_out, rank) classes
    if quick:
        grid = []
        for d_in in range(1, 5):
            for d_out in range(1, 5):
                for r in range(1, 6):
                    grid.append(((d_in, d_in), (d_out, d_out), r))
        rng.shuffle(grid)
        for k, (din, dout, r) in enumerate(grid):
            # every (d_in, d_out, rank) as CP and as non-CP, real and complex alternating
            check_apply(ctx, din, dout, r, True, k % 3 != 0)
            check_apply(ctx, din, dout, r, False, k % 3 != 1)
        for it in range(300):
            din, dout = rand_dims2(rng, 4, 0.25)
            r = int(rng.integers(1, 6))
            check_apply(ctx, din, dout, r, din[0] == din[1] and dout[0] == dout[1] and bool(rng.integers(2)), bool(rng.integers(4)),
                        "triples" if rng.integers(4) == 0 else None)
    else:
        for d_in in range(1, 5):
            for d_out in range(1, 5):
                for r in range(1, 6):
                    for cp in (True, False):
                        for cplx in (True, False, True):
                            check_apply(ctx, (d_in, d_in), (d_out, d_out), r, cp, cplx)
        for di0, di1, do0, do1 in itertools.product(range(1, 5), repeat=4):
            if di0 == di1 and do0 == do1:
                continue
            for r in (1, 2, 3, 4, 5):
                check_apply(ctx, (di0, di1), (do0, do1), r, False, bool(rng.integers(4)), "triples" if rng.integers(4) == 0 else None)
        # full E_ij basis determination of a few maps in all representations
        for din, dout, r, cp in [((2, 2), (3, 3), 2, True), ((2, 3), (3, 2), 3, False), ((3, 3), (2, 2), 4, False), ((4, 4), (2, 2), 3, True),
                                 ((3, 2), (2, 4), 5, False), ((1, 3), (3, 1), 2, False), ((4, 3), (3, 4), 2, False), ((3, 3), (3, 3), 5, True)]:
            sd = int(rng.integers(1 << 62))
            for i in range(din[0]):
                for j in range(din[1]):
                    check_apply(ctx, din, dout, r, cp, True, basis=(i, j), seed=sd)      # same map, every basis input
        ctx.extra["exhaustive_small_space"] = "apply/kraus_to_choi: full grid d_in,d_out in 1..4 (square), rank 1..5, CP/non-CP, real/complex; all rectangular (di0,di1,do0,do1) in 1..4 with ranks 1..5; E_ij bases for 8 maps; partial_channel: all dim vectors with entries 1..3 and product <= 27 for n = 2, 3, every target, every form"
    # ---- choi_to_kraus
    n_c2k = 300 if quick else 6000
    for it in range(n_c2k):
        kind = ["psd", "herm", "gen", "lowrank"][it % 4]
        if kind in ("psd", "herm"):
            a, b = int(rng.integers(1, 5)), int(rng.integers(1, 5))
            if a * b > 9:
                b = 2
            din, dout = (a, a), (b, b)
            dim_form = ["mat", "vec", "mat", "none" if a == b else "vec", "int" if a == b else "mat"][int(rng.integers(5))]
        else:
            din, dout = rand_dims2(rng, 3 if quick else 4, 0.3)
            dim_form = "mat"
            if din[0] == din[1] and dout[0] == dout[1] and rng.integers(2):
                dim_form = "vec"
        if kind != "gen" or True:
            check_choi_to_kraus(ctx, din, dout, kind, bool(rng.integers(4)), dim_form)
    for it in range(200 if quick else 4000):
        din, dout = rand_dims2(rng, 3, 0.6)
        r = int(rng.integers(1, 6))
        cp = din[0] == din[1] and dout[0] == dout[1] and bool(rng.integers(2))
        check_chain(ctx, din, dout, r, cp, bool(rng.integers(4)))
    # ---- partial_channel
    cases = []
    for n in (2, 3):
        for dims in itertools.product(range(1, 4), repeat=n):
            if int(np.prod(dims)) > (12 if quick else 27) or int(np.prod(dims)) < 2:
                continue
            for sys in range(1, n + 1):
                cases.append((dims, sys))
    rng.shuffle(cases)
    forms = ["flat", "column", "row", "pairs", "choi"]
    for k, (dims, sys) in enumerate(cases):
        for form in (forms if not quick else [forms[k % 5], forms[(k + 2) % 5]]):
            r = int(rng.integers(1, 4))
            if form == "row" and r == 2:
                r = 3
            d = int(rng.integers(1, 4))
            cp = form in ("flat", "column", "row")
            dout = (d, d) if cp or rng.integers(2) else (d, int(rng.integers(1, 4)))
            check_partial(ctx, dims, dims, sys, dout, r, form, bool(rng.integers(4)), str(rng.choice(["list", "array", "two"])))
    # rectangular dim arrays (pairs and Choi form)
    for it in range(150 if quick else 3000):
        n = int(rng.choice([2, 2, 3]))
        while True:
            rd = tuple(int(x) for x in rng.integers(1, 4, size=n))
            cd = tuple(int(x) for x in rng.integers(1, 4, size=n))
            if 2 <= int(np.prod(rd)) <= 12 and 2 <= int(np.prod(cd)) <= 12:
                break
        sys = int(rng.integers(1, n + 1))
        dout = (int(rng.integers(1, 4)), int(rng.integers(1, 4)))
        check_partial(ctx, rd, cd, sys, dout, int(rng.integers(1, 4)), str(rng.choice(["pairs", "choi"])), bool(rng.integers(4)),
                      str(rng.choice(["two", "two_array"])))
    # default dim / default sys (two equal subsystems)
    for it in range(30 if quick else 300):
        d = int(rng.integers(2, 4))
        form = forms[it % 5]
        r = 3 if form == "row" else int(rng.integers(1, 4))
        check_partial(ctx, (d, d), (d, d), 2 if it % 2 else 1, (d, d) if it % 3 else (2, 2), r, form, True, "none", bool(it % 2))
    # default dim on NON-square operators (rows and cols perfect squares): dim=None means [[sqrt rows]*2, [sqrt cols]*2]; pairs and Choi form, sys 1 and 2
    #   (fixed: f134012 -- before, the default was the 1-d array [sqrt rows, sqrt cols] and the call raised)
    shapes = [(2, 3), (3, 2), (2, 4), (4, 2), (3, 4), (4, 3)]
    for it in range(36 if quick else 360):
        a, b = shapes[it % 6]
        form = "pairs" if (it // 6) % 2 == 0 else "choi"
        sys = 1 + (it // 12) % 2
        dout = (int(rng.integers(1, 4)), int(rng.integers(1, 4))) if it % 5 else (a, b)
        check_partial(ctx, (a, a), (b, b), sys, dout, int(rng.integers(1, 4)), form, bool(rng.integers(4)), "none", sys == 2 and bool(it % 2))
    # ---- natural_representation
    for it in range(150 if quick else 2000):
        check_natural(ctx, int(rng.integers(1, 5)), int(rng.integers(1, 5)), int(rng.integers(1, 6)), bool(rng.integers(4)))
    # ---- channel_dim
    for it in range(300 if quick else 3000):
        form = str(rng.choice(["flat", "column", "row", "pairs", "choi"]))
        if form in ("flat", "column", "row"):
            a, b = int(rng.integers(1, 5)), int(rng.integers(1, 5))
            din, dout = (a, a), (b, b)
        else:
            din, dout = rand_dims2(rng, 4, 0.4)
        r = int(rng.integers(1, 5))
        if form == "row" and r == 2:
            r = 3
        sq = din[0] == din[1] and dout[0] == dout[1]
        opts = ["none", "mat", "array"] + (["vec"] if sq else []) + (["int"] if sq and din[0] == dout[0] else [])
        if form == "choi" and not (sq and din[0] == dout[0]) and not (din == dout):
            opts = [o for o in opts if o != "none"]
        dim_form = str(rng.choice(opts))
        check_channel_dim(ctx, din, dout, r, form, dim_form, bool(rng.integers(4)), mismatch=(dim_form != "none" and rng.integers(6) == 0))
    ctx.extra["tolerances"] = {"exact paths": 0, "choi_to_kraus residual": "1e-8*max(1,|J|max)", "chain": "1e-8*max(1,|J|max)",
                               "choi_to_kraus operators vs model (same LAPACK factors)": "1e-12*max(1,|entry|max)"}


def replay(ctx, rec):
    a = rec["args"]
    sd = rec.get("case_seed")
    fn = a.get("fn")
    if fn in ("apply_channel", "kraus_to_choi"):
        check_apply(ctx, tuple(a["din"]), tuple(a["dout"]), a["rank"], a["cp"], a["complex"], "triples" if a.get("form") == "triples" else None, seed=sd, repeat=a.get("repeat"))
    elif fn == "choi_to_kraus":
        check_choi_to_kraus(ctx, tuple(a["din"]), tuple(a["dout"]), a["kind"], a["complex"], a["dim_form"], seed=sd)
    elif fn == "chain":
        check_chain(ctx, tuple(a["din"]), tuple(a["dout"]), a["rank"], a["kind"] == "cp", a["complex"], seed=sd, repeat=a.get("repeat"), form=a.get("form", "flat"))
    elif fn == "partial_channel":
        check_partial(ctx, tuple(a["rd"]), tuple(a["cd"]), a["sys"], tuple(a["dout"]), a["rank"], a["form"], a["complex"], a["dim_form"], a["sys_default"], seed=sd, repeat=a.get("repeat"))
    elif fn == "natural_representation":
        check_natural(ctx, a["d_in"], a["d_out"], a["rank"], a["complex"], seed=sd)
    elif fn == "strict_fp" and sd is not None:
        import sys as _sys
        from . import c04_w5
        c04_w5.check_strict_fp(ctx, _sys.modules[__name__], a["kind"], a["complex"], sd)
    elif fn == "channel_dim":
        check_channel_dim(ctx, tuple(a["din"]), tuple(a["dout"]), a["rank"], a["form"], a["dim_form"], a["allow_rect"], a["mismatch"], seed=sd)
