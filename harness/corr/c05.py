"""C05: dual and complementary maps.

dual_channel (flat / column / row / paired Kraus lists, Choi matrices with every `dims` form) is compared
for exact equality with the Lean mirror model on Gaussian-integer data, and the adjoint identity
<Y, Phi(X)> = <Phi*(Y), X> is evaluated exactly (Python integers) on the implementation's own outputs.
complementary_channel is run on exactly trace-preserving Kraus families cut out of exact rational
isometries (products of Pythagorean Givens rotations with unit Gaussian-rational phases); its output is a
pure rearrangement of the input entries and is compared exactly with the model; entries
Tr(K_i rho K_j^dagger), trace preservation and the spectrum on pure inputs are compared with exact rational
reference values up to 1e-9*scale (1e-8*scale for eigenvalues).
"""
from __future__ import annotations

import itertools
from fractions import Fraction
from math import lcm

import numpy as np

from toqito.channel_ops import apply_channel, complementary_channel, dual_channel, kraus_to_choi
from toqito.channels import partial_trace

from ..exact import NotExact, call, split_int, present, strict_fp_call
from .c04 import Z, gint, jkraus, jmat, mat_eq, safe_jmat, spec_apply, spec_choi, z_eq_arr

RULE = ("dual_channel: random Kraus families (A_i, B_i) with Gaussian-integer entries (complex, non-symmetric, |re|,|im| < 2^6), ranks 1..5, input and "
        "output row/column dimensions 1..4 (unequal in/out and rectangular included), CP and non-CP, in flat / column / row / paired list form and as "
        "Choi matrix with dims given as 2x2 list, 2x2 array, [m, n], int or omitted where the code can infer them; operator pairs X, Y random Gaussian "
        "integers; all comparisons exact. complementary_channel: trace-preserving families of rank 1..4 on dimension 1..4 from exact rational isometries; "
        "inputs rho random Gaussian-integer matrices and pure states. Non-trivial: input and output spaces with more than one entry (dual), d >= 2 and rank >= 2 "
        "(complementary); distinct = hash of (function, form, dims, rank, kind). Criteria stream (square spaces, dims >= 2): toqito's partial_trace of the Choi matrix returned by "
        "kraus_to_choi over the output factor must equal (sum_k B_k^dagger A_k)^T and over the input factor Phi(1) = sum_k A_k B_k^dagger, exactly. When rank == dimension the "
        "complementary channel of the returned complementary family must be the original family, exactly. Not generated: Choi matrices that are row/column vectors, empty lists. "
        "Stream w5 (fixed list of kinds, 3 sizes each, data from a fresh child of the seeded generator spawned after all other streams; one seed per case): dual_channel on flat / paired Kraus lists containing an "
        "all-zero operator and rank-one operators, on an all-zero and a rank-one Choi matrix; complementary_channel on exactly complete families with an appended zero operator, on rank-one "
        "(matrix-unit) families and on four copies of U/2 (U a signed complex permutation). strict-fp: every case is evaluated once in NumPy's default floating-point error state and once with "
        "invalid / divide / overflow set to raise (harness.exact.strict_fp_call): same outcome, bitwise equal arrays. same-object: lists in which ONE ndarray object occurs in several positions "
        "([A, A, B], [[A, A], [B, C]], [[A, B], [A, B]], [K, K, K, K]) against the same list built from equal copies: same outcome, equal arrays; the inputs must be untouched")
ASSUMPTIONS = [
    "a bilinear/trilinear identity that fails holds on a random point of a box of side 2^6 per coordinate with probability <= 3/2^6 per case (Schwartz-Zippel)",
    "the completeness guard np.allclose(sum K^dagger K, I) is exercised only on exactly complete families (as rounded to doubles) and on families that miss completeness by a margin >= 1/4",
]


def ip(A: Z, B: Z):
    """<A, B> = tr(A^dagger B), exact; returns (re, im)"""
    t = A.ct() @ B
    n = t.shape[0]
    return (sum(t.re[i, i] for i in range(n)), sum(t.im[i, i] for i in range(n)))


def forms_of(As, Bs, cp):
    r = len(As)
    out = {}
    if cp:
        out["flat"] = (list(As), (As, As))
        out["column"] = ([[k] for k in As], (As, As))
        if r != 2:
            out["row"] = ([list(As)], (As, As))
    out["pairs"] = ([[a, b] for a, b in zip(As, Bs)], (As, Bs))
    return out


def same_nesting(impl, model):
    """implementation's dual list against the model's JSON (exact)"""
    if model["tag"] == "flat":
        return isinstance(impl, list) and len(impl) == len(model["ops"]) and all(isinstance(k, np.ndarray) and mat_eq(k, m) for k, m in zip(impl, model["ops"]))
    return (isinstance(impl, list) and len(impl) == len(model["ops"]) and
            all(isinstance(row, list) and len(row) == len(mrow) and all(mat_eq(k, m) for k, m in zip(row, mrow)) for row, mrow in zip(impl, model["ops"])))


def _scale_obj(obj, sc):
    """the same representation with every operator multiplied by sc"""
    if isinstance(obj, (list, tuple)):
        return type(obj)(_scale_obj(o, sc) for o in obj)
    return np.asarray(obj) * sc


def _same_arrays(a, b):
    if isinstance(a, (list, tuple)) or isinstance(b, (list, tuple)):
        return isinstance(a, (list, tuple)) and isinstance(b, (list, tuple)) and len(a) == len(b) and all(_same_arrays(x, y) for x, y in zip(a, b))
    return np.array_equal(np.asarray(a), np.asarray(b))


def check_dual(ctx, din, dout, r, cp, cplx, seed=None):
    seed = int(ctx.rng.integers(1 << 62)) if seed is None else int(seed)
    rng = np.random.default_rng(seed)
    (di0, di1), (do0, do1) = din, dout
    # values as drawn; presentation (memory layout, real/int dtype where the values allow, mixed within one list) varies
    As = [present(rng, gint(rng, (do0, di0), cplx and not (r > 1 and k == 0 and rng.integers(3) == 0))) for k in range(r)]
    Bs = As if cp else [present(rng, gint(rng, (do1, di1), cplx)) for _ in range(r)]
    X = gint(rng, (di0, di1), True)
    Y = gint(rng, (do0, do1), True)
    zX, zY = Z.of(X), Z.of(Y)
    base = {"din": list(din), "dout": list(dout), "rank": r, "cp": cp, "complex": cplx}
    nontriv = di0 * di1 > 1 and do0 * do1 > 1
    sq = "square" if di0 == di1 and do0 == do1 else "rect"
    ok = True
    for name, (obj, (LA, LB)) in forms_of(As, Bs, cp).items():
        desc = dict(base, fn="dual_channel", form=name)
        ctx.case(desc, nontriv, f"dual/{name}/{'cp' if cp else 'noncp'}/{sq}/{'in=out' if din == dout else 'in!=out'}")
        zA, zB = [Z.of(a) for a in LA], [Z.of(b) for b in LB]
        flat_in = [k for row in obj for k in (row if isinstance(row, list) else [row])]
        snap = [k.copy() for k in flat_in]
        jphi = jkraus(obj)
        impl = call(dual_channel, obj)
        model = ctx.lean().ask("c05_dual_kraus", {"phi": jphi})
        info = {"case_seed": seed, "function": "dual_channel", "args": desc, "phi": jphi, "X": jmat(X), "Y": jmat(Y), "theorem": "dual_adjoint_kraus"}
        if impl[0] != "ok":
            ok = False
            ctx.violation(f"dual_channel[{name}]: implementation {impl[0]} ({impl[1]}) on a valid call", info)
            continue
        D = impl[1]
        try:
            gm = same_nesting(D, model)
        except NotExact:
            gm = False
        # adjoint identity on the implementation's output, through apply_channel
        phiX = spec_apply(zA, zB, zX)
        dY = call(apply_channel, Y, D)
        if dY[0] != "ok":
            ok = False
            ctx.violation(f"dual_channel[{name}]: apply_channel fails on the returned dual ({dY[1]})", info)
            continue
        try:
            zdY = Z.of(dY[1])
            split_int(dY[1])
            lhs, rhs = ip(zY, phiX), ip(zdY, zX)
            # oracle: Phi*(Y) = sum A^dagger Y B
            gs = spec_apply([a.ct() for a in zA], [b.ct() for b in zB], zY).eq(zdY)
        except NotExact:
            lhs, rhs, gs = 0, 1, False
        if not (gm and gs and lhs == rhs):
            ok = False
            ctx.violation(f"dual_channel[{name}]: <Y, Phi(X)> = {lhs} but <Phi*(Y), X> = {rhs} (model agree={gm}, adjoint-map oracle agree={gs})",
                          dict(info, model=model))
            continue
        if not all(np.array_equal(a, b) for a, b in zip(flat_in, snap)):
            ok = False
            ctx.violation(f"dual_channel[{name}]: caller's arrays were modified", info)
        # the dual is linear in the operators: the same family scaled by a power of two (exact in floating point; entries of size 1e-9 and
        # 1e+6) must give the dual scaled by the same factor, entry for entry (dual_adjoint_kraus holds for maps of any norm)
        if seed % 3 == 0:
            for kexp in (-30, 20):
                Ds = call(dual_channel, _scale_obj(obj, 2.0 ** kexp))
                ctx.case(dict(desc, scale_exp=kexp), nontriv, f"dual/scaled/2^{kexp}")
                if Ds[0] != "ok" or not _same_arrays(Ds[1], _scale_obj(D, 2.0 ** kexp)):
                    ok = False
                    ctx.violation(f"dual_channel[{name}]: operators scaled by 2^{kexp} do not give the dual scaled by 2^{kexp}", dict(info, scale_exp=kexp, theorem="dual_adjoint_kraus (linear in the operators)"))
        # double dual acts as (indeed: is) the original
        DD = call(dual_channel, D)
        if DD[0] != "ok":
            ok = False
            ctx.violation(f"dual_channel[{name}]: dual of the dual fails ({DD[1]})", info)
        else:
            y1 = call(apply_channel, X, DD[1])
            if y1[0] != "ok" or not z_eq_arr(phiX, y1[1]):
                ok = False
                ctx.violation(f"dual_channel[{name}]: the dual of the dual does not act as the original map", dict(info, theorem="dual_dual_acts_as_self"))
        # unital <-> dual trace preserving, on the implementation's outputs (only meaningful on square spaces)
        if di0 == di1 and do0 == do1:
            one = call(apply_channel, np.eye(di0, dtype=complex), obj)
            if one[0] == "ok":
                zPhi1 = Z.of(one[1])
                # tr Phi*(Y) must equal <Phi(1), Y>; so Phi(1) = c*1  <->  tr Phi*(Y) = c tr Y for all Y
                t = (sum(zdY.re[i, i] for i in range(di0)), sum(zdY.im[i, i] for i in range(di0)))
                if ip(zPhi1, zY) != t:
                    ok = False
                    ctx.violation(f"dual_channel[{name}]: tr Phi*(Y) differs from <Phi(1), Y> (so unital <-> dual trace-preserving fails)",
                                  dict(info, theorem="unital_iff_dual_tp"))
    # ---- Choi form
    pairs = [[a, b] for a, b in zip(As, Bs)]
    J = call(kraus_to_choi, pairs)
    if J[0] != "ok":
        ctx.violation(f"dual_channel: kraus_to_choi failed ({J[1]})", {"function": "kraus_to_choi", "args": base, "case_seed": seed})
        return False
    J = present(rng, J[1], allow_dtype=False)
    if min(J.shape) < 2:
        ctx.count("skipped/vector-shaped-choi")
        return ok
    zA, zB = [Z.of(a) for a in As], [Z.of(b) for b in Bs]
    phiX = spec_apply(zA, zB, zX)
    # ---- trace-preservation / unitality criteria on the code's own outputs (square spaces): the partial trace of the Choi matrix over the
    #      output factor is (sum_k B_k^dagger A_k)^T, over the input factor it is Phi(1) = sum_k A_k B_k^dagger  (exact)
    if di0 == di1 and do0 == do1 and di0 >= 2 and do0 >= 2:
        ctx.case(dict(base, fn="dual_channel", form="criteria"), nontriv, "criteria/ptrace-of-choi")
        cinfo = {"case_seed": seed, "function": "kraus_to_choi + partial_trace", "args": dict(base, fn="dual_channel", form="criteria"), "J": jmat(J),
                 "theorem": "tp_iff_kraus_complete / tp_iff_choi_ptrace / unital_iff_choi_ptrace / choi_ptrace_is_partial_trace"}
        t_out = call(partial_trace, J, [1], [di0, do0])
        t_in = call(partial_trace, J, [0], [di0, do0])
        sBdA = None
        sABd = None
        for a, b in zip(zA, zB):
            t1, t2 = b.ct() @ a, a @ b.ct()
            sBdA = t1 if sBdA is None else sBdA + t1
            sABd = t2 if sABd is None else sABd + t2
        want_out = Z(sBdA.re.T.copy(), sBdA.im.T.copy())
        try:
            good = t_out[0] == "ok" and t_in[0] == "ok" and z_eq_arr(want_out, t_out[1]) and z_eq_arr(sABd, t_in[1])
        except NotExact:
            good = False
        if not good:
            ok = False
            ctx.violation("criteria: Tr_out J(Phi) != (sum_k B_k^dagger A_k)^T or Tr_in J(Phi) != Phi(1) (trace preservation / unitality read off the Choi matrix "
                          "disagrees with the Kraus operators)", dict(cinfo, tr_out=str(t_out)[:300], tr_in=str(t_in)[:300]))
    dim_forms = ["mat", "array"]
    if di0 == di1 and do0 == do1:
        dim_forms.append("vec")
        if di0 == do0:
            dim_forms += ["int"]
    if din == dout:
        dim_forms.append("none")
    for df in dim_forms:
        dims = {"mat": [[di0, do0], [di1, do1]], "array": np.array([[di0, do0], [di1, do1]]), "vec": [di0, do0], "int": di0, "none": None}[df]
        dims_js = None if dims is None else (dims if isinstance(dims, int) else np.asarray(dims).tolist())
        desc = dict(base, fn="dual_channel", form="choi", dims_form=df)
        ctx.case(desc, nontriv, f"dual/choi/{sq}/{'in=out' if din == dout else 'in!=out'}/{df}")
        snap = J.copy()
        jJ = jmat(J)
        impl = call(dual_channel, J, dims)
        model = ctx.lean().ask("c05_dual_choi", {"J": jJ, "dims": dims_js})
        info = {"case_seed": seed, "function": "dual_channel", "args": desc, "J": jJ, "dims": dims_js, "X": jmat(X), "Y": jmat(Y), "theorem": "dual_adjoint_choi"}
        if "reject" in model:
            ok = False
            ctx.violation(f"dual_channel[choi/{df}]: model rejects a valid call ({model['reject']})", dict(info, impl=str(impl)[:200]))
            continue
        if impl[0] != "ok":
            ok = False
            ctx.violation(f"dual_channel[choi/{df}]: implementation {impl[0]} ({impl[1]}) on a valid call", info)
            continue
        JD = impl[1]
        try:
            gm = mat_eq(JD, model)
            # oracle: the Choi matrix of the adjoint map sum A^dagger Y B
            gs = z_eq_arr(spec_choi([a.ct() for a in zA], [b.ct() for b in zB]), JD)
        except NotExact:
            gm = gs = False
        dY = call(apply_channel, Y, JD) if min(np.asarray(JD).shape) >= 2 else ("skip", None)
        lhs = rhs = None
        if dY[0] == "ok":
            try:
                lhs, rhs = ip(zY, phiX), ip(Z.of(dY[1]), zX)
                split_int(dY[1])
            except NotExact:
                lhs, rhs = 0, 1
        elif dY[0] != "skip":
            lhs, rhs = 0, 1
        if not (gm and gs and lhs == rhs):
            ok = False
            ctx.violation(f"dual_channel[choi/{df}]: returned matrix is not the Choi matrix of the adjoint map (model agree={gm}, oracle agree={gs}, "
                          f"<Y,Phi X>={lhs}, <Phi* Y,X>={rhs})", dict(info, impl=safe_jmat(JD), model=model))
            continue
        if not np.array_equal(J, snap):
            ok = False
            ctx.violation("dual_channel[choi]: caller's array was modified", info)
        if seed % 3 == 0:
            for kexp in (-30, 20):     # linear in J: a Choi matrix of tiny / large norm gives the dual scaled by the same power of two
                Js = call(dual_channel, J * 2.0 ** kexp, dims)
                ctx.case(dict(desc, scale_exp=kexp), nontriv, f"dual/choi/scaled/2^{kexp}")
                if Js[0] != "ok" or not np.array_equal(np.asarray(Js[1]), np.asarray(JD) * 2.0 ** kexp):
                    ok = False
                    ctx.violation(f"dual_channel[choi/{df}]: Choi matrix scaled by 2^{kexp} does not give the dual scaled by 2^{kexp}", dict(info, scale_exp=kexp, theorem="dual_adjoint_choi (linear in J)"))
        # double dual with the swapped dimensions returns the original matrix
        back_dims = {"mat": [[do0, di0], [do1, di1]], "array": np.array([[do0, di0], [do1, di1]]), "vec": [do0, di0], "int": di0, "none": None}[df]
        JJ = call(dual_channel, JD, back_dims)
        if JJ[0] != "ok" or not np.array_equal(JJ[1], J):
            ok = False
            ctx.violation(f"dual_channel[choi/{df}]: dual of the dual is not the original Choi matrix", dict(info, theorem="dual_dual_acts_as_self"))
    return ok


# ------------------------------------------------------------------------------------------------ exact isometries

PYTH = [(3, 4, 5), (5, 12, 13), (8, 15, 17), (7, 24, 25), (4, 3, 5), (12, 5, 13)]
PHASES = [(Fraction(1), Fraction(0)), (Fraction(0), Fraction(1)), (Fraction(-1), Fraction(0)), (Fraction(0), Fraction(-1)),
          (Fraction(3, 5), Fraction(4, 5)), (Fraction(-5, 13), Fraction(12, 13)), (Fraction(4, 5), Fraction(-3, 5))]


def cmul(x, y):
    return (x[0] * y[0] - x[1] * y[1], x[0] * y[1] + x[1] * y[0])


def rational_isometry(rng, n, d, n_rot):
    """first d columns of an n x n unitary with entries in Q[i]: product of Givens rotations; entries (re, im) Fractions"""
    U = [[(Fraction(int(i == j)), Fraction(0)) for j in range(n)] for i in range(n)]
    for _ in range(n_rot):
        if n < 2:
            ph = PHASES[int(rng.integers(len(PHASES)))]
            U = [[cmul(ph, U[0][j]) for j in range(n)]]
            continue
        p, q = (int(x) for x in rng.choice(n, size=2, replace=False))
        a, b, c = PYTH[int(rng.integers(len(PYTH)))]
        cs = (Fraction(a, c), Fraction(0))
        ph = PHASES[int(rng.integers(len(PHASES)))]
        sn = cmul((Fraction(b, c), Fraction(0)), ph)
        snc = (sn[0], -sn[1])
        # rows p, q <- [[c, -conj(s)], [s, c]] applied from the left (unitary 2x2 block)
        rp = [(cmul(cs, U[p][j])[0] - cmul(snc, U[q][j])[0], cmul(cs, U[p][j])[1] - cmul(snc, U[q][j])[1]) for j in range(n)]
        rq = [(cmul(sn, U[p][j])[0] + cmul(cs, U[q][j])[0], cmul(sn, U[p][j])[1] + cmul(cs, U[q][j])[1]) for j in range(n)]
        U[p], U[q] = rp, rq
    return [[U[i][j] for j in range(d)] for i in range(n)]


def tp_family(rng, d, r):
    """r Kraus operators d x d with sum K^dagger K = 1 exactly: (numerators as Gaussian ints, common denominator, float arrays, exact Z with Fractions)"""
    V = rational_isometry(rng, r * d, d, n_rot=int(rng.integers(2, 3 + 2 * r * d)))
    D = 1
    for row in V:
        for (x, y) in row:
            D = lcm(D, x.denominator, y.denominator)
    nums, floats, exact = [], [], []
    for k in range(r):
        nre = np.zeros((d, d), dtype=object)
        nim = np.zeros((d, d), dtype=object)
        fre = np.zeros((d, d), dtype=object)
        fim = np.zeros((d, d), dtype=object)
        fl = np.zeros((d, d), dtype=np.complex128)
        for i in range(d):
            for j in range(d):
                x, y = V[k * d + i][j]
                nre[i, j], nim[i, j] = int(x * D), int(y * D)
                fre[i, j], fim[i, j] = x, y
                fl[i, j] = complex(float(Fraction(int(x * D), D)), float(Fraction(int(y * D), D)))
        nums.append((nre, nim))
        floats.append(fl)
        exact.append(Z(fre, fim))
    return nums, D, floats, exact


def jmat_num(n):
    re, im = n
    return {"r": re.shape[0], "c": re.shape[1], "re": [int(x) for x in re.reshape(-1)], "im": [int(x) for x in im.reshape(-1)]}


def zfloat(z: Z):
    return np.vectorize(float, otypes=[float])(z.re) + 1j * np.vectorize(float, otypes=[float])(z.im)


def check_compl(ctx, d, r, real_only=False, seed=None):
    seed = int(ctx.rng.integers(1 << 62)) if seed is None else int(seed)
    rng = np.random.default_rng(seed)
    nums, D, Ks, exact = tp_family(rng, d, r)
    desc = {"fn": "complementary_channel", "d": d, "rank": r}
    ctx.case(desc, d >= 2 and r >= 2, f"complementary/d={d}/r={r}")
    info = {"case_seed": seed, "function": "complementary_channel", "args": desc, "scaled_ops": [jmat_num(n) for n in nums], "denominator": D, "theorem": "compl_entry"}
    Ks = [present(rng, k) for k in Ks]   # real-valued operators may arrive as float64/int64 next to complex ones
    snap = [k.copy() for k in Ks]
    impl = call(complementary_channel, Ks)
    model = ctx.lean().ask("c05_complementary", {"ops": [jmat_num(n) for n in nums], "scale2": D * D})
    if isinstance(model, dict) and "reject" in model:
        return not ctx.violation(f"complementary_channel: model rejects an exactly trace-preserving family ({model['reject']})", dict(info, impl=str(impl)[:200]))
    if impl[0] != "ok":
        return not ctx.violation(f"complementary_channel: implementation {impl[0]} ({impl[1]}) on an exactly trace-preserving family", info)
    C = impl[1]
    good = isinstance(C, list) and len(C) == len(model)
    if good:
        for got, m in zip(C, model):
            got = np.asarray(got)
            if got.shape != (m["r"], m["c"]):
                good = False
                break
            want = np.array([complex(float(Fraction(a, D)), float(Fraction(b, D))) for a, b in zip(m["re"], m["im"])]).reshape(m["r"], m["c"])
            if not np.array_equal(got, want):
                good = False
                break
    if not good:
        return not ctx.violation("complementary_channel: output is not the row-stacking K^c_row[i, :] = K_i[row, :] of the input operators",
                                 dict(info, impl=str(C)[:400], model=str(model)[:400]))
    if not all(np.array_equal(a, b) for a, b in zip(Ks, snap)):
        return not ctx.violation("complementary_channel: caller's arrays were modified", info)
    ok = True
    # the complement of the complement is the original family (the code accepts its own output when rank == dimension)
    if r == d:
        ctx.count("complementary/double")
        CC = call(complementary_channel, C)
        if CC[0] != "ok" or not (isinstance(CC[1], list) and len(CC[1]) == len(Ks) and all(np.array_equal(np.asarray(x), np.asarray(y)) for x, y in zip(CC[1], Ks))):
            ok = False
            ctx.violation("complementary_channel: the complement of the complement is not the original family", dict(info, theorem="compl_compl", impl=str(CC)[:300]))
    # entries Tr(K_i rho K_j^dagger), exact reference
    rho = gint(rng, (d, d), True)
    zr = Z.of(rho)
    out = call(apply_channel, rho, C)
    if out[0] != "ok" or np.asarray(out[1]).shape != (r, r):
        return not ctx.violation(f"complementary_channel: apply_channel on the returned operators fails / has shape != (rank, rank): {str(out)[:200]}", info)
    ref = np.zeros((r, r), dtype=complex)
    for i in range(r):
        for j in range(r):
            t = exact[i] @ zr @ exact[j].ct()
            ref[i, j] = complex(float(sum(t.re[a, a] for a in range(d))), float(sum(t.im[a, a] for a in range(d))))
    scale = max(1.0, float(np.max(np.abs(rho)))) * d
    if float(np.max(np.abs(out[1] - ref))) > 1e-9 * scale:
        ok = False
        ctx.violation("complementary_channel: entry (i, j) of the output differs from Tr(K_i rho K_j^dagger)", dict(info, rho=jmat(rho), diff=float(np.max(np.abs(out[1] - ref)))))
    if abs(np.trace(out[1]) - np.trace(rho)) > 1e-9 * scale:
        ok = False
        ctx.violation("complementary_channel: the complementary map does not preserve the trace", dict(info, rho=jmat(rho), theorem="compl_trace_preserving"))
    # pure input: same non-zero spectrum as Phi's output
    psi = gint(rng, (d, 1), True, 3)
    if not np.any(psi):
        psi[0, 0] = 1
    P = psi @ psi.conj().T
    y = call(apply_channel, P, Ks)
    yc = call(apply_channel, P, C)
    if y[0] != "ok" or yc[0] != "ok":
        return not ctx.violation("complementary_channel: apply_channel failed on a pure input", info)
    e1 = np.sort(np.linalg.eigvalsh((y[1] + y[1].conj().T) / 2))[::-1]
    e2 = np.sort(np.linalg.eigvalsh((yc[1] + yc[1].conj().T) / 2))[::-1]
    m = max(len(e1), len(e2))
    e1 = np.concatenate([e1, np.zeros(m - len(e1))])
    e2 = np.concatenate([e2, np.zeros(m - len(e2))])
    sc = max(1.0, float(np.real(np.trace(P))))
    herm = float(np.max(np.abs(yc[1] - yc[1].conj().T)))
    if float(np.max(np.abs(e1 - e2))) > 1e-8 * sc or herm > 1e-9 * sc:
        ok = False
        ctx.violation("complementary_channel: on a pure input the outputs of the map and of its complement have different non-zero spectra",
                      dict(info, psi=jmat(psi), spec_phi=e1.tolist(), spec_compl=e2.tolist(), theorem="compl_pure_factorisation"))
    ctx.extra["complementary_max_spectrum_gap"] = max(ctx.extra.get("complementary_max_spectrum_gap", 0.0), float(np.max(np.abs(e1 - e2))) / sc)
    return ok


def check_compl_reject(ctx, d, r, kind, seed=None):
    """families outside the domain: the guard of the implementation and the exact guard of the model agree"""
    seed = int(ctx.rng.integers(1 << 62)) if seed is None else int(seed)
    rng = np.random.default_rng(seed)
    nums, D, Ks, _ = tp_family(rng, d, r)
    if kind == "scaled":
        Ks = [2 * k for k in Ks]
        nums = [(2 * a, 2 * b) for a, b in nums]
    elif kind == "dropped":
        if r < 2:
            return True
        # dropping an operator breaks completeness unless that operator is zero
        if not np.any(np.abs(Ks[-1]) > 0.4):
            return True
        Ks, nums = Ks[:-1], nums[:-1]
    elif kind == "nonsquare":
        Ks = [np.hstack([k, np.zeros((d, 1))]) for k in Ks]
        nums = [(np.hstack([a, np.zeros((d, 1), dtype=object)]), np.hstack([b, np.zeros((d, 1), dtype=object)])) for a, b in nums]
    elif kind == "empty":
        Ks, nums = [], []
    desc = {"fn": "complementary_channel", "d": d, "rank": r, "malformed": kind}
    ctx.case(desc, False, f"complementary/malformed/{kind}")
    impl = call(complementary_channel, Ks)
    model = ctx.lean().ask("c05_complementary", {"ops": [jmat_num(n) for n in nums], "scale2": D * D})
    rej = isinstance(model, dict) and "reject" in model
    if rej != (impl[0] != "ok"):
        return not ctx.violation(f"complementary_channel: guard disagreement on a {kind} family (model {'rejects' if rej else 'accepts'}, implementation {impl[0]})",
                                 {"case_seed": seed, "function": "complementary_channel", "args": desc, "impl": str(impl)[:200], "model": str(model)[:200]})
    return True


def rand_dims2(rng, hi=4, square_p=0.5):
    if rng.random() < square_p:
        a, b = int(rng.integers(1, hi + 1)), int(rng.integers(1, hi + 1))
        return (a, a), (b, b)
    return (int(rng.integers(1, hi + 1)), int(rng.integers(1, hi + 1))), (int(rng.integers(1, hi + 1)), int(rng.integers(1, hi + 1)))

# ------------------------------------------------------------------------------------------------
# stream w5: strict floating-point error state; one array object in several positions of the list


W5_KINDS = ["dual-flat-zero-op", "dual-flat-same", "dual-pairs-same", "dual-pairs-rows-same", "dual-choi-zero", "dual-choi-rank1",
            "compl-zero-op", "compl-same", "compl-matrix-units", "compl-tp"]


def _w5_eq(a, b):
    if isinstance(a, (list, tuple)) or isinstance(b, (list, tuple)):
        return isinstance(a, (list, tuple)) and isinstance(b, (list, tuple)) and len(a) == len(b) and all(_w5_eq(x, y) for x, y in zip(a, b))
    a, b = np.asarray(a), np.asarray(b)
    return a.shape == b.shape and bool(np.array_equal(a, b))


def _w5_build(kind, rng):
    """(function, make(alias) -> (args, kwargs), description); make(True) puts ONE array object wherever make(False) puts equal copies"""
    def gi(r, c, cplx=True):
        m = rng.integers(-9, 10, size=(r, c)).astype(complex if cplx else float)
        return m + 1j * rng.integers(-9, 10, size=(r, c)) if cplx else m

    def one(x, alias):
        return x if alias else x.copy()

    do, di = int(rng.integers(1, 4)), int(rng.integers(1, 4))
    if kind == "dual-flat-zero-op":
        A, B, Zr = gi(do, di), np.outer(gi(do, 1), gi(1, di)), np.zeros((do, di), dtype=complex)
        return dual_channel, (lambda alias: (([A.copy(), Zr.copy(), B.copy()],), {})), {"shape": [do, di]}
    if kind == "dual-flat-same":
        A, B = gi(do, di), gi(do, di, False)
        return dual_channel, (lambda alias: (([one(A, alias), one(A, alias), B.copy()],), {})), {"shape": [do, di]}
    if kind == "dual-pairs-same":
        A, B, C = gi(do, di), gi(do, di), np.zeros((do, di))
        return dual_channel, (lambda alias: (([[one(A, alias), one(A, alias)], [B.copy(), C.copy()]],), {})), {"shape": [do, di]}
    if kind == "dual-pairs-rows-same":
        A, B = gi(do, di), gi(do, di)
        return dual_channel, (lambda alias: (([[one(A, alias), one(B, alias)], [one(A, alias), one(B, alias)]],), {})), {"shape": [do, di]}
    if kind in ("dual-choi-zero", "dual-choi-rank1"):
        n = do * di
        if n == 1:
            do, n = 2, 2 * di
        v = gi(n, 1)
        J = np.zeros((n, n), dtype=complex) if kind == "dual-choi-zero" else v @ v.conj().T
        return dual_channel, (lambda alias: ((J.copy(),), {"dims": [di, do]})), {"shape": [n, n], "dims": [di, do]}
    d = int(rng.integers(1, 4))
    if kind == "compl-zero-op":
        _, _, Ks, _ = tp_family(rng, d, int(rng.integers(1, 4)))
        pos = int(rng.integers(len(Ks) + 1))
        Ks = Ks[:pos] + [np.zeros((d, d), dtype=complex)] + Ks[pos:]
        return complementary_channel, (lambda alias: (([k.copy() for k in Ks],), {})), {"d": d, "rank": len(Ks), "zero_at": pos}
    if kind == "compl-same":
        U = np.zeros((d, d), dtype=complex)
        for i, j in enumerate(rng.permutation(d)):
            U[i, j] = (1, -1, 1j, -1j)[int(rng.integers(4))]
        K = U / 2
        return complementary_channel, (lambda alias: (([one(K, alias) for _ in range(4)],), {})), {"d": d, "rank": 4}
    if kind == "compl-matrix-units":
        d = max(d, 2)
        Ks = []
        for j in range(d):
            E = np.zeros((d, d))
            E[int(rng.integers(d)), j] = 1.0
            Ks.append(E)
        return complementary_channel, (lambda alias: (([k.copy() for k in Ks],), {})), {"d": d, "rank": d}
    _, _, Ks, _ = tp_family(rng, d, int(rng.integers(1, 4)))
    return complementary_channel, (lambda alias: (([k.copy() for k in Ks],), {})), {"d": d, "rank": len(Ks)}


def check_w5(ctx, kind, seed):
    rng = np.random.default_rng(int(seed))
    fn, make, d = _w5_build(kind, rng)
    name = fn.__name__
    desc = dict(d, fn="w5", kind=kind)
    ctx.case(desc, True, f"w5/{kind}")
    info = {"case_seed": int(seed), "function": name, "args": desc, "theorem": "the function's value is a function of the VALUES of its arguments (the mirror model has no global state and no object identity)"}
    a0, k0 = make(False)
    ref = call(fn, *a0, **k0)
    a1, k1 = make(False)
    st = strict_fp_call(fn, *a1, **k1)
    if ref[0] == "ok" and st[0] == "raise":
        return not ctx.violation(f"{name}: value depends on NumPy's floating-point error state (default state: a value; invalid/divide/overflow set to 'raise': {st[1]}), case {kind}", dict(info, impl=st[1]))
    if (ref[0] == "ok") != (st[0] == "ok") or (ref[0] == "ok" and not _w5_eq(ref[1], st[1])):
        return not ctx.violation(f"{name}: outcome under the strict floating-point error state differs from the default state, case {kind}", dict(info, impl=str(st)[:200], model=str(ref)[:200]))
    if kind.startswith("compl") and ref[0] != "ok":
        return not ctx.violation(f"complementary_channel: {ref[0]} ({ref[1]}) on an exactly complete family, case {kind}", info)
    if kind.endswith("same"):
        a2, k2 = make(True)
        snap = [np.array(x) for x in (itertools.chain.from_iterable(a2[0]) if isinstance(a2[0][0], list) else a2[0])]
        al = call(fn, *a2, **k2)
        now = [np.array(x) for x in (itertools.chain.from_iterable(a2[0]) if isinstance(a2[0][0], list) else a2[0])]
        if al[0] != ref[0] or (al[0] == "ok" and not _w5_eq(al[1], ref[1])) or (al[0] != "ok" and al[1].split(":")[0] != ref[1].split(":")[0]):
            return not ctx.violation(f"{name}: a list in which one array object occurs several times gives a different result than the list of equal copies, case {kind}",
                                     dict(info, impl=str(al)[:200], model=str(ref)[:200]))
        if not _w5_eq(snap, now):
            return not ctx.violation(f"{name}: the caller's arrays were modified, case {kind}", dict(info, check="purity"))
        ctx.count("w5/same-object-agree")
    ctx.count("w5/strict-fp-agree")
    return True


def w5_stream(ctx):
    srng = ctx.rng.spawn(1)[0]
    for kind in W5_KINDS:
        for _ in range(3):
            check_w5(ctx, kind, int(srng.integers(1 << 62)))


def run(ctx, model_ok=True):
    rng = ctx.rng
    quick = ctx.tier == "quick"
    # corpus
    check_dual(ctx, (2, 2), (3, 3), 2, False, True)
    check_dual(ctx, (2, 3), (3, 2), 3, False, True)
    check_dual(ctx, (3, 3), (3, 3), 3, True, True)
    check_dual(ctx, (3, 2), (3, 2), 1, False, True)      # rectangular with in = out: dims may be omitted
    check_dual(ctx, (2, 17), (2, 16), 1, False, True)    # Choi matrix 4 x 272: more than 256 columns with few rows
    check_dual(ctx, (17, 2), (16, 2), 1, False, False)   # and 272 x 4
    check_compl(ctx, 2, 2)
    check_compl(ctx, 3, 2)
    if quick:
        grid = [((a, a), (b, b), r) for a in range(1, 5) for b in range(1, 5) for r in range(1, 6)]
        rng.shuffle(grid)
        for k, (din, dout, r) in enumerate(grid):
            check_dual(ctx, din, dout, r, True, k % 4 != 3)
            check_dual(ctx, din, dout, r, False, k % 4 != 1)
        for it in range(300):
            din, dout = rand_dims2(rng, 4, 0.15)
            check_dual(ctx, din, dout, int(rng.integers(1, 6)), False, bool(rng.integers(4)))
    else:
        for a in range(1, 5):
            for b in range(1, 5):
                for r in range(1, 6):
                    for cp in (True, False):
                        for cplx in (True, False):
                            check_dual(ctx, (a, a), (b, b), r, cp, cplx)
        for di0, di1, do0, do1 in itertools.product(range(1, 5), repeat=4):
            if di0 == di1 and do0 == do1:
                continue
            for r in (1, 2, 3, 4, 5):
                check_dual(ctx, (di0, di1), (do0, do1), r, False, bool(rng.integers(4)))
        ctx.extra["exhaustive_small_space"] = "dual: full grid of square (d_in, d_out) in 1..4, rank 1..5, CP/non-CP, real/complex; all rectangular dimension quadruples in 1..4 with ranks 1..5"
    # complementary channel
    for d in range(1, 5):
        for r in range(1, 5):
            for _ in range(8 if quick else 120):
                check_compl(ctx, d, r)
    for it in range(40 if quick else 600):
        check_compl_reject(ctx, int(rng.integers(1, 4)), int(rng.integers(1, 4)), ["scaled", "dropped", "nonsquare", "empty"][it % 4])
    w5_stream(ctx)   # a fresh child of the seeded generator, spawned last: no other stream shifts
    ctx.extra["tolerances"] = {"dual": 0, "complementary structure": 0, "complementary entries / trace": "1e-9*scale", "complementary spectrum": "1e-8*scale"}


def replay(ctx, rec):
    a = rec["args"]
    sd = rec.get("case_seed")
    if a.get("fn") == "w5":
        check_w5(ctx, a["kind"], sd)
    elif a.get("fn") == "dual_channel":
        check_dual(ctx, tuple(a["din"]), tuple(a["dout"]), a["rank"], a["cp"], a["complex"], seed=sd)
    elif a.get("malformed"):
        check_compl_reject(ctx, a["d"], a["rank"], a["malformed"], seed=sd)
    else:
        check_compl(ctx, a["d"], a["rank"], seed=sd)
