"""C06: channel predicates decide by definition; built-in channels are what they claim.

Part A (predicates).  Maps with ground truth known by construction (exact rational data): Stinespring
channels cut out of exact rational isometries, unitary conjugations, convex mixtures of unitary channels,
transposition-type and signed (Hermiticity-preserving, non-positive) maps, random Gaussian-integer Kraus
families, redundant Kraus lists, and Choi matrices perturbed by 1/64 in a direction that breaks trace
preservation / Hermiticity / complete positivity.  Every map is handed to the exact Lean deciders
(`c06_decide`: the Choi matrix over Q[i] is formed by the definition J = sum vec(A) vec(B)^dagger, and
Tr_out J = 1, Tr_in J = 1, J = J^dagger are decided exactly; positive semidefiniteness is certified by a
factor L with J - L L^dagger diagonally dominant, or refuted by an explicit vector v with v^dagger J v < -margin;
rank and Choi's extremality criterion by exact elimination, proved equal to Matrix.rank: C06.rankQ_eq_rank / choiRank_exact; the extremality
decider is proved to answer true exactly for the extreme points of the set of channels: C06.extremalDecide_correct) and, rounded to doubles, to every toqito
predicate in every list / Choi form its signature documents.  Verdicts must agree.  is_extremal on list forms is additionally compared with the
mirror of its own procedure (criterion on the list as given, C06.extremalAsCoded_correct / extremalAsCoded_dependent).

Part A' (tolerance arithmetic).  Exactly representable channels (signed permutations, their mixtures and Stinespring cuts) whose Choi matrix is moved in
one entry (pair) by delta = tau (1 - 1/8) or tau (1 + 1/4), tau = atol + rtol |b| the np.allclose threshold at that entry, for seven (rtol, atol) settings
passed positionally or by keyword (or not at all); paired lists [[K, (1 + delta) K]]; Hermitian matrices with an exact rational eigenbasis whose smallest
eigenvalue is -|atol| (1 -+ 1/16).  Oracle: the exact two-valued mirror of the tolerance tests (`c06_close`: np.allclose decided on the rationals,
C06.allclose_mirror; eigenvalue test by certificates, C06.psdTolV_yes_imp / psdTolV_no_imp), used only where its answer is the same at (1 -+ 1/64) x tolerances.

Part B (constructors).  depolarizing, dephasing, reduction, choi, amplitude_damping, phase_damping, bitflip,
pauli_channel over parameter grids (end points, interior, just outside the documented range) and dims 2..4
(1-2 qubits): returned Choi matrix / Kraus list / applied output against the Lean closed forms evaluated at
the exact rational parameter (tolerance 1e-12; exact equality where the data are integers), agreement of the
Kraus, Choi and direct-application forms on Gaussian-integer inputs, rejections as an enum, and the textbook
properties asked of toqito's own predicates on the returned objects.
"""
from __future__ import annotations

import warnings
from fractions import Fraction
from math import isqrt, lcm

import numpy as np

from ..exact import Pure, case_rng, describe, present_nd, present_obj
from toqito.channel_ops import apply_channel, kraus_to_choi
from toqito.channel_props import (choi_rank, is_completely_positive, is_extremal, is_herm_preserving, is_positive,
                                  is_quantum_channel, is_trace_preserving, is_unital, is_unitary)
from toqito.channels import amplitude_damping, bitflip, dephasing, depolarizing, pauli_channel, phase_damping, reduction
from toqito.channels import choi as choi_map

RULE = ("Predicates: ground-truth maps with exact rational data — Stinespring channels from exact rational isometries (products of Pythagorean Givens "
        "rotations with unit Gaussian-rational phases; d_in, d_out in 2..4 incl. d_in != d_out, 1..3 Kraus operators), unitary conjugations, convex mixtures "
        "of unitary channels (square-rational weights for the Kraus forms, dyadic weights for the Choi form), transposition-type maps U X^T U^dagger, signed "
        "maps sum s_k K_k X K_k^dagger with an explicit product-vector witness of non-positivity, random Gaussian-integer Kraus families and pairs (A != B), "
        "redundant Kraus lists (duplicated / zero operators), and the same Choi matrices perturbed by 1/64 so that trace preservation, Hermiticity or "
        "complete positivity fails by a margin; each asked of is_herm_preserving, is_completely_positive, is_positive, is_trace_preserving, is_unital, "
        "is_unitary, is_quantum_channel, choi_rank, is_extremal in every documented form (flat / column / row / paired list, Choi matrix with dim where "
        "d_in != d_out). A predicate case is non-trivial when both spaces have dimension >= 2 and the Lean verdict is decided (yes/no with margin); "
        "distinct = hash of (predicate, form, kind, dims, seed-derived data). Constructors: every (constructor, dimension, parameter) point of the grids "
        "below incl. end points and just-outside values; non-trivial = parameter strictly inside the range or dimension >= 3. "
        "Tolerance stream: every (base map, perturbation kind in none / tp-diag / tp-off / unital-off / herm-off / herm-diag / pairs-scale / psd-boundary, side "
        "inside / outside, (rtol, atol) setting, predicate) combination; non-trivial when the exact mirror is decided with the 1/64 margin; distinct = that tuple plus the seed. "
        "Presentation: every ndarray handed to a toqito function (each operator of a Kraus list independently, Choi matrices, input operators X, also the "
        "objects returned by the constructors when they are passed on) is a re-presentation of the same values determined by the case (C / Fortran / strided / "
        "permuted-stride layout; zero imaginary part also as float64, integer values also as int64), so lists mix dtypes and layouts; after every call the "
        "arguments are compared with a deep snapshot (arrays, list objects, elements).")
ASSUMPTIONS = [
    "toqito receives the double rounding of the exact rational data handed to the Lean deciders (relative error 2^-53 per entry, far below rtol=1e-5/atol=1e-8); verdicts are compared only when the exact decider says yes (relation holds exactly / certified) or no (violated by >= 100*(atol+rtol*scale), or an explicit negative witness with that margin)",
    "is_unitary / is_extremal / choi_rank decide through floating-point ranks: generated maps of rank >= 2 have their non-zero Choi eigenvalues >= 1e-3 (weights >= 1/64 on orthogonal or generic operators), except the weak-damping family (amplitude damping with gamma = 1.5e-5, 4e-6, 1e-6 between rational unitaries; non-zero Choi eigenvalues >= 1e-6 and smallest singular value of the extremality criterion matrix >= 500 * tol, tol = 1e-9); choi_rank is only asked on inputs whose double image is exact (integers, dyadic rationals)",
    "extremality: proved, not assumed (C06.extremalDecide_correct: the exact decider answers true iff the channel is an extreme point of the convex set of channels; Choi's theorem C06.extreme_iff_kraus_products_independent); the only assumption left is numerical: toqito's floating-point rank of the criterion matrix equals the exact rank on the generated maps (margins above)",
    "tolerance stream: toqito evaluates |a - b| <= atol + rtol |b| in double precision on the double rounding of the exact data; the generated cases keep a relative distance >= 1/64 from the threshold (>= 6e-11 absolute for the eigenvalue test), far above the rounding errors (1e-16 relative); eigenvalue tests whose threshold -|atol| is within 1e-10 of an exact eigenvalue 0 are not compared",
    "constructors with irrational square roots are compared at tolerance 1e-12 with the Lean closed form at rational roots (parameters gamma, p in {a^2/c^2}) or through their squared entries",
]

F0, F1 = Fraction(0), Fraction(1)
LIST_FORMS = ("flat", "column", "row", "pairs")
FAMILY_CAP = 3  # at most this many reports per defect family and run

# ------------------------------------------------------------------------------------------------ exact matrices


class Q:
    """exact complex rational matrix (object arrays of Fractions)"""

    def __init__(self, re, im):
        self.re, self.im = re, im

    @staticmethod
    def zeros(r, c):
        re = np.empty((r, c), dtype=object)
        im = np.empty((r, c), dtype=object)
        re[...] = F0
        im[...] = F0
        return Q(re, im)

    @staticmethod
    def eye(n):
        q = Q.zeros(n, n)
        for i in range(n):
            q.re[i, i] = F1
        return q

    @staticmethod
    def unit(r, c, i, j, val=(F1, F0)):
        q = Q.zeros(r, c)
        q.re[i, j], q.im[i, j] = Fraction(val[0]), Fraction(val[1])
        return q

    @staticmethod
    def of_int(a):
        a = np.asarray(a)
        q = Q.zeros(*a.shape)
        for i in range(a.shape[0]):
            for j in range(a.shape[1]):
                z = complex(a[i, j])
                q.re[i, j], q.im[i, j] = Fraction(int(round(z.real))), Fraction(int(round(z.imag)))
        return q

    @staticmethod
    def of_pairs(rows):
        q = Q.zeros(len(rows), len(rows[0]))
        for i, row in enumerate(rows):
            for j, (x, y) in enumerate(row):
                q.re[i, j], q.im[i, j] = Fraction(x), Fraction(y)
        return q

    @staticmethod
    def of_float(a):
        a = np.asarray(a, dtype=complex)
        if a.ndim == 1:
            a = a.reshape(-1, 1)
        q = Q.zeros(*a.shape)
        for i in range(a.shape[0]):
            for j in range(a.shape[1]):
                q.re[i, j], q.im[i, j] = Fraction(float(a[i, j].real)), Fraction(float(a[i, j].imag))
        return q

    @property
    def shape(self):
        return self.re.shape

    def copy(self):
        return Q(self.re.copy(), self.im.copy())

    def __add__(self, o):
        return Q(self.re + o.re, self.im + o.im)

    def __sub__(self, o):
        return Q(self.re - o.re, self.im - o.im)

    def __matmul__(self, o):
        return Q(self.re.dot(o.re) - self.im.dot(o.im), self.re.dot(o.im) + self.im.dot(o.re))

    def scale(self, x, y=F0):
        x, y = Fraction(x), Fraction(y)
        return Q(self.re * x - self.im * y, self.re * y + self.im * x)

    def H(self):
        return Q(self.re.T.copy(), -self.im.T)

    def T(self):
        return Q(self.re.T.copy(), self.im.T.copy())

    def eq(self, o):
        return self.shape == o.shape and bool(np.all(self.re == o.re)) and bool(np.all(self.im == o.im))

    def to_float(self):
        f = np.vectorize(float, otypes=[float])
        return f(self.re) + 1j * f(self.im)

    def to_real_or_complex(self):
        a = self.to_float()
        return a.real.copy() if not np.any(self.im != 0) else a

    def is_float_exact(self):
        return all(Fraction(float(x)) == x for x in self.re.reshape(-1)) and all(Fraction(float(x)) == x for x in self.im.reshape(-1))

    def maxabs(self):
        return max([abs(x) for x in self.re.reshape(-1)] + [abs(x) for x in self.im.reshape(-1)] + [F0])

    def json(self):
        d = 1
        for x in list(self.re.reshape(-1)) + list(self.im.reshape(-1)):
            d = lcm(d, Fraction(x).denominator)
        return {"r": self.shape[0], "c": self.shape[1], "den": d, "re": [int(x * d) for x in self.re.reshape(-1)],
                "im": [int(x * d) for x in self.im.reshape(-1)]}

    @staticmethod
    def from_json(m):
        q = Q.zeros(m["r"], m["c"])
        d = m["den"]
        im = m.get("im") or [0] * (m["r"] * m["c"])
        for t in range(m["r"] * m["c"]):
            q.re[t // m["c"], t % m["c"]] = Fraction(m["re"][t], d)
            q.im[t // m["c"], t % m["c"]] = Fraction(im[t], d)
        return q


def hcat(cols):
    r = cols[0].shape[0]
    q = Q.zeros(r, sum(c.shape[1] for c in cols))
    k = 0
    for c in cols:
        q.re[:, k:k + c.shape[1]] = c.re
        q.im[:, k:k + c.shape[1]] = c.im
        k += c.shape[1]
    return q


def vec(K: Q) -> Q:
    """vec(K)[i*d_out + a] = K[a, i]"""
    return Q(K.re.T.reshape(-1, 1).copy(), K.im.T.reshape(-1, 1).copy())


def choi_of(As, Bs) -> Q:
    J = None
    for A, B in zip(As, Bs):
        t = vec(A) @ vec(B).H()
        J = t if J is None else J + t
    return J


def max_dev(impl, exact: Q) -> float:
    """max entry deviation |impl - exact| of a float array from an exact matrix (computed exactly)"""
    a = np.asarray(impl, dtype=complex)
    if a.shape != exact.shape:
        return float("inf")
    m = F0
    for i in range(a.shape[0]):
        for j in range(a.shape[1]):
            m = max(m, abs(Fraction(float(a[i, j].real)) - exact.re[i, j]), abs(Fraction(float(a[i, j].imag)) - exact.im[i, j]))
    return float(m)


def call(fn, *a, **k):
    try:
        with warnings.catch_warnings():
            warnings.simplefilter("ignore")
            return ("ok", fn(*a, **k))
    except ValueError as e:
        return ("ValueError", str(e)[:200])
    except Exception as e:  # noqa: BLE001
        return (type(e).__name__, str(e)[:200])


def pcall(ctx, prng, fn, *a, info=None, **k):
    """call(fn, ...) on re-presentations of the ndarray arguments (nested lists element-wise), with the purity assertion"""
    pa = present_obj(prng, tuple(a))
    guard = Pure(*pa, **k)
    res = call(fn, *pa, **k)
    why = guard.modified()
    if why:
        ctx.violation(f"{fn.__name__}: caller's arguments were modified", {"function": fn.__name__, "modified": why, "presentation": describe(list(pa)), **(info or {})})
    return res


# ------------------------------------------------------------------------------------------------ exact unitaries / isometries

PYTH = [(3, 4, 5), (5, 12, 13), (8, 15, 17), (4, 3, 5), (12, 5, 13)]
PHASES = [(F1, F0), (F0, F1), (-F1, F0), (F0, -F1), (Fraction(3, 5), Fraction(4, 5)), (Fraction(-5, 13), Fraction(12, 13)), (Fraction(4, 5), Fraction(-3, 5))]


def cmul(x, y):
    return (x[0] * y[0] - x[1] * y[1], x[0] * y[1] + x[1] * y[0])


def rational_unitary(rng, n, n_rot, dyadic=False, real=False) -> Q:
    """n x n unitary with entries in Q[i]: product of Givens rotations (Pythagorean cos/sin) and unit phases;
    dyadic=True: signed permutation with phases in {1, i, -1, -i} (entries exactly representable);
    real=True: phases +-1 only (a real orthogonal matrix)"""
    def phase(k):
        ph = PHASES[int(rng.integers(k))]
        return ((F1 if ph[0] + ph[1] >= 0 else -F1), F0) if real else ph

    if dyadic:
        U = Q.zeros(n, n)
        perm = rng.permutation(n)
        for i in range(n):
            ph = phase(4)
            U.re[i, int(perm[i])], U.im[i, int(perm[i])] = ph
        return U
    U = [[(Fraction(int(i == j)), F0) for j in range(n)] for i in range(n)]
    for _ in range(n_rot):
        if n < 2:
            ph = phase(len(PHASES))
            U = [[cmul(ph, U[0][0])]]
            continue
        p, q = (int(x) for x in rng.choice(n, size=2, replace=False))
        a, b, c = PYTH[int(rng.integers(len(PYTH)))]
        cs = (Fraction(a, c), F0)
        ph = phase(len(PHASES))
        sn = cmul((Fraction(b, c), F0), ph)
        snc = (sn[0], -sn[1])
        rp = [(cmul(cs, U[p][j])[0] - cmul(snc, U[q][j])[0], cmul(cs, U[p][j])[1] - cmul(snc, U[q][j])[1]) for j in range(n)]
        rq = [(cmul(sn, U[p][j])[0] + cmul(cs, U[q][j])[0], cmul(sn, U[p][j])[1] + cmul(cs, U[q][j])[1]) for j in range(n)]
        U[p], U[q] = rp, rq
    return Q.of_pairs(U)


def four_squares(n: int):
    """n = a^2 + b^2 + c^2 + d^2 (brute force, small n)"""
    for a in range(isqrt(n), -1, -1):
        ra = n - a * a
        for b in range(min(a, isqrt(ra)), -1, -1):
            rb = ra - b * b
            for c in range(min(b, isqrt(rb)), -1, -1):
                d2 = rb - c * c
                d = isqrt(d2)
                if d * d == d2:
                    return [x for x in (a, b, c, d) if x]
    raise AssertionError


def sqrt_columns(w: Fraction, v: Q):
    """columns c_i * v with sum c_i^2 = w (exact): w = n/m^2 with n a sum of four squares"""
    w = Fraction(w)
    m = w.denominator
    n = w.numerator * m  # w = n / m^2
    return [v.scale(Fraction(s, m)) for s in four_squares(n)]


# ------------------------------------------------------------------------------------------------ ground-truth maps


class GT:
    """a map with exact data: Kraus pairs (As, Bs) when available, exact Choi matrix J, certificates"""

    def __init__(self, kind, di, do, As=None, Bs=None, J=None, L=None, v=None, cp_list=False, product_witness=False, note=None):
        self.kind, self.di, self.do = kind, di, do
        self.As, self.Bs = As, Bs
        self.cp_list = cp_list  # the list denotes sum K X K^dagger (one operator list)
        self.J = J if J is not None else choi_of(As, Bs)
        self.L, self.v = L, v
        self.product_witness = product_witness
        self.note = note

    def desc(self):
        return {"kind": self.kind, "di": self.di, "do": self.do, "n_ops": None if self.As is None else len(self.As), "note": self.note}


def gt_stinespring(rng, di, do, r):
    V = rational_unitary(rng, r * do, int(rng.integers(r * do, 2 * r * do + 1)))
    Ks = [Q(V.re[k * do:(k + 1) * do, :di].copy(), V.im[k * do:(k + 1) * do, :di].copy()) for k in range(r)]
    return GT("stinespring", di, do, Ks, Ks, L=hcat([vec(K) for K in Ks]), cp_list=True)


def gt_unitary(rng, d, dyadic=False):
    U = rational_unitary(rng, d, int(rng.integers(d, 2 * d + 2)), dyadic)
    return GT("unitary" + ("-dyadic" if dyadic else ""), d, d, [U], [U], L=vec(U), cp_list=True)


SQ_WEIGHTS = [[Fraction(9, 25), Fraction(16, 25)], [Fraction(25, 169), Fraction(144, 169)], [Fraction(1, 4)] * 4, [Fraction(1, 9), Fraction(4, 9), Fraction(4, 9)],
              [Fraction(1, 4), Fraction(9, 100), Fraction(16, 25), Fraction(1, 50)]]


def distinct_unitaries(rng, d, m, dyadic, real_first=False):
    Us = []
    for _ in range(200):
        U = rational_unitary(rng, d, int(rng.integers(d, 2 * d + 2)), dyadic, real=real_first and not Us)
        # pairwise non-proportional: |tr(U^dagger V)| < d  <=>  |tr|^2 < d^2
        ok = True
        for W in Us:
            t = W.H() @ U
            tr = (sum(t.re[i, i] for i in range(d)), sum(t.im[i, i] for i in range(d)))
            if tr[0] ** 2 + tr[1] ** 2 >= Fraction(d * d) * Fraction(9, 10):
                ok = False
        if ok:
            Us.append(U)
        if len(Us) == m:
            return Us
    return None


def gt_mixture_sq(rng, d, dyadic=False, real_first=False):
    """real_first: the first Kraus operator is real-valued (a real orthogonal matrix) and at least one other is not, so the list
    mixes real and complex operators (and, after re-presentation, float64 / int64 and complex128 dtypes) with a real one in front"""
    ws = [w for w in SQ_WEIGHTS if not dyadic or all((x.denominator & (x.denominator - 1)) == 0 for x in w)]
    w = ws[int(rng.integers(len(ws)))]
    w = [x for x in w if x > Fraction(1, 60)]
    tot = sum(w)
    if tot != 1:
        return None
    Us = distinct_unitaries(rng, d, len(w), dyadic, real_first)
    if Us is None or (real_first and all(not np.any(U.im != 0) for U in Us)):
        return None
    roots = []
    for x in w:
        a, b = isqrt(x.numerator), isqrt(x.denominator)
        if a * a != x.numerator or b * b != x.denominator:
            return None
        roots.append(Fraction(a, b))
    Ks = [U.scale(s) for U, s in zip(Us, roots)]
    return GT("mixture-sq" + ("-dyadic" if dyadic else "") + ("-real-first" if real_first else ""), d, d, Ks, Ks, L=hcat([vec(K) for K in Ks]), cp_list=True)


def gt_mixture_dyadic(rng, d):
    """Choi form only: dyadic weights a/64"""
    m = int(rng.integers(2, 4))
    cuts = sorted(int(x) for x in rng.choice(np.arange(1, 32), size=m - 1, replace=False))
    parts = [b - a for a, b in zip([0] + cuts, cuts + [32])]
    w = [Fraction(p, 32) for p in parts]
    Us = distinct_unitaries(rng, d, m, False)
    if Us is None:
        return None
    J = None
    cols = []
    for x, U in zip(w, Us):
        t = (vec(U) @ vec(U).H()).scale(x)
        J = t if J is None else J + t
        cols += sqrt_columns(x, vec(U))
    return GT("mixture-dyadic", d, d, None, None, J=J, L=hcat(cols))


def gt_transpose(rng, d):
    U = rational_unitary(rng, d, int(rng.integers(d, 2 * d + 1)))
    As, Bs = [], []
    for i in range(d):
        for j in range(d):
            As.append(U @ Q.unit(d, d, i, j))
            Bs.append(U @ Q.unit(d, d, j, i))
    return GT("transpose", d, d, As, Bs)


def gt_signed(rng, di, do):
    """sum_k s_k K_k X K_k^dagger with a product-vector witness x, y: <y|Phi(|x><x|)|y> < 0"""
    base = gt_stinespring(rng, di, do, 2 if 2 * do >= di else 3)
    Ks = base.As
    signs = [F1] + [-Fraction(int(rng.integers(2, 5)))] * (len(Ks) - 1)
    As = list(Ks)
    Bs = [K.scale(s) for K, s in zip(Ks, signs)]
    g = GT("signed", di, do, As, Bs)
    # witness search over small integer vectors
    best = None
    for _ in range(60):
        x = Q.of_int(rng.integers(-2, 3, size=(di, 1)) + 1j * rng.integers(-2, 3, size=(di, 1)))
        if not (np.any(x.re != 0) or np.any(x.im != 0)):
            continue
        for K in Ks[1:]:
            y = K @ x
            if not (np.any(y.re != 0) or np.any(y.im != 0)):
                continue
            val = F0
            for K2, s in zip(Ks, signs):
                t = y.H() @ (K2 @ x)
                val += s * (t.re[0, 0] ** 2 + t.im[0, 0] ** 2)
            nx = sum(a * a for a in x.re.reshape(-1)) + sum(a * a for a in x.im.reshape(-1))
            ny = sum(a * a for a in y.re.reshape(-1)) + sum(a * a for a in y.im.reshape(-1))
            if val < -Fraction(1, 50) * nx * ny and (best is None or val / (nx * ny) < best[0]):
                best = (val / (nx * ny), x, y)
    if best is None:
        return None
    _, x, y = best
    # v[(i,a)] = conj(x_i) y_a
    v = Q.zeros(di * do, 1)
    for i in range(di):
        for a in range(do):
            z = cmul((x.re[i, 0], -x.im[i, 0]), (y.re[a, 0], y.im[a, 0]))
            v.re[i * do + a, 0], v.im[i * do + a, 0] = z
    g.v = v
    g.product_witness = True
    return g


def gt_random_int(rng, di, do, r, cp, mix=False):
    lim = 3
    def g():
        while True:
            a = rng.integers(-lim, lim + 1, size=(do, di)) + 1j * rng.integers(-lim, lim + 1, size=(do, di))
            if np.any(a != 0):
                return Q.of_int(a)
    As = [g() for _ in range(r)]
    if mix:
        # the first operator is real-valued next to complex ones (mixed real / complex lists and pairs)
        while not np.any(As[0].re != 0):
            As[0] = g()
        As[0] = Q(As[0].re, As[0].im * 0)
    if cp:
        return GT("int-cp", di, do, As, As, L=hcat([vec(K) for K in As]), cp_list=True)
    Bs = [g() for _ in range(r)]
    return GT("int-pairs", di, do, As, Bs)


def gt_neg_unitary(rng, d, dyadic=False):
    """X -> -U X U^dagger as the pair [[U, -U]]: Hermiticity preserving, trace preserving up to sign only, Choi matrix -vec(U)vec(U)^dagger of
    rank one (the branch of is_unitary that compares the two operators of a single pair)"""
    U = rational_unitary(rng, d, int(rng.integers(d, 2 * d + 2)), dyadic)
    return GT("neg-unitary" + ("-dyadic" if dyadic else ""), d, d, [U], [U.scale(-1)], v=vec(U))


def gt_planted_rank(rng, di, do, r, extra):
    """integer CP family with `extra` operators that are integer combinations of the first r"""
    base = gt_random_int(rng, di, do, r, True).As
    more = []
    for _ in range(extra):
        c = rng.integers(-2, 3, size=r)
        if not np.any(c):
            c[0] = 1
        K = Q.zeros(do, di)
        for ci, B in zip(c, base):
            K = K + B.scale(int(ci))
        more.append(K)
    Ks = base + more
    return GT("int-planted", di, do, Ks, Ks, L=hcat([vec(K) for K in Ks]), cp_list=True, note=f"r={r}+{extra}")


def gt_redundant(rng, d, how):
    """an extremal channel (unitary, or a rank-2 Stinespring channel) written with a redundant Kraus list"""
    if how == "unitary-split":
        U = rational_unitary(rng, d, int(rng.integers(d, 2 * d + 1)))
        Ks = [U.scale(Fraction(3, 5)), U.scale(Fraction(4, 5))]
        return GT("redundant-unitary", d, d, Ks, Ks, L=hcat([vec(K) for K in Ks]), cp_list=True)
    base = gt_stinespring(rng, d, d, 2)
    Ks = base.As + [Q.zeros(d, d)]
    return GT("redundant-zero-op", d, d, Ks, Ks, L=base.L, cp_list=True)


def gt_weak_damping(rng, d, n):
    """amplitude damping with a tiny rational damping amplitude s = 2n/(n^2+1), c = (n^2-1)/(n^2+1) (so gamma = s^2 ~ 4/n^2), between
    rational unitaries: an extremal channel whose criterion matrix has its smallest singular value ~ 0.7 gamma - tiny, yet >= 500 * tol
    for the n used here (tol = 1e-9 is is_extremal's default)"""
    c, sn = Fraction(n * n - 1, n * n + 1), Fraction(2 * n, n * n + 1)
    K0, K1 = Q.eye(d), Q.zeros(d, d)
    K0.re[1, 1] = c
    K1.re[0, 1] = sn
    U = rational_unitary(rng, d, int(rng.integers(d, 2 * d + 1)))
    V = rational_unitary(rng, d, int(rng.integers(d, 2 * d + 1)))
    Ks = [U @ K0 @ V, U @ K1 @ V]
    return GT("weak-damping", d, d, Ks, Ks, L=hcat([vec(K) for K in Ks]), cp_list=True, note=f"n={n}")


def perturb(rng, base: GT, what):
    """Choi-form perturbation by eps = 1/64 of a CPTP base map"""
    di, do = base.di, base.do
    N = di * do
    eps = Fraction(1, 64)
    J = base.J.copy()
    if what == "tp":
        p = int(rng.integers(N))
        J.re[p, p] += eps
        e = Q.unit(N, 1, p, 0, (Fraction(1, 8), F0))
        return GT("perturbed-tp", di, do, J=J, L=hcat([base.L, e]))
    if what == "herm":
        i, j = int(rng.integers(di)), int(rng.integers(di))
        a, b = (int(x) for x in rng.choice(do, size=2, replace=False))
        p, q = i * do + a, j * do + b
        if rng.integers(2):
            J.re[p, q] += eps
        else:
            J.im[p, q] += eps
            J.im[q, p] += eps
        return GT("perturbed-herm", di, do, J=J)
    if what == "hermdiag":
        # the only departure from Hermiticity sits on the diagonal of the Choi matrix (an imaginary diagonal entry)
        p = int(rng.integers(N))
        J.im[p, p] += eps
        if rng.integers(2):
            q = int((p + 1 + rng.integers(N - 1)) % N)
            J.im[q, q] -= eps
        return GT("perturbed-hermdiag", di, do, J=J)
    if what == "cp":
        i = int(rng.integers(di))
        a, b = (int(x) for x in rng.choice(do, size=2, replace=False))
        c = F1 + eps
        J.re[i * do + a, i * do + a] -= c
        J.re[i * do + b, i * do + b] += c
        return GT("perturbed-cp", di, do, J=J, v=Q.unit(N, 1, i * do + a, 0))
    raise AssertionError(what)


def float_witness(J: Q):
    """untrusted: rounded eigenvector of the smallest eigenvalue of the Hermitian part (checked exactly in Lean)"""
    A = J.to_float()
    w, V = np.linalg.eigh((A + A.conj().T) / 2)
    v = V[:, 0]
    s = 1 << 16
    q = Q.zeros(len(v), 1)
    for i, z in enumerate(v):
        q.re[i, 0], q.im[i, 0] = Fraction(int(round(z.real * s)), s), Fraction(int(round(z.imag * s)), s)
    return q


# ------------------------------------------------------------------------------------------------ predicate correspondence


def list_forms(g: GT):
    """documented list forms -> (python object of float arrays, Lean JSON)"""
    out = {}
    if g.As is None:
        return out
    fa = [K.to_real_or_complex() if rk else K.to_float() for K, rk in zip(g.As, _realflags(g.As))]
    ja = [K.json() for K in g.As]
    r = len(fa)
    if g.cp_list:
        out["flat"] = (list(fa), {"tag": "flat", "ops": ja})
        out["column"] = ([[k] for k in fa], {"tag": "nested", "ops": [[k] for k in ja]})
        if r > 2:
            out["row"] = ([list(fa)], {"tag": "nested", "ops": [ja]})
        out["pairs"] = ([[k, k] for k in fa], {"tag": "nested", "ops": [[k, k] for k in ja]})
    else:
        fb = [K.to_float() for K in g.Bs]
        jb = [K.json() for K in g.Bs]
        out["pairs"] = ([[a, b] for a, b in zip(fa, fb)], {"tag": "nested", "ops": [[a, b] for a, b in zip(ja, jb)]})
    return out


def _realflags(Ks):
    # real-valued operator lists are passed as float64 arrays for some maps (dtype branch), complex otherwise
    allreal = all(not np.any(K.im != 0) for K in Ks)
    return [allreal] * len(Ks)


def and3(a, b):
    if a == "no" or b == "no":
        return "no"
    if a == "yes" and b == "yes":
        return "yes"
    return "unknown"


class Tally:
    def __init__(self):
        self.fam = {}


def report_family(ctx, tally, fam, what, info):
    tally.fam[fam] = tally.fam.get(fam, 0) + 1
    ctx.count("defect-family/" + fam)
    if tally.fam[fam] <= FAMILY_CAP:
        ctx.violation(what, dict(info, family=fam))


def check_pred(ctx, tally, g: GT, seed, form, fn, args, kwargs, verdict, theorem, extra=None):
    """one predicate call against a Lean verdict ('yes'/'no'/'unknown')"""
    name = fn.__name__
    dims = f"{g.di}->{g.do}"
    desc = {"predicate": name, "form": form, **g.desc(), "seed": seed, "kwargs": {k: (v if not isinstance(v, np.ndarray) else v.tolist()) for k, v in kwargs.items()}}
    if verdict == "unknown":
        ctx.count(f"undecided/{name}")
        return
    ctx.case(desc, g.di >= 2 and g.do >= 2, f"{name}/{form}/{g.kind}/{'in=out' if g.di == g.do else 'in!=out'}/{verdict}")
    prng = case_rng("c06/pred", seed, name, form, g.kind, g.di, g.do, sorted(kwargs), getattr(g, "gen", None))
    pargs = present_obj(prng, tuple(args))     # same values, another presentation (each array of a list independently)
    guard = Pure(*pargs, **kwargs)
    res = call(fn, *pargs, **kwargs)
    want = verdict == "yes"
    info = {"function": name, "form": form, "kind": g.kind, "di": g.di, "do": g.do, "case_seed": seed, "gen": g.gen, "args": desc,
            "choi": g.J.json(), "impl": str(res)[:300], "model": verdict, "theorem": theorem, "n_ops": None if g.As is None else len(g.As),
            "presentation": describe(list(pargs))}
    if extra:
        info.update(extra)
    why = guard.modified()
    if why:
        ctx.violation(f"{name}: caller's arguments were modified", dict(info, modified=why))
    if res[0] != "ok":
        fam = classify(info, res)
        msg = f"{name}[{form}] on a {g.kind} map {dims}: raises {res[0]} ({res[1][:80]}); the exact decider says {verdict}"
        if fam:
            report_family(ctx, tally, fam, msg, info)
        else:
            ctx.violation(msg, info)
        return
    got = bool(res[1])
    if got != want:
        fam = classify(info, res)
        msg = f"{name}[{form}] on a {g.kind} map {dims}: returns {got}; the exact decider says {verdict} ({theorem})"
        if fam:
            report_family(ctx, tally, fam, msg, info)
        else:
            ctx.violation(msg, info)


def classify(info, res):
    """the one understood defect family (reported at most FAMILY_CAP times per run; recorded as a known finding):
    is_extremal applies Choi's rank criterion to the Kraus list as given, so a linearly dependent list (exact rank <
    length, incl. zero operators) of an extremal channel is answered False.  Nothing else is classified."""
    fn, form = info["function"], info["form"]
    if (fn == "is_extremal" and form in ("flat", "column", "row") and info.get("redundant") is True and info["model"] == "yes"
            and res[0] == "ok" and res[1] is not None and not bool(res[1])):
        return "extremal-redundant-kraus"
    return None


def matchers(ctx):
    ctx.matchers["c06-extremal-redundant-kraus"] = lambda info: (info.get("family") == "extremal-redundant-kraus" and info.get("function") == "is_extremal"
                                                                   and info.get("form") in ("flat", "column", "row") and info.get("redundant") is True
                                                                   and info.get("model") == "yes" and "False" in str(info.get("impl")))


def lean_report(ctx, g: GT, form, phi_json):
    args = {"form": "kraus", "phi": phi_json} if form != "choi" else {"form": "choi", "di": g.di, "do": g.do, "J": g.J.json()}
    if g.L is not None:
        args["L"] = g.L.json()
    if g.v is not None:
        args["v"] = g.v.json()
    return ctx.lean().ask("c06_decide", args)


def check_map(ctx, tally, g: GT, seed, with_choi=True):
    """all predicates, all documented forms, for one ground-truth map"""
    di, do = g.di, g.do
    forms = list_forms(g)
    if with_choi:
        forms["choi"] = (g.J.to_real_or_complex() if not np.any(g.J.im != 0) and seed % 2 else g.J.to_float(), None)
    exact_float = g.J.is_float_exact() and (g.As is None or all(K.is_float_exact() for K in g.As + (g.Bs or [])))
    first = None
    for form, (obj, pj) in forms.items():
        rep = lean_report(ctx, g, form, pj)
        if "reject" in rep:
            ctx.violation(f"model rejects a well-formed {g.kind} map in form {form}: {rep}", {"function": "c06_decide", "kind": g.kind, "case_seed": seed, "gen": g.gen})
            continue
        if g.v is None and rep["hp"] == "yes" and rep["psd"] == "unknown":
            # no certificate either way yet: try a rounded eigenvector as negative witness
            g.v = float_witness(g.J)
            rep = lean_report(ctx, g, form, pj)
        if first is None:
            first = rep
        else:
            # the map does not depend on the list form
            same = all(rep[k] == first[k] for k in ("di", "do", "hp", "psd", "tp", "unital", "unitary", "rank", "extremal"))
            if not same:
                ctx.violation(f"model: verdicts depend on the list form ({form})", {"function": "c06_decide", "kind": g.kind, "case_seed": seed, "gen": g.gen, "a": first, "b": rep})
        is_list = form != "choi"
        hp, psd, tp, un, uni = rep["hp"], rep["psd"], rep["tp"], rep["unital"], rep["unitary"]
        cp = and3(hp, psd)
        redundant = is_list and g.cp_list and len(g.As) > rep["rank"]
        ex = {"redundant": redundant, "lean": rep}
        if is_list and "tp_pairs" in rep and rep["tp_pairs"] != tp and "unknown" not in (tp, rep["tp_pairs"]):
            ctx.violation("model: sum A^dagger B = 1 and Tr_out J = 1 disagree", {"function": "c06_decide", "kind": g.kind, "case_seed": seed, "gen": g.gen, "lean": rep})
        # --- Hermiticity preserving, completely positive
        check_pred(ctx, tally, g, seed, form, is_herm_preserving, (obj,), {}, hp, "hp_iff_choi_hermitian / hpV_yes_iff", ex)
        check_pred(ctx, tally, g, seed, form, is_completely_positive, (obj,), {}, cp, "cp_iff_choi_psd / psdV_yes_imp / psdV_no_imp", ex)
        # --- positivity: one-sided
        if cp == "yes":
            check_pred(ctx, tally, g, seed, form, is_positive, (obj,), {}, "yes", "cp_implies_positive", ex)
        elif g.product_witness and psd == "no":
            check_pred(ctx, tally, g, seed, form, is_positive, (obj,), {}, "no", "not_positive_of_product_witness", ex)
        # --- trace preserving: paired lists and Choi matrices only
        if form == "pairs":
            check_pred(ctx, tally, g, seed, form, is_trace_preserving, (obj,), {}, tp, "pairMap_tp_iff", ex)
        elif form == "choi":
            kw = {} if di == do else {"dim": [di, do]}
            check_pred(ctx, tally, g, seed, form, is_trace_preserving, (obj,), kw, tp, "tp_iff_ptrace_choi / tpV_yes_iff", ex)
            if di == do and seed % 3 == 0:
                check_pred(ctx, tally, g, seed, form, is_trace_preserving, (obj,), {"dim": [di, do], "sys": 2}, tp, "tp_iff_ptrace_choi", ex)
        # --- unital
        kw = {}
        if form == "choi" and di != do:
            kw = {"dim": [di, do]} if seed % 2 else {"dim": [[di, do], [di, do]]}
        elif form == "choi" and seed % 4 == 0:
            kw = {"dim": di}
        check_pred(ctx, tally, g, seed, form, is_unital, (obj,), kw, un, "unital_iff_ptrace_choi / unitalV_yes_iff", ex)
        # --- quantum channel
        if is_list or di == do:
            check_pred(ctx, tally, g, seed, form, is_quantum_channel, (obj,), {}, and3(cp, tp), "cp_iff_choi_psd + tp_iff_ptrace_choi", ex)
        # --- unitary channel (for non-CP paired lists toqito documents only [[U, U]]; ask when the map is given by one list)
        if form == "choi" or g.cp_list or (g.kind.startswith("neg-unitary") and form == "pairs"):
            check_pred(ctx, tally, g, seed, form, is_unitary, (obj,), {}, uni, "unitaryV_yes_sound / unitaryV_no_sound (unitary_iff_choi, unitary_of_rank_one_tp)", ex)
        # --- Choi rank
        if exact_float:
            desc = {"predicate": "choi_rank", "form": form, **g.desc(), "seed": seed}
            ctx.case(desc, di >= 2 and do >= 2, f"choi_rank/{form}/{g.kind}")
            pobj = present_obj(case_rng("c06/choi_rank", seed, form, g.kind, di, do), obj)
            guard = Pure(pobj)
            res = call(choi_rank, pobj)
            if guard.modified():
                ctx.violation("choi_rank: caller's arguments were modified", {"function": "choi_rank", "form": form, "kind": g.kind, "case_seed": seed, "gen": g.gen,
                                                                            "modified": guard.modified(), "presentation": describe(pobj)})
            if res[0] != "ok" or int(res[1]) != rep["rank"]:
                ctx.violation(f"choi_rank[{form}] on a {g.kind} map {di}->{do}: {res}; exact rank over Q[i] is {rep['rank']}",
                              {"function": "choi_rank", "form": form, "kind": g.kind, "case_seed": seed, "gen": g.gen, "impl": str(res), "model": rep["rank"], "theorem": "choiRank_exact / rankQ_eq_rank (exact elimination = Matrix.rank), choiRank_le_kraus"})
        # --- extremality (channels only; Choi form only where the dimensions can be inferred; flat or nested lists)
        if cp == "yes" and tp == "yes" and form != "pairs" and (is_list or di == do):
            check_pred(ctx, tally, g, seed, form, is_extremal, (obj,), {}, "yes" if rep["extremal"] else "no", "extremalDecide_correct (Choi's theorem: extreme_iff_basis_products_independent)", ex)
            if is_list and "extremal_coded" in rep:
                # the mirror of the procedure as coded (criterion on the list as given): must agree with toqito on every list,
                # redundant or not (extremalAsCoded_correct / extremalAsCoded_dependent say when that is the right answer)
                check_mirror_extremal(ctx, g, seed, form, obj, rep)


def check_mirror_extremal(ctx, g, seed, form, obj, rep):
    desc = {"predicate": "is_extremal", "form": form, **g.desc(), "seed": seed, "mirror": "extremalAsCoded"}
    ctx.case(desc, g.di >= 2 and g.do >= 2, f"is_extremal-mirror/{form}/{g.kind}/{'redundant' if len(g.As) > rep['rank'] else 'independent'}")
    prng = case_rng("c06/mirror_extremal", seed, form, g.kind, g.di, g.do)
    res = pcall(ctx, prng, is_extremal, obj, info={"kind": g.kind, "case_seed": seed, "gen": g.gen})
    if res[0] != "ok" or bool(res[1]) != bool(rep["extremal_coded"]):
        ctx.violation(f"is_extremal[{form}] on a {g.kind} map {g.di}->{g.do}: {str(res)[:120]}; the mirror of its procedure (rank of the products of the list as given) says {rep['extremal_coded']}",
                      {"function": "is_extremal", "form": form, "kind": g.kind, "di": g.di, "do": g.do, "case_seed": seed, "gen": g.gen, "impl": str(res)[:300],
                       "model": rep["extremal_coded"], "lean": rep, "theorem": "extremalAsCoded (mirror); extremalAsCoded_correct / extremalAsCoded_dependent"})


GENS = {}


def gen(name):
    def deco(f):
        GENS[name] = f
        return f
    return deco


@gen("stinespring")
def _g1(rng, p):
    return gt_stinespring(rng, p["di"], p["do"], p["r"])


@gen("unitary")
def _g2(rng, p):
    return gt_unitary(rng, p["d"], p.get("dyadic", False))


@gen("mixture-sq")
def _g3(rng, p):
    return gt_mixture_sq(rng, p["d"], p.get("dyadic", False), p.get("real_first", False))


@gen("mixture-dyadic")
def _g4(rng, p):
    return gt_mixture_dyadic(rng, p["d"])


@gen("transpose")
def _g5(rng, p):
    return gt_transpose(rng, p["d"])


@gen("signed")
def _g6(rng, p):
    return gt_signed(rng, p["di"], p["do"])


@gen("int")
def _g7(rng, p):
    return gt_random_int(rng, p["di"], p["do"], p["r"], p["cp"], p.get("mix", False))


@gen("planted")
def _g8(rng, p):
    return gt_planted_rank(rng, p["di"], p["do"], p["r"], p["extra"])


@gen("redundant")
def _g9(rng, p):
    return gt_redundant(rng, p["d"], p["how"])


@gen("weak-damping")
def _g11(rng, p):
    return gt_weak_damping(rng, p["d"], p["n"])


@gen("neg-unitary")
def _g12(rng, p):
    return gt_neg_unitary(rng, p["d"], p.get("dyadic", False))


@gen("perturbed")
def _g10(rng, p):
    base = gt_stinespring(rng, p["di"], p["do"], p["r"]) if p["base"] == "stinespring" else gt_unitary(rng, p["di"])
    return perturb(rng, base, p["what"])


def run_map(ctx, tally, name, params, seed=None):
    seed = int(ctx.rng.integers(1 << 62)) if seed is None else int(seed)
    rng = np.random.default_rng(seed)
    g = GENS[name](rng, params)
    if g is None:
        ctx.count(f"generator-gave-up/{name}")
        return
    g.gen = {"name": name, "params": params}
    check_map(ctx, tally, g, seed)


# ------------------------------------------------------------------------------------------------ constructors

TOL = 1e-12
ERRS = [("Probability must be between", "ProbRange"), ("Gamma", "GammaRange"), ("Input matrix must be 2x2", "InputShape"),
        ("Probabilities must be non-negative and sum to 1", "ProbVector"), ("length of the probability vector", "ProbLength")]


def err_enum(res):
    if res[0] == "ok":
        return "ok"
    if res[0] == "ValueError":
        for pat, name in ERRS:
            if pat in res[1]:
                return name
    return f"{res[0]}: {res[1][:80]}"


def fj(q):
    q = Fraction(q)
    return [q.numerator, q.denominator]


def gint_q(rng, d, lim=6):
    a = rng.integers(-lim, lim + 1, size=(d, d)) + 1j * rng.integers(-lim, lim + 1, size=(d, d))
    return Q.of_int(a), a.astype(complex)


def cviol(ctx, what, con, params, **kw):
    ctx.violation(what, {"function": con, "constructor": con, "args": params, "replay_kind": "constructor", **kw})


def check_choi_constructor(ctx, tally, con, fn, op, fargs, largs, d, theorem, props):
    """Choi-form constructors: returned matrix, action, textbook properties"""
    cseed = int(ctx.rng.integers(1 << 62))
    rng = np.random.default_rng(cseed)
    Xq, Xf = gint_q(rng, d)
    params = {"con": con, **{k: str(v) for k, v in largs.items()}}
    prng = case_rng("c06/choi_constructor", cseed, params)
    pinfo = {"constructor": con, "args": params, "replay_kind": "constructor"}
    ctx.case({"constructor": con, **params}, props.get("nontrivial", True), f"constructor/{con}/d={d}")
    rep = ctx.lean().ask(op, {**{k: (fj(v) if isinstance(v, Fraction) else v) for k, v in largs.items()}, "X": Xq.json()})
    res = call(fn, *fargs)
    if res[0] != "ok":
        return cviol(ctx, f"{con}{fargs}: raises {res}", con, params, theorem=theorem)
    J = res[1]
    Jm = Q.from_json(rep["J"])
    dev = max_dev(J, Jm)
    exact = Jm.is_float_exact()
    if not isinstance(J, np.ndarray) or dev > (0.0 if exact else TOL):
        return cviol(ctx, f"{con}{fargs}: returned Choi matrix differs from the closed form by {dev:g} (type {type(J).__name__})", con, params, impl=str(np.asarray(J).tolist())[:400], model=rep["J"], theorem=theorem)
    out_m = Q.from_json(rep["out"])
    if not out_m.eq(Q.from_json(rep["via_choi"])):
        return cviol(ctx, f"{con}: model: textbook action and action through the Choi matrix differ", con, params, theorem=theorem)
    y = pcall(ctx, prng, apply_channel, Xf, J, info=pinfo)
    scale = float(max(1, Xq.maxabs())) * d * max(1.0, float(Jm.maxabs()))
    if y[0] != "ok" or max_dev(y[1], out_m) > 1e-9 * scale:
        return cviol(ctx, f"{con}{fargs}: apply_channel on the returned Choi matrix differs from the textbook formula ({theorem})", con, params, impl=str(y)[:300], model=rep["out"], X=Xq.json(), theorem=theorem)
    # textbook properties through toqito's own predicates
    for pname, pf, kw in (("hp", is_herm_preserving, {}), ("cp", is_completely_positive, {}), ("tp", is_trace_preserving, {}), ("unital", is_unital, {}),
                          ("qc", is_quantum_channel, {}), ("positive", is_positive, {})):
        if pname not in props:
            continue
        r = pcall(ctx, prng, pf, J, info=pinfo, **kw)
        if r[0] != "ok" or bool(r[1]) != props[pname]:
            cviol(ctx, f"{pf.__name__}({con}{fargs}) = {r}; by {props['why'].get(pname, theorem)} it is {props[pname]}", con, params, predicate=pf.__name__, impl=str(r), model=props[pname], theorem=props["why"].get(pname, theorem))


def run_choi_constructors(ctx, tally, quick):
    half = Fraction(1, 2)
    for d in (2, 3, 4):
        ps = [F0, F1, half, Fraction(1, 4), Fraction(3, 8), Fraction(1, 3), Fraction(3, 10), Fraction(-1, 8), Fraction(9, 8), Fraction(1, 1 << 20)]
        for p in ps:
            inr = 0 <= p <= 1
            why = {"cp": "depolarizing_choi_psd", "tp": "depolarizing_tp", "unital": "depolarizing_unital", "qc": "depolarizing_choi_psd + depolarizing_tp", "hp": "depolarizing_choi_psd"}
            props = {"tp": True, "unital": True, "hp": True, "why": why, "nontrivial": 0 < p < 1 or d >= 3}
            if inr:
                props.update({"cp": True, "qc": True, "positive": True})
            elif p > 1:
                props.update({"cp": False, "qc": False})  # (1-p)/d < 0 is an eigenvalue of J (d >= 2): depolarizing_cp_iff
                why["cp"] = why["qc"] = "depolarizing_not_cp_of_gt_one / depolarizing_cp_iff"
            elif p < 0:
                # -1/(d^2-1) <= p < 0 is still a channel (depolarizing_cp_iff)
                ok = 1 + p * (d * d - 1) >= 0
                props.update({"cp": ok, "qc": ok})
                why["cp"] = why["qc"] = "depolarizing_cp_iff"
            check_choi_constructor(ctx, tally, "depolarizing", depolarizing, "c06_depolarizing", (d, float(p)), {"d": d, "p": p}, d, "depolarizing_apply", props)
            why = {"cp": "dephasing_choi_psd", "tp": "dephasing_tp", "unital": "dephasing_unital", "qc": "dephasing_choi_psd + dephasing_tp", "hp": "dephasing_choi_psd"}
            props = {"tp": True, "unital": True, "hp": True, "why": why, "nontrivial": 0 < p < 1 or d >= 3}
            if inr:
                props.update({"cp": True, "qc": True, "positive": True})
            elif p > 1:
                props.update({"cp": False, "qc": False})  # dephasing_not_cp_of_gt_one: e_00 - e_11 has quadratic form 2(1-p) < 0
                why["cp"] = why["qc"] = "dephasing_not_cp_of_gt_one"
            check_choi_constructor(ctx, tally, "dephasing", dephasing, "c06_dephasing", (d, float(p)), {"d": d, "p": p}, d, "dephasing_apply", props)
        if True:
            # default parameter
            check_choi_constructor(ctx, tally, "depolarizing", depolarizing, "c06_depolarizing", (d,), {"d": d, "p": F0}, d, "depolarizing_apply", {"qc": True, "unital": True, "why": {}})
            check_choi_constructor(ctx, tally, "dephasing", dephasing, "c06_dephasing", (d,), {"d": d, "p": F0}, d, "dephasing_apply", {"qc": True, "unital": True, "why": {}})
        for k in sorted({1, 2, d - 1, d, d + 1}):
            if k < 1:
                continue
            why = {"cp": "reduction_not_cp", "hp": "reduction_choi_hermitian", "tp": "reduction_trace"}
            props = {"hp": True, "tp": k * d - 1 == 1, "why": why, "nontrivial": True}
            if k < d:
                props.update({"cp": False, "qc": False})
            check_choi_constructor(ctx, tally, "reduction", reduction, "c06_reduction", (d, k), {"d": d, "k": Fraction(k)}, d, "reduction_apply", props)
        check_choi_constructor(ctx, tally, "reduction", reduction, "c06_reduction", (d,), {"d": d, "k": F1}, d, "reduction_apply", {"hp": True, "cp": False, "why": {"cp": "reduction_not_cp"}})
    grid = [(1, 1, 0), (0, 1, 1), (1, 0, 1), (2, 0, 0), (0, 0, 0), (1, 2, 3), (-1, 1, 1), (3, 1, 0), (1, 1, 1)]
    for a, b, c in grid:
        why = {"cp": "choiMap_not_cp", "hp": "choiMap_choi_hermitian", "tp": "choiMap_trace"}
        props = {"hp": True, "tp": a + b + c == 1, "why": why}
        if a < 2:
            props.update({"cp": False, "qc": False})
        check_choi_constructor(ctx, tally, "choi", choi_map, "c06_choi", (a, b, c), {"a": Fraction(a), "b": Fraction(b), "c": Fraction(c)}, 3, "choiMap_apply", props)
    check_choi_constructor(ctx, tally, "choi", choi_map, "c06_choi", (), {"a": F1, "b": F1, "c": F0}, 3, "choiMap_apply", {"hp": True, "cp": False, "why": {"cp": "choiMap_not_cp"}})
    # choi(0,1,1) is the reduction map
    if not np.array_equal(choi_map(0, 1, 1), reduction(3)):
        cviol(ctx, "choi(0,1,1) differs from reduction(3)", "choi", {"a": 0, "b": 1, "c": 1}, theorem="choiMap_011_eq_reduction")


# ---- Kraus-form qubit channels

PY = [(3, 4, 5), (5, 12, 13), (8, 15, 17), (7, 24, 25), (20, 21, 29)]
SQ = [(F0, F0, F1), (F1, F1, F0)] + [(Fraction(a * a, c * c), Fraction(a, c), Fraction(b, c)) for a, b, c in PY] + [(Fraction(b * b, c * c), Fraction(b, c), Fraction(a, c)) for a, b, c in PY]
GENERIC = [Fraction(3, 10), Fraction(1, 3), Fraction(1, 2), Fraction(7, 10), Fraction(1, 1000), 1 - Fraction(1, 1 << 20)]
OUTSIDE = [Fraction(-1, 64), Fraction(65, 64), Fraction(-1, 1 << 60), 1 + Fraction(1, 1 << 52), Fraction(2), Fraction(-1)]


def kraus_dev(ks, model_list):
    if not isinstance(ks, list) or len(ks) != len(model_list):
        return float("inf")
    return max(max_dev(k, Q.from_json(m)) for k, m in zip(ks, model_list))


def sq_dev(ks, model_sq):
    """squared entries against the rational squares; entries must be non-negative reals"""
    if not isinstance(ks, list) or len(ks) != len(model_sq):
        return float("inf")
    m = 0.0
    for k, s in zip(ks, model_sq):
        k = np.asarray(k)
        if np.iscomplexobj(k) and np.any(k.imag != 0):
            return float("inf")
        if np.any(k.real < 0):
            return float("inf")
        m = max(m, max_dev(np.asarray(k.real) ** 2, Q.from_json(s)))
    return m


def check_qubit_constructor(ctx, tally, con, fn, op, kwargs_f, largs, roots, theorem, expect_props):
    cseed = int(ctx.rng.integers(1 << 62))
    rng = np.random.default_rng(cseed)
    Xq, Xf = gint_q(rng, 2)
    params = {"con": con, **{k: str(v) for k, v in largs.items()}, "roots": bool(roots)}
    prng = case_rng("c06/qubit_constructor", cseed, params)
    pinfo = {"constructor": con, "args": params, "replay_kind": "constructor"}
    inside = all(0 < v < 1 for v in largs.values())
    ctx.case({"constructor": con, **params}, inside, f"constructor/{con}/{'exact-roots' if roots else 'squares'}")
    la = {k: fj(v) for k, v in largs.items()}
    la["shape"] = None
    if roots:
        la["roots"] = {k: fj(v) for k, v in roots.items()}
    rep = ctx.lean().ask(op, {**la, "X": Xq.json()})
    res = call(fn, **kwargs_f)
    if "reject" in rep:
        e = err_enum(res)
        if e != rep["reject"]:
            cviol(ctx, f"{con}({kwargs_f}): outside the documented range, expected {rep['reject']}, got {e}", con, params, impl=str(res)[:200], model=rep, theorem="guards (adGuard/pdGuard/bfGuard)")
        # also with an input matrix
        res2 = pcall(ctx, prng, fn, Xf, info=pinfo, **kwargs_f)
        if err_enum(res2) != rep["reject"]:
            cviol(ctx, f"{con}(X, {kwargs_f}): expected {rep['reject']}, got {err_enum(res2)}", con, params, impl=str(res2)[:200], model=rep, theorem="guards")
        return
    if res[0] != "ok":
        return cviol(ctx, f"{con}({kwargs_f}): raises {res} for admissible parameters", con, params, theorem=theorem)
    ks = res[1]
    d2 = sq_dev(ks, rep["sq"])
    if d2 > TOL:
        return cviol(ctx, f"{con}({kwargs_f}): squared Kraus entries differ from the closed form by {d2:g}", con, params, impl=str([np.asarray(k).tolist() for k in ks])[:400], model=rep["sq"], theorem=theorem)
    y_direct = pcall(ctx, prng, fn, Xf, info=pinfo, **kwargs_f)
    y_kraus = pcall(ctx, prng, apply_channel, Xf, ks, info=pinfo)
    if y_direct[0] != "ok" or y_kraus[0] != "ok" or float(np.max(np.abs(np.asarray(y_direct[1]) - np.asarray(y_kraus[1])))) > 1e-9 * 12:
        return cviol(ctx, f"{con}({kwargs_f}): direct application and apply_channel on the returned Kraus list differ", con, params, impl=str((y_direct, y_kraus))[:400], X=Xq.json(), theorem=theorem)
    Jk = pcall(ctx, prng, kraus_to_choi, ks, info=pinfo)
    y_choi = pcall(ctx, prng, apply_channel, Xf, Jk[1], info=pinfo) if Jk[0] == "ok" else Jk
    if y_choi[0] != "ok" or float(np.max(np.abs(np.asarray(y_direct[1]) - np.asarray(y_choi[1])))) > 1e-9 * 12:
        return cviol(ctx, f"{con}({kwargs_f}): direct application and the Choi form of the returned Kraus list differ", con, params, impl=str((y_direct, y_choi))[:400], X=Xq.json(), theorem=theorem)
    if roots:
        dk = kraus_dev(ks, rep["kraus"])
        if dk > TOL:
            return cviol(ctx, f"{con}({kwargs_f}): Kraus operators differ from the closed form by {dk:g}", con, params, impl=str([np.asarray(k).tolist() for k in ks])[:400], model=rep["kraus"], theorem=theorem)
        do = max_dev(y_direct[1], Q.from_json(rep["out"]))
        if do > 1e-9 * 12:
            return cviol(ctx, f"{con}(X, {kwargs_f}): applied output differs from the closed form by {do:g}", con, params, impl=str(y_direct)[:300], model=rep["out"], X=Xq.json(), theorem=theorem)
        # the exact Kraus list as a ground-truth map: every predicate on toqito's own output
        Ks = [Q.from_json(m) for m in rep["kraus"]]
        g = GT(f"constructor-{con}", 2, 2, Ks, Ks, L=hcat([vec(K) for K in Ks]), cp_list=True)
        g.gen = {"name": "constructor", "params": params}
        check_returned_kraus(ctx, tally, g, ks, con, params)
    # wrong input shape
    bad = pcall(ctx, prng, fn, np.eye(3), info=pinfo, **kwargs_f)
    if err_enum(bad) != "InputShape":
        cviol(ctx, f"{con}(3x3 input): expected InputShape rejection, got {err_enum(bad)}", con, params, impl=str(bad)[:200], theorem="guards")
    for pname, pf in (("qc", is_quantum_channel), ("unital", is_unital)):
        if pname in expect_props:
            r = pcall(ctx, prng, pf, ks, info=pinfo)
            if r[0] != "ok" or bool(r[1]) != expect_props[pname]:
                cviol(ctx, f"{pf.__name__}({con}({kwargs_f})) = {r}; by {expect_props['why'][pname]} it is {expect_props[pname]}", con, params, predicate=pf.__name__, impl=str(r), model=expect_props[pname], theorem=expect_props["why"][pname])


def check_returned_kraus(ctx, tally, g, ks, con, params):
    """toqito's own returned Kraus list `ks` (floats) judged by the exact deciders on the closed form `g`"""
    rep = lean_report(ctx, g, "flat", {"tag": "flat", "ops": [K.json() for K in g.As]})
    cp, tp = and3(rep["hp"], rep["psd"]), rep["tp"]
    redundant = len(g.As) > rep["rank"]
    ex = {"redundant": redundant, "lean": rep, "constructor": con}
    seed = 0
    check_pred(ctx, tally, g, seed, "flat", is_completely_positive, (ks,), {}, cp, "cp_of_kraus", ex)
    check_pred(ctx, tally, g, seed, "flat", is_quantum_channel, (ks,), {}, and3(cp, tp), "amplitude_damping_tp / phase_damping_tp / bitflip_tp", ex)
    check_pred(ctx, tally, g, seed, "flat", is_unital, (ks,), {}, rep["unital"], "unital_iff_ptrace_choi", ex)
    check_pred(ctx, tally, g, seed, "flat", is_unitary, (ks,), {}, rep["unitary"], "unitary_iff_choi", ex)
    check_pred(ctx, tally, g, seed, "pairs", is_trace_preserving, ([[k, k] for k in ks],), {}, tp, "pairMap_tp_iff", ex)
    if cp == "yes" and tp == "yes":
        check_pred(ctx, tally, g, seed, "flat", is_extremal, (ks,), {}, "yes" if rep["extremal"] else "no", "extremalDecide_correct", ex)


def run_qubit_constructors(ctx, tally, quick):
    whyad = {"qc": "amplitude_damping_tp + cp_of_kraus"}
    # amplitude damping: gamma x prob
    sq_g = SQ if not quick else SQ[:8]
    for (g2, sg, cg) in sq_g:
        for (p2, sp, cp_) in ([(F1, F1, F0)] + (SQ if not quick else SQ[:5])):
            check_qubit_constructor(ctx, tally, "amplitude_damping", amplitude_damping, "c06_ad", {"gamma": float(g2), "prob": float(p2)}, {"gamma": g2, "prob": p2},
                                    {"sp": sp, "cp": cp_, "sg": sg, "cg": cg}, "amplitude_damping_apply", {"qc": True, "why": whyad})
    for g2 in GENERIC:
        for p2 in (F1, Fraction(3, 10), Fraction(1, 2)):
            check_qubit_constructor(ctx, tally, "amplitude_damping", amplitude_damping, "c06_ad", {"gamma": float(g2), "prob": float(p2)}, {"gamma": g2, "prob": p2}, None,
                                    "amplitude_damping_apply", {"qc": True, "why": whyad})
    for bad in OUTSIDE:
        check_qubit_constructor(ctx, tally, "amplitude_damping", amplitude_damping, "c06_ad", {"gamma": float(bad), "prob": 0.5}, {"gamma": bad, "prob": Fraction(1, 2)}, None, "guards", {})
        check_qubit_constructor(ctx, tally, "amplitude_damping", amplitude_damping, "c06_ad", {"gamma": 0.25, "prob": float(bad)}, {"gamma": Fraction(1, 4), "prob": bad}, None, "guards", {})
        check_qubit_constructor(ctx, tally, "amplitude_damping", amplitude_damping, "c06_ad", {"gamma": float(bad), "prob": float(bad)}, {"gamma": bad, "prob": bad}, None, "guards", {})
    # defaults: amplitude_damping() = identity channel Kraus list
    check_qubit_constructor(ctx, tally, "amplitude_damping", amplitude_damping, "c06_ad", {}, {"gamma": F0, "prob": F1}, {"sp": F1, "cp": F0, "sg": F0, "cg": F1}, "amplitude_damping_apply", {"qc": True, "unital": True, "why": {"qc": "amplitude_damping_tp", "unital": "gamma = 0"}})
    whypd = {"qc": "phase_damping_tp + cp_of_kraus", "unital": "phase_damping_unital"}
    for (g2, sg, cg) in SQ:
        check_qubit_constructor(ctx, tally, "phase_damping", phase_damping, "c06_pd", {"gamma": float(g2)}, {"gamma": g2}, {"sg": sg, "cg": cg}, "phase_damping_apply", {"qc": True, "unital": True, "why": whypd})
    for g2 in GENERIC:
        check_qubit_constructor(ctx, tally, "phase_damping", phase_damping, "c06_pd", {"gamma": float(g2)}, {"gamma": g2}, None, "phase_damping_apply", {"qc": True, "unital": True, "why": whypd})
    for bad in OUTSIDE:
        check_qubit_constructor(ctx, tally, "phase_damping", phase_damping, "c06_pd", {"gamma": float(bad)}, {"gamma": bad}, None, "guards", {})
    check_qubit_constructor(ctx, tally, "phase_damping", phase_damping, "c06_pd", {}, {"gamma": F0}, {"sg": F0, "cg": F1}, "phase_damping_apply", {"qc": True, "unital": True, "why": whypd})
    whybf = {"qc": "bitflip_tp + cp_of_kraus", "unital": "bitflip_unital"}
    for (p2, s, c) in SQ:
        check_qubit_constructor(ctx, tally, "bitflip", bitflip, "c06_bitflip", {"prob": float(p2)}, {"prob": p2}, {"s": s, "c": c}, "bitflip_apply", {"qc": True, "unital": True, "why": whybf})
    for p2 in GENERIC:
        check_qubit_constructor(ctx, tally, "bitflip", bitflip, "c06_bitflip", {"prob": float(p2)}, {"prob": p2}, None, "bitflip_apply", {"qc": True, "unital": True, "why": whybf})
    for bad in OUTSIDE:
        check_qubit_constructor(ctx, tally, "bitflip", bitflip, "c06_bitflip", {"prob": float(bad)}, {"prob": bad}, None, "guards", {})
    check_qubit_constructor(ctx, tally, "bitflip", bitflip, "c06_bitflip", {}, {"prob": F0}, {"s": F0, "c": F1}, "bitflip_apply", {"qc": True, "unital": True, "why": whybf})


# ---- Pauli channel


def check_pauli(ctx, tally, p, as_array, seed):
    rng = np.random.default_rng(seed)
    n = len(p)
    params = {"con": "pauli_channel", "p": [str(x) for x in p], "as_array": as_array}
    rep = ctx.lean().ask("c06_pauli", {"p": [fj(x) for x in p]})
    prng = case_rng("c06/pauli", seed, params)
    pinfo = {"constructor": "pauli_channel", "args": params, "replay_kind": "constructor"}
    # the probability vector keeps its float dtype (an integer argument means "number of qubits"); layout varies
    pf = present_nd(prng, np.array([float(x) for x in p]), allow_dtype=False) if as_array else [float(x) for x in p]
    res = pcall(ctx, None, pauli_channel, pf, info=pinfo)
    ok_model = "reject" not in rep
    ctx.case({"constructor": "pauli_channel", **params}, ok_model and sum(1 for x in p if x > 0) >= 2, f"constructor/pauli_channel/len={n}/{'ok' if ok_model else rep['reject']}")
    if not ok_model:
        if rep["reject"] == "unknown":
            return
        if err_enum(res) != rep["reject"]:
            cviol(ctx, f"pauli_channel({pf}): expected rejection {rep['reject']}, got {err_enum(res)}", "pauli_channel", params, impl=str(res)[:200], model=rep, theorem="pauliGuard")
        return
    if res[0] != "ok":
        return cviol(ctx, f"pauli_channel({pf}): raises {res} on a probability vector", "pauli_channel", params, theorem="pauliChoi_eq")
    q = rep["q"]
    d = 2 ** q
    Phi = res[1]
    Jm = Q.from_json(rep["J"])
    dev = max_dev(np.asarray(Phi), Jm)
    if dev > TOL:
        return cviol(ctx, f"pauli_channel({pf}): Choi matrix differs from sum_j p_j J(P_j . P_j) by {dev:g}", "pauli_channel", params, impl=str(np.asarray(Phi).tolist())[:400], model=rep["J"], theorem="pauliChoi_eq")
    Xq, Xf = gint_q(rng, d)
    rep2 = ctx.lean().ask("c06_pauli", {"p": [fj(x) for x in p], "X": Xq.json()})
    out_m = Q.from_json(rep2["out"])
    pXf = present_nd(prng, Xf)
    full = pcall(ctx, None, pauli_channel, pf, True, pXf, info=pinfo)
    if full[0] != "ok" or not isinstance(full[1], tuple) or len(full[1]) != 3:
        return cviol(ctx, f"pauli_channel({pf}, True, X): {str(full)[:200]}", "pauli_channel", params, theorem="pauliChoi_eq")
    Phi2, out, ks = full[1]
    pair = pcall(ctx, None, pauli_channel, pf, True, info=pinfo)
    if (pair[0] != "ok" or not isinstance(pair[1], tuple) or len(pair[1]) != 2 or max_dev(np.asarray(pair[1][0]), Jm) > TOL or len(pair[1][1]) != len(ks)
            or any(not np.array_equal(np.asarray(a), np.asarray(b)) for a, b in zip(pair[1][1], ks)) or max_dev(np.asarray(Phi2), Jm) > TOL):
        return cviol(ctx, f"pauli_channel({pf}, True): (Choi matrix, Kraus list) differs from the three-argument form", "pauli_channel", params, impl=str(pair)[:300], theorem="pauliChoi_eq_choi_kraus")
    strings = [Q.from_json(m) for m in rep["strings"]]
    bad = len(ks) != len(strings) or any(float(np.max(np.abs(np.asarray(k) - np.sqrt(float(x)) * s.to_float()))) > TOL for k, x, s in zip(ks, p, strings))
    if bad:
        return cviol(ctx, f"pauli_channel({pf}): Kraus operators are not sqrt(p_j) * (Pauli string j in odometer order)", "pauli_channel", params, impl=str([np.asarray(k).tolist() for k in ks])[:400], model=rep["strings"], theorem="pauliString (odometer order)")
    sc = 12.0 * d
    devs = {"direct": max_dev(out, out_m)}
    yk = pcall(ctx, prng, apply_channel, Xf, [np.asarray(k) for k in ks], info=pinfo)
    yc = pcall(ctx, prng, apply_channel, Xf, np.asarray(Phi), info=pinfo)
    devs["kraus"] = max_dev(yk[1], out_m) if yk[0] == "ok" else float("inf")
    devs["choi"] = max_dev(yc[1], out_m) if yc[0] == "ok" else float("inf")
    two = pcall(ctx, None, pauli_channel, pf, False, present_nd(prng, Xf), info=pinfo)
    devs["two"] = max_dev(two[1][1], out_m) if two[0] == "ok" and isinstance(two[1], tuple) and len(two[1]) == 2 else float("inf")
    if max(devs.values()) > 1e-9 * sc:
        return cviol(ctx, f"pauli_channel({pf}): Kraus / Choi / direct application disagree with sum_j p_j P_j X P_j^dagger: {devs}", "pauli_channel", params, X=Xq.json(), model=rep2["out"], theorem="mixed_unitary_tp_unital / pauliChoi_eq")
    # textbook properties on the object as returned
    g = GT("constructor-pauli_channel", d, d, None, None, J=Jm)
    g.gen = {"name": "constructor", "params": params}
    for pf_, want, why in ((is_completely_positive, True, "cp_of_kraus"), (is_trace_preserving, True, "mixed_unitary_tp_unital"), (is_unital, True, "mixed_unitary_tp_unital"),
                           (is_quantum_channel, True, "mixed_unitary_tp_unital"), (is_herm_preserving, True, "cp_of_kraus")):
        check_pred(ctx, tally, g, seed, "choi", pf_, (Phi,), {}, "yes" if want else "no", why, {"constructor": "pauli_channel"})
        r = pcall(ctx, prng, pf_, np.asarray(Phi), info=pinfo)
        if r[0] != "ok" or bool(r[1]) != want:
            cviol(ctx, f"{pf_.__name__}(np.asarray(pauli_channel({pf}))) = {r}; by {why} it is {want}", "pauli_channel", params, predicate=pf_.__name__, impl=str(r), model=want, theorem=why)


def run_pauli(ctx, tally, quick):
    rng = ctx.rng
    vecs = [[Fraction(1, 10), Fraction(2, 10), Fraction(3, 10), Fraction(4, 10)], [Fraction(1, 2), Fraction(1, 4), Fraction(1, 8), Fraction(1, 8)],
            [F1, F0, F0, F0], [F0, F0, F1, F0], [F0, Fraction(1, 3), Fraction(2, 3), F0], [Fraction(1, 4)] * 4]
    for _ in range(3 if quick else 12):
        c = sorted(int(x) for x in rng.choice(np.arange(1, 64), size=15, replace=False))
        vecs.append([Fraction(b - a, 64) for a, b in zip([0] + c, c + [64])])
    e = [F0] * 16
    e[6] = F1  # X (x) Y alone
    vecs.append(e)
    vecs.append([Fraction(k + 1, 136) for k in range(16)])
    for k, p in enumerate(vecs):
        check_pauli(ctx, tally, p, bool(k % 2), int(rng.integers(1 << 62)))
    # outside: negative entry, sum off by 1/64, wrong length
    bad = [[Fraction(-1, 8), Fraction(3, 8), Fraction(3, 8), Fraction(3, 8)], [Fraction(1, 4), Fraction(1, 4), Fraction(1, 4), Fraction(17, 64)], [Fraction(1, 4), Fraction(1, 4), Fraction(1, 4), Fraction(15, 64)],
           [Fraction(1, 2), Fraction(1, 2)], [Fraction(1, 3)] * 3, [Fraction(1, 5)] * 5, [Fraction(1, 8)] * 8, [Fraction(1, 15)] * 15, [Fraction(1, 17)] * 17, [Fraction(2), Fraction(-1), F0, F0]]
    for k, p in enumerate(bad):
        check_pauli(ctx, tally, p, bool(k % 2), int(rng.integers(1 << 62)))
    # scalar argument: a random q-qubit Pauli channel (global NumPy RNG): must be a unital channel
    for q in (1, 2):
        st = np.random.get_state()
        np.random.seed(int(rng.integers(1 << 31)))
        res = call(pauli_channel, q)
        np.random.set_state(st)
        ctx.case({"constructor": "pauli_channel", "scalar": q}, True, "constructor/pauli_channel/scalar")
        if res[0] != "ok" or np.asarray(res[1]).shape != (4 ** q, 4 ** q):
            cviol(ctx, f"pauli_channel({q}): {str(res)[:200]}", "pauli_channel", {"scalar": q}, theorem="mixed_unitary_tp_unital")
            continue
        A = np.asarray(res[1])
        for pf_ in (is_quantum_channel, is_unital):
            r = call(pf_, A)
            if r[0] != "ok" or not r[1]:
                cviol(ctx, f"{pf_.__name__}(np.asarray(pauli_channel({q}))) = {r}", "pauli_channel", {"scalar": q}, predicate=pf_.__name__, theorem="mixed_unitary_tp_unital")


# ------------------------------------------------------------------------------------------------ malformed arguments (documented guards)


def run_malformed(ctx):
    """the error guards of the predicates: non-square arrays are not Hermiticity preserving / completely positive (False, no exception);
    choi_rank and is_extremal reject what is neither a list nor an array, is_extremal rejects an empty list"""
    rng = ctx.rng
    cases = []
    for (r, c) in ((2, 4), (4, 2), (3, 9), (6, 4)):
        a = rng.integers(-3, 4, size=(r, c)).astype(float)
        cases.append(("is_herm_preserving", is_herm_preserving, (a,), ("ok", False), "phi.shape[0] != phi.shape[1] -> False"))
        cases.append(("is_completely_positive", is_completely_positive, (a,), ("ok", False), "is_herm_preserving guard"))
    cases.append(("choi_rank", choi_rank, (5,), ("ValueError", "Not a valid Choi matrix"), "documented ValueError"))
    cases.append(("choi_rank", choi_rank, ("J",), ("ValueError", "Not a valid Choi matrix"), "documented ValueError"))
    cases.append(("is_extremal", is_extremal, ([],), ("ValueError", "at least one Kraus operator"), "documented ValueError"))
    cases.append(("is_extremal", is_extremal, (3,), ("ValueError", "list of Kraus operators or a Choi matrix"), "documented ValueError"))
    cases.append(("is_extremal", is_extremal, ([np.eye(2), "K"],), ("ValueError", "list (or nested list) of Kraus operators"), "documented ValueError"))
    for name, fn, args, want, why in cases:
        ctx.case({"stream": "malformed", "function": name, "args": str([getattr(a, "shape", a) for a in args])}, True, f"malformed/{name}/{want[0]}")
        res = call(fn, *args)
        ok = res[0] == want[0] and (bool(res[1]) == want[1] if want[0] == "ok" else want[1] in res[1])
        if not ok:
            ctx.violation(f"{name}({[getattr(a, 'shape', a) for a in args]}): {str(res)[:160]}; expected {want} ({why})",
                          {"function": name, "impl": str(res)[:200], "model": str(want), "theorem": why, "replay_kind": "malformed"})


# ------------------------------------------------------------------------------------------------ tolerance arithmetic

# (rtol, atol) settings; None = toqito's defaults, not passed
TOLS = [None, (1e-05, 1e-08), (1e-3, 1e-6), (0.0, 1e-4), (1e-2, 0.0), (1e-7, 1e-3), (0.25, 1e-9)]
DEFAULT_TOL = (1e-05, 1e-08)


def gt_stine_dyadic(rng, di, do, r):
    """Stinespring channel cut out of a signed permutation with phases in {1, i, -1, -i}: every entry is exactly representable"""
    V = rational_unitary(rng, r * do, 0, dyadic=True)
    Ks = [Q(V.re[k * do:(k + 1) * do, :di].copy(), V.im[k * do:(k + 1) * do, :di].copy()) for k in range(r)]
    Ks = [K for K in Ks if np.any(K.re != 0) or np.any(K.im != 0)]
    return GT("stinespring-dyadic", di, do, Ks, Ks, L=hcat([vec(K) for K in Ks]), cp_list=True)


def tol_bases(rng, quick):
    out = []
    for d in (2, 3) if quick else (2, 3, 4):
        out.append(gt_unitary(rng, d, True))
        g = gt_mixture_sq(rng, d, True)
        if g is not None:
            out.append(g)
    for (di, do, r) in ((2, 3, 1), (3, 2, 2)) if quick else ((2, 3, 1), (3, 2, 2), (2, 4, 1), (4, 2, 2), (3, 3, 2)):
        out.append(gt_stine_dyadic(rng, di, do, r))
    return out


def tol_perturb(rng, base: GT, kind, delta: Fraction):
    """Choi matrix of `base` with one entry (pair) moved by `delta`; returns (J, L or None): L certifies J >= 0 when it stays so"""
    di, do = base.di, base.do
    N = di * do
    J = base.J.copy()
    if kind == "none":
        return J, base.L
    if kind == "tp-diag":
        p = int(rng.integers(N))
        J.re[p, p] += delta
        return J, base.L
    if kind == "tp-off":
        i, j = (int(x) for x in rng.choice(di, size=2, replace=False))
        a = int(rng.integers(do))
        J.re[i * do + a, j * do + a] += delta
        J.re[j * do + a, i * do + a] += delta
        return J, None
    if kind == "unital-off":
        a, b = (int(x) for x in rng.choice(do, size=2, replace=False))
        i = int(rng.integers(di))
        J.im[i * do + a, i * do + b] += delta
        J.im[i * do + b, i * do + a] -= delta
        return J, None
    if kind == "herm-off":
        nz = [(p, q) for p in range(N) for q in range(N) if p != q and (J.re[q, p] != 0 or J.im[q, p] != 0)]
        cand = nz if nz and rng.integers(3) else [(p, q) for p in range(N) for q in range(N) if p != q]
        p, q = cand[int(rng.integers(len(cand)))]
        if rng.integers(2):
            J.re[p, q] += delta
        else:
            J.im[p, q] += delta
        return J, None
    if kind == "herm-diag":
        p = int(rng.integers(N))
        J.im[p, p] += delta / 2
        return J, None
    raise AssertionError(kind)


def tol_fr(t):
    return (Fraction(t[0]), Fraction(t[1]))


def lean_close(ctx, args, rt, at):
    """the exact mirrors at (rtol, atol) and whether each answer survives scaling both tolerances by 1 -+ 1/64"""
    out = {}
    reps = []
    for f in (F1, 1 - Fraction(1, 64), 1 + Fraction(1, 64)):
        rep = ctx.lean().ask("c06_close", {**args, "rtol": fj(rt * f), "atol": fj(at * f)})
        if "reject" in rep:
            return None
        reps.append(rep)
    for k in ("hp", "tp", "unital", "tp_pairs"):
        if k in reps[0]:
            out[k] = reps[0][k] if reps[0][k] == reps[1][k] == reps[2][k] else None
    out["psd"] = reps[0]["psd"]
    return out


def tol_call(ctx, prng, fn, obj, tol, style, info, **kw):
    if tol is None:
        return pcall(ctx, prng, fn, obj, info=info, **kw)
    if style:
        return pcall(ctx, prng, fn, obj, tol[0], tol[1], info=info, **kw)
    return pcall(ctx, prng, fn, obj, info=info, rtol=tol[0], atol=tol[1], **kw)


def tol_expect(ctx, name, form, kind, side, tol, res, want, info, theorem):
    if want is None:
        ctx.count(f"tolerance-borderline/{name}")
        return
    tkey = "default" if tol is None else f"{tol[0]:g},{tol[1]:g}"
    ctx.case({"stream": "tolerance", "predicate": name, "form": form, **info["desc"], "tol": tkey}, True, f"tolerance/{name}/{form}/{kind}/{side}/{tkey}/{want}")
    if res[0] != "ok" or bool(res[1]) != bool(want):
        ctx.violation(f"{name}[{form}] with tolerances {tkey} on a {kind} perturbation ({side} the tolerance): {str(res)[:120]}; the exact mirror of its tolerance test says {want} ({theorem})",
                      {"function": name, "form": form, "kind": kind, "side": side, "tolerances": tkey, "impl": str(res)[:300], "model": want, "theorem": theorem,
                       "replay_kind": "tolerance", **{k: v for k, v in info.items() if k != "desc"}})


def check_tolerance_case(ctx, base: GT, kind, side, tol, seed):
    rng = np.random.default_rng(seed)
    di, do = base.di, base.do
    rt, at = tol_fr(tol if tol is not None else DEFAULT_TOL)
    # the tolerance at the perturbed entry: b = 1 on the diagonal of the identity, 0 off it; |J_qp| ~ 1/4 .. 1 for Hermiticity
    tau = {"none": F0, "tp-diag": at + rt, "tp-off": at, "unital-off": at, "herm-off": at + rt * Fraction(1, 2), "herm-diag": at + rt * Fraction(1, 2)}[kind]
    if kind != "none" and tau == 0:
        return
    delta = tau * (1 - Fraction(1, 8)) if side == "inside" else tau * (1 + Fraction(1, 4)) + at * Fraction(1, 4)
    if side == "outside" and kind in ("herm-off", "herm-diag"):
        delta = (at + rt * 2) * Fraction(3, 2)       # |J_qp| <= 1 on the bases used
    J, L = tol_perturb(rng, base, kind, delta)
    args = {"form": "choi", "di": di, "do": do, "J": J.json()}
    if L is not None:
        args.update({"L": L.json(), "c": fj(F0)})
    m = lean_close(ctx, args, rt, at)
    if m is None:
        ctx.violation("model rejects a well-formed tolerance case", {"function": "c06_close", "args": {"kind": kind, "di": di, "do": do}})
        return
    Jf = J.to_float() if seed % 2 or np.any(J.im != 0) else J.to_real_or_complex()
    info = {"desc": {"base": base.kind, "di": di, "do": do, "perturbation": kind, "side": side, "seed": seed}, "case_seed": seed, "base": base.kind, "choi": J.json(), "lean": m}
    prng = case_rng("c06/tolerance", seed, base.kind, kind, side, str(tol))
    style = bool(seed % 3)
    dimkw = {} if di == do else {"dim": [di, do]}
    hp, tp, un, psd = m["hp"], m["tp"], m["unital"], m["psd"]
    if psd == "yes" and at < Fraction(1, 10 ** 10):
        # the certified bound is lambda_min >= 0 and the threshold -|atol| is (nearly) 0: a singular Choi matrix sits on the boundary of the
        # eigenvalue test, floating-point eigenvalues of size -1e-17 decide it; not compared
        psd = "unknown"
        ctx.count("tolerance-borderline/eigenvalue-test-at-zero")
    cp = None if hp is None else (False if not hp else (True if psd == "yes" else (False if psd == "no" else None)))
    tol_expect(ctx, "is_herm_preserving", "choi", kind, side, tol, tol_call(ctx, prng, is_herm_preserving, Jf, tol, style, info), hp, info, "hpClose_iff / allclose_mirror")
    if tol is None or not style:
        tol_expect(ctx, "is_trace_preserving", "choi", kind, side, tol, tol_call(ctx, prng, is_trace_preserving, Jf, tol, False, info, **dimkw), tp, info, "tpClose_iff / allclose_mirror")
    else:
        tol_expect(ctx, "is_trace_preserving", "choi", kind, side, tol, pcall(ctx, prng, is_trace_preserving, Jf, tol[0], tol[1], 2, [di, do], info=info), tp, info, "tpClose_iff / allclose_mirror")
    if tol is None or not style:
        tol_expect(ctx, "is_unital", "choi", kind, side, tol, tol_call(ctx, prng, is_unital, Jf, tol, False, info, **dimkw), un, info, "unitalClose_iff / allclose_mirror")
    else:
        tol_expect(ctx, "is_unital", "choi", kind, side, tol, pcall(ctx, prng, is_unital, Jf, tol[0], tol[1], [di, do], info=info), un, info, "unitalClose_iff / allclose_mirror")
    tol_expect(ctx, "is_completely_positive", "choi", kind, side, tol, tol_call(ctx, prng, is_completely_positive, Jf, tol, style, info), cp, info, "hpClose_iff + psdTolV_yes_imp / psdTolV_no_imp")
    tol_expect(ctx, "is_positive", "choi", kind, side, tol, tol_call(ctx, prng, is_positive, Jf, tol, style, info), cp, info, "hpClose_iff + psdTolV_yes_imp / psdTolV_no_imp")
    if di == do:
        qc = None if cp is None or tp is None else (cp and tp)
        if cp is False or tp is False:
            qc = False
        tol_expect(ctx, "is_quantum_channel", "choi", kind, side, tol, tol_call(ctx, prng, is_quantum_channel, Jf, tol, style, info), qc, info, "cp and tp mirrors")


def check_tolerance_pairs(ctx, base: GT, side, tol, seed):
    """paired list [[K_k, (1 + delta) K_k]]: sum A^dagger B = (1 + delta) 1, so the trace-preservation test sits at delta vs atol + rtol"""
    di, do = base.di, base.do
    rt, at = tol_fr(tol if tol is not None else DEFAULT_TOL)
    tau = at + rt
    delta = F0 if side == "exact" else (tau * (1 - Fraction(1, 8)) if side == "inside" else tau * (1 + Fraction(1, 4)))
    As = base.As
    Bs = [K.scale(1 + delta) for K in As]
    phi_json = {"tag": "nested", "ops": [[a.json(), b.json()] for a, b in zip(As, Bs)]}
    m = lean_close(ctx, {"form": "kraus", "phi": phi_json}, rt, at)
    if m is None:
        ctx.violation("model rejects a well-formed tolerance case (pairs)", {"function": "c06_close", "args": {"di": di, "do": do}})
        return
    obj = [[a.to_float(), b.to_float()] for a, b in zip(As, Bs)]
    info = {"desc": {"base": base.kind, "di": di, "do": do, "perturbation": "pairs-scale", "side": side, "seed": seed}, "case_seed": seed, "base": base.kind, "lean": m}
    prng = case_rng("c06/tolerance-pairs", seed, base.kind, side, str(tol))
    style = bool(seed % 2)
    tol_expect(ctx, "is_trace_preserving", "pairs", "pairs-scale", side, tol, tol_call(ctx, prng, is_trace_preserving, obj, tol, style, info), m.get("tp_pairs"), info, "tpPairsClose (sum A^dagger B) / allclose_mirror")
    tol_expect(ctx, "is_unital", "pairs", "pairs-scale", side, tol, tol_call(ctx, prng, is_unital, obj, tol, style, info), m["unital"], info, "unitalClose_iff")
    tol_expect(ctx, "is_herm_preserving", "pairs", "pairs-scale", side, tol, tol_call(ctx, prng, is_herm_preserving, obj, tol, style, info), m["hp"], info, "hpClose_iff")


def check_psd_boundary(ctx, d, side, tol, seed):
    """Hermitian J = sum_k t_k^2 v_k v_k^dagger - c 1 with an exact rational eigenbasis: smallest eigenvalue exactly -c (eigenvector v_0),
    c = |atol| (1 - 1/16) (accepted) or |atol| (1 + 1/16) (rejected)"""
    rng = np.random.default_rng(seed)
    rt, at = tol_fr(tol if tol is not None else DEFAULT_TOL)
    if at == 0:
        return
    N = d * d
    V = rational_unitary(rng, N, int(rng.integers(N, 2 * N)))
    ts = [F0] + [Fraction(int(rng.integers(1, 5)), int(rng.integers(2, 6))) for _ in range(N - 1)]
    cols = [Q(V.re[:, k:k + 1].copy(), V.im[:, k:k + 1].copy()) for k in range(N)]
    L = hcat([c.scale(t) for c, t in zip(cols[1:], ts[1:])])
    c = at * (1 - Fraction(1, 16)) if side == "inside" else at * (1 + Fraction(1, 16))
    J = (L @ L.H()) - Q.eye(N).scale(c)
    args = {"form": "choi", "di": d, "do": d, "J": J.json()}
    if side == "inside":
        args.update({"L": L.json(), "c": fj(c)})
    else:
        args.update({"v": cols[0].json(), "mu": fj(c)})
    rep = ctx.lean().ask("c06_close", {**args, "rtol": fj(rt), "atol": fj(at)})
    want = {"yes": True, "no": False}.get(rep.get("psd"))
    if "reject" in rep or want is None or want != (side == "inside") or not rep["hp"]:
        ctx.violation("model: the certificate of a constructed eigenvalue-boundary case was not accepted", {"function": "c06_close", "args": {"d": d, "side": side, "tol": str(tol)}, "lean": rep})
        return
    info = {"desc": {"base": "eigenbasis", "di": d, "do": d, "perturbation": "psd-boundary", "side": side, "seed": seed}, "case_seed": seed, "choi": J.json(), "lean": rep}
    prng = case_rng("c06/psd-boundary", seed, d, side, str(tol))
    Jf = J.to_float()
    style = bool(seed % 2)
    for fn in (is_completely_positive, is_positive):
        tol_expect(ctx, fn.__name__, "choi", "psd-boundary", side, tol, tol_call(ctx, prng, fn, Jf, tol, style, info), want, info, "psdTolV_yes_imp / psdTolV_no_imp / psd_shift_iff_eigenvalues")
    tol_expect(ctx, "is_quantum_channel", "choi", "psd-boundary", side, tol, tol_call(ctx, prng, is_quantum_channel, Jf, tol, style, info), False if not want else None, info, "psdTolV_no_imp")


def run_tolerance(ctx, quick, only=None):
    rng = ctx.rng
    bases = tol_bases(np.random.default_rng(int(rng.integers(1 << 62))), quick)
    kinds = ("none", "tp-diag", "tp-off", "unital-off", "herm-off", "herm-diag")
    for base in bases:
        for tol in TOLS:
            for kind in kinds:
                for side in (("inside",) if kind == "none" else ("inside", "outside")):
                    if quick and kind != "none" and rng.integers(3) == 0:
                        continue
                    check_tolerance_case(ctx, base, kind, side, tol, int(rng.integers(1 << 62)))
            for side in ("exact", "inside", "outside"):
                check_tolerance_pairs(ctx, base, side, tol, int(rng.integers(1 << 62)))
    for d in (2, 3):
        for tol in TOLS:
            for side in ("inside", "outside"):
                check_psd_boundary(ctx, d, side, tol, int(rng.integers(1 << 62)))


# ------------------------------------------------------------------------------------------------ entry points


def run(ctx, model_ok=True):
    matchers(ctx)
    tally = Tally()
    rng = ctx.rng
    quick = ctx.tier == "quick"
    # ---- corpus: the inputs behind the understood defect families come first
    run_map(ctx, tally, "stinespring", {"di": 3, "do": 2, "r": 2}, seed=11)       # is_quantum_channel on a 3 -> 2 Kraus list
    run_map(ctx, tally, "stinespring", {"di": 2, "do": 4, "r": 1}, seed=12)       # isometry 2 -> 4
    run_map(ctx, tally, "redundant", {"d": 2, "how": "unitary-split"}, seed=13)
    run_map(ctx, tally, "redundant", {"d": 3, "how": "zero-op"}, seed=14)
    run_map(ctx, tally, "transpose", {"d": 2}, seed=15)
    # ---- ground-truth maps
    reps = 1 if quick else 6
    for _ in range(reps):
        for di in (2, 3, 4):
            for do in (2, 3, 4):
                rs = [r for r in (1, 2, 3) if r * do >= di and r * do <= 9]
                for r in (rs if not quick else rs[:2]):
                    run_map(ctx, tally, "stinespring", {"di": di, "do": do, "r": r})
                run_map(ctx, tally, "int", {"di": di, "do": do, "r": int(rng.integers(1, 4)), "cp": True})
                run_map(ctx, tally, "int", {"di": di, "do": do, "r": int(rng.integers(1, 4)), "cp": False})
                run_map(ctx, tally, "planted", {"di": di, "do": do, "r": int(rng.integers(1, 3)), "extra": int(rng.integers(1, 3))})
                run_map(ctx, tally, "signed", {"di": di, "do": do})
                for what in ("tp", "herm", "cp"):
                    r = min(r for r in (1, 2, 3) if r * do >= di)
                    run_map(ctx, tally, "perturbed", {"di": di, "do": do, "r": r, "base": "stinespring", "what": what})
        for d in (2, 3, 4):
            run_map(ctx, tally, "unitary", {"d": d})
            run_map(ctx, tally, "unitary", {"d": d, "dyadic": True})
            run_map(ctx, tally, "mixture-sq", {"d": d})
            run_map(ctx, tally, "mixture-sq", {"d": d, "dyadic": True})
            run_map(ctx, tally, "mixture-dyadic", {"d": d})
            run_map(ctx, tally, "transpose", {"d": d})
            run_map(ctx, tally, "redundant", {"d": d, "how": "unitary-split"})
            run_map(ctx, tally, "redundant", {"d": d, "how": "zero-op"})
            for what in ("tp", "herm", "cp"):
                run_map(ctx, tally, "perturbed", {"di": d, "do": d, "r": 1, "base": "unitary", "what": what})
    # ---- constructors
    run_choi_constructors(ctx, tally, quick)
    run_qubit_constructors(ctx, tally, quick)
    run_pauli(ctx, tally, quick)
    # ---- maps whose Choi matrix fails to be Hermitian only on its diagonal (drawn after the streams above)
    for _ in range(reps):
        for (di, do) in ((2, 2), (2, 3), (3, 2), (3, 3), (4, 2)):
            r = min(r for r in (1, 2, 3) if r * do >= di)
            run_map(ctx, tally, "perturbed", {"di": di, "do": do, "r": r, "base": "stinespring", "what": "hermdiag"})
        for d in (2, 3):
            run_map(ctx, tally, "perturbed", {"di": d, "do": d, "r": 1, "base": "unitary", "what": "hermdiag"})
    # ---- extremal channels that are nearly degenerate: smallest singular value of the criterion matrix ~ 1e-5 ... 7e-7 (>= 500 tol)
    for _ in range(reps):
        for d in (2, 3):
            for n in (512, 1000, 2000):
                run_map(ctx, tally, "weak-damping", {"d": d, "n": n})
    # ---- minus a unitary conjugation, as the pair [[U, -U]] and as a Choi matrix (rank one, Hermitian, negative)
    for _ in range(reps):
        for d in (2, 3):
            run_map(ctx, tally, "neg-unitary", {"d": d})
            run_map(ctx, tally, "neg-unitary", {"d": d, "dyadic": True})
    # ---- lists that mix real-valued and complex operators, a real one in front (drawn last: the streams above are as before)
    for _ in range(reps):
        for d in (2, 3, 4):
            run_map(ctx, tally, "mixture-sq", {"d": d, "real_first": True})
            run_map(ctx, tally, "mixture-sq", {"d": d, "dyadic": True, "real_first": True})
            run_map(ctx, tally, "int", {"di": d, "do": int(rng.integers(2, 5)), "r": int(rng.integers(2, 4)), "cp": True, "mix": True})
            run_map(ctx, tally, "int", {"di": int(rng.integers(2, 5)), "do": d, "r": int(rng.integers(1, 4)), "cp": False, "mix": True})
    # ---- tolerance arithmetic: perturbations placed just inside / just outside atol + rtol*|b| for several (rtol, atol), against the exact mirror
    run_tolerance(ctx, quick)
    run_malformed(ctx)
    ctx.extra["tolerances"] = {"predicate verdicts": "exact deciders; compared only when decided with margin 100*(atol+rtol*scale)", "constructor entries": "0 where the closed form is exactly representable, else 1e-12",
                               "applied outputs": "1e-9*scale"}
    ctx.extra["defect_families"] = dict(tally.fam)


def replay(ctx, rec):
    matchers(ctx)
    tally = Tally()
    gen_ = rec.get("gen")
    if gen_ and gen_.get("name") in GENS:
        run_map(ctx, tally, gen_["name"], gen_["params"], seed=rec.get("case_seed"))
    elif rec.get("replay_kind") == "tolerance":
        run_tolerance(ctx, True)
    elif rec.get("replay_kind") == "malformed":
        run_malformed(ctx)
    else:
        # constructor cases are grid points: re-run the grids
        run_choi_constructors(ctx, tally, True)
        run_qubit_constructors(ctx, tally, True)
        run_pauli(ctx, tally, True)
