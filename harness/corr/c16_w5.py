"""C16 hardening (wave 5): two streams.

* `run_tp_skip`: is_totally_positive with an EXPLICIT sub_sizes that skips lower orders ([2], [3], [2,3], [1,3], [3,2]).  The minors of the
  listed orders are all that counts: integer matrices (found by a seeded search, every minor evaluated exactly) in which every minor of
  the listed orders made of CONSECUTIVE rows and columns is positive while a minor of a listed order on non-adjacent rows / columns is
  negative ("Fekete's criterion" needs the lower orders), matrices with negative entries whose minors of the listed orders are all
  positive (answer yes: order 1 is not looked at), and totally positive matrices (Pascal, Vandermonde, Cauchy) with one entry negated.
  Oracle: the exact decider `totallyPositiveVL` in Lean (c16_pred, sub_sizes passed through), as for every other predicate.
* `run_strict_fp`: the value of a function must not depend on NumPy's global floating-point error state.  vectors_from_gram_matrix,
  vectors_to_gram_matrix, kp_norm, trace_norm, majorizes and commutant are called under `harness.exact.strict_fp_call` (invalid /
  divide / overflow raise; 'invalid value' / 'divide by zero' RuntimeWarnings are errors) on the degenerate inputs where discarded
  0/0 or sqrt(negative residue) evaluations occur: Gram matrices whose triangular factor has an exactly zero pivot (a zero vector in
  the family, a repeated basis vector, the zero Gram matrix, rank-deficient products), zero / rank-deficient / zero-row matrices, zero
  vectors.  Demanded: the same outcome as in the default state (and for vectors_from_gram_matrix the round trip G -> vectors -> G).

All random choices come from generators of their own (seed, 16, tag): the streams of the older generators are unchanged.
"""
from __future__ import annotations

import itertools
from fractions import Fraction

import numpy as np

from toqito.matrix_ops import vectors_from_gram_matrix, vectors_to_gram_matrix
from toqito.matrix_props import commutant, kp_norm, majorizes, trace_norm

from ..exact import strict_fp_call


def w5_rng(ctx, tag):
    return np.random.default_rng([int(ctx.seed), 16, 500 + int(tag)])


# ------------------------------------------------------------------------------------------------
# is_totally_positive with sub_sizes that skip lower orders


def _det(rows):
    """exact determinant (Fractions / ints), Laplace expansion (orders <= 4)"""
    n = len(rows)
    if n == 1:
        return rows[0][0]
    if n == 2:
        return rows[0][0] * rows[1][1] - rows[0][1] * rows[1][0]
    return sum((-1) ** j * rows[0][j] * _det([r[:j] + r[j + 1:] for r in rows[1:]]) for j in range(n) if rows[0][j] != 0)


def minors(M, j):
    """[(rows, cols, value, adjacent?)] of all j x j minors of the list-of-lists matrix M"""
    r, c = len(M), len(M[0])
    out = []
    for kr in itertools.combinations(range(r), j):
        for kc in itertools.combinations(range(c), j):
            adj = (kr[-1] - kr[0] == j - 1) and (kc[-1] - kc[0] == j - 1)
            out.append((kr, kc, _det([[M[a][b] for b in kc] for a in kr]), adj))
    return out


def classify(M, sizes):
    """'fekete-gap': all adjacent minors of the listed orders > 0 and some non-adjacent one < 0, none zero;
    'yes-negative-entry': all minors of the listed orders > 0 and some entry < 0; None otherwise"""
    ms = [m for j in sizes for m in minors(M, j)]
    if any(v == 0 for _, _, v, _ in ms):
        return None
    if all(v > 0 for _, _, v, adj in ms if adj):
        if any(v < 0 for _, _, v, adj in ms if not adj):
            return "fekete-gap"
        if any(x < 0 for row in M for x in row):
            return "yes-negative-entry"
    return None


SKIPS = ([2], [3], [2, 3], [1, 3], [3, 2])


def search(rng, sizes, want, tries=4000):
    """seeded search for a small integer matrix of the wanted class; None if none is found"""
    jmax = max(sizes)
    for _ in range(tries):
        r = int(rng.integers(jmax, jmax + 3))
        c = int(rng.integers(jmax, jmax + 3))
        if r == jmax and c == jmax:       # a single minor of the top order: every minor of it is adjacent
            c += 1
        if rng.integers(2):
            r, c = c, r
        lim = int(rng.integers(2, 5))
        M = [[int(x) for x in row] for row in rng.integers(-lim, lim + 1, size=(r, c))]
        if 1 in sizes:
            M = [[abs(x) + 1 for x in row] for row in M]      # order 1 listed: entries positive, the gap sits in a higher order
        if classify(M, sizes) == want:
            return M
    return None


def _ask(ctx, C, M, sizes, label, kind):
    A = C.QM(np.array([[Fraction(x) for x in row] for row in M], dtype=object))
    lv = C.ask_pred(ctx, "totally_positive", A, {"sub_sizes": list(sizes)}, label, kind, expect=kind)
    if lv == kind:
        # the transpose has the transposed minors (same set of values; adjacency is preserved)
        C.ask_pred(ctx, "totally_positive", A.T, {"sub_sizes": list(sizes)}, label, kind, expect=kind, transformed="t_transpose")
    return lv


def run_tp_skip(ctx, C, corpus_only=False):
    rng = w5_rng(ctx, 1)
    # corpus: adjacent 2x2 minors +2, +2; the minor on columns (0, 2) is -4
    _ask(ctx, C, [[1, -1, 1], [1, 1, -3]], [2], "adjacent minors of order 2 positive, minor on columns (0,2) negative; sub_sizes=[2]", "no")
    _ask(ctx, C, [[1, -1], [1, 1]], [2], "negative entry, the only 2x2 minor is +2; sub_sizes=[2]", "yes")
    # 3 x 4: adjacent 3x3 minors +1, +1 (columns 012, 123), minor on columns (0,1,3) negative
    for sizes in SKIPS:
        for want, kind in (("fekete-gap", "no"), ("yes-negative-entry", "yes")):
            if want == "yes-negative-entry" and len(sizes) > 1:
                continue          # with order 1 listed there is none; for [2,3] the search finds none among small integer matrices
            for _ in range(1 if corpus_only else (2 if ctx.tier == "quick" else 12)):
                M = search(rng, sizes, want)
                if M is None:
                    ctx.count(f"w5/tp-skip/not-found/{want}/{sizes}")
                    continue
                ctx.count(f"w5/tp-skip/{want}/{sizes}")
                _ask(ctx, C, M, sizes, f"{want}: integer matrix found by exact search; sub_sizes={sizes}", kind)
    if corpus_only:
        return
    # totally positive matrices with one entry negated, explicit sub_sizes without order 1 (the exact decider gives the answer)
    for n in (3, 4):
        for base, lab in ((C.pascal(n), "pascal"), (C.vandermonde(list(range(1, n + 1)), n), "vandermonde"),
                          (C.cauchy(list(range(1, n + 1)), [Fraction(2 * k + 1, 2) for k in range(n)]), "cauchy")):
            for sizes in ([2], [3], [2, 3]):
                i, j = int(rng.integers(n)), int(rng.integers(n))
                B = base.copy()
                B.re[i, j] = -B.re[i, j]
                C.ask_pred(ctx, "totally_positive", B, {"sub_sizes": sizes}, f"{lab}({n}) with entry ({i},{j}) negated; sub_sizes={sizes}", "any")
                C.ask_pred(ctx, "totally_positive", base, {"sub_sizes": sizes}, f"{lab}({n}); sub_sizes={sizes}", "yes", expect="yes")


# ------------------------------------------------------------------------------------------------
# strict floating-point error state


def _same(a, b):
    """same value: equal shapes and entries (1e-12 relative: LAPACK calls are repeated, not shared)"""
    if isinstance(a, (list, tuple)) or isinstance(b, (list, tuple)):
        if not (isinstance(a, (list, tuple)) and isinstance(b, (list, tuple)) and len(a) == len(b)):
            return False
        return all(_same(x, y) for x, y in zip(a, b))
    a, b = np.asarray(a), np.asarray(b)
    if a.shape != b.shape:
        return False
    if a.dtype == bool or b.dtype == bool:
        return bool(np.array_equal(a, b))
    sc = 1.0 + (float(np.abs(a).max()) if a.size and np.all(np.isfinite(a)) else 0.0)
    return bool(np.allclose(a, b, rtol=0, atol=1e-12 * sc, equal_nan=True))


def strict_vs_default(ctx, C, fn, desc, *a, **k):
    """fn(*a, **k) in the default state and under StrictFP: same outcome.  Returns the default-state outcome."""
    name = getattr(fn, "__name__", "helper")
    guard = C.Pure(*a)
    d = C._safe(fn, *a, **k)
    s = strict_fp_call(C.quiet, fn, *a, **k)
    C.impure(ctx, guard, name, desc)
    ctx.case({"strict_fp": name, **desc}, True, f"strict-fp/{name}")
    if d[0] == "ok" and s[0] == "raise":
        C.viol(ctx, f"{name}: value depends on NumPy's floating-point error state (default state: a value; invalid/divide set to 'raise': {s[1]})",
               name, {"strict_fp": name, **desc}, s[1], str(d[1])[:200], "the function's value is a function of its arguments (mirror model has no global state)")
    elif d[0] == "ok" and s[0] == "ok" and not _same(d[1], s[1]):
        C.viol(ctx, f"{name}: value under the strict floating-point error state differs from the default-state value", name, {"strict_fp": name, **desc},
               str(s[1])[:200], str(d[1])[:200], "the function's value is a function of its arguments (mirror model has no global state)")
    elif d[0] == "raise" and s[0] == "ok":
        C.viol(ctx, f"{name}: raises in the default state ({d[1]}) but not under the strict floating-point error state", name, {"strict_fp": name, **desc},
               str(s[1])[:200], d[1], None)
    return d


def gram_families(rng):
    """[(label, V (d x n, integer entries, columns = vectors), complex?)] with an exactly zero pivot in the triangular factor"""
    out = [
        ("repeated basis vector [e1, e1, e2]", np.array([[1, 1, 0], [0, 0, 1]]), False),
        ("zero Gram matrix (two zero vectors)", np.zeros((2, 2), dtype=int), False),
        ("zero Gram matrix (1 x 1)", np.zeros((1, 1), dtype=int), False),
        ("zero vector last", np.array([[1, 2, 0], [-1, 1, 0], [2, 0, 0]]), False),
        ("zero vector first (complex)", np.array([[0, 1 + 1j, 2], [0, -1j, 1], [0, 2, 1 - 2j]]), True),
        ("[e1, e2, e1, e2]", np.array([[1, 0, 1, 0], [0, 1, 0, 1]]), False),
        ("[v, 2v]", np.array([[1, 2], [2, 4], [-1, -2]]), False),
    ]
    for _ in range(6):
        d, n = int(rng.integers(1, 5)), int(rng.integers(2, 6))
        cplx = bool(rng.integers(2))
        V = rng.integers(-3, 4, size=(d, n)).astype(complex if cplx else int)
        if cplx:
            V = V + 1j * rng.integers(-3, 4, size=(d, n))
        kind = int(rng.integers(3))
        if kind == 0:                                  # a zero vector somewhere
            V[:, int(rng.integers(n))] = 0
            lab = "random integer family with a zero vector"
        elif kind == 1:                                # a repeated member
            i, j = (int(x) for x in rng.choice(n, size=2, replace=False))
            V[:, j] = V[:, i]
            lab = "random integer family with a repeated member"
        else:                                          # standard basis vectors with repetitions
            V = np.eye(d, dtype=int)[:, [int(x) for x in rng.integers(d, size=n)]].astype(complex if cplx else int)
            lab = "standard basis vectors with repetitions"
        out.append((lab, V, cplx))
    return out


def run_strict_fp(ctx, C):
    rng = w5_rng(ctx, 2)
    # --- Gram matrices
    for lab, V, cplx in gram_families(rng):
        d, n = V.shape
        desc = {"V": C.gmat_json(V), "label": lab}
        vs = [V[:, k].astype(complex if cplx else float) for k in range(n)]
        G = strict_vs_default(ctx, C, vectors_to_gram_matrix, desc, vs)
        if G[0] != "ok":
            continue
        Gm = np.asarray(G[1]).astype(complex if cplx else float)
        back = strict_vs_default(ctx, C, vectors_from_gram_matrix, desc, Gm)
        if back[0] == "ok":
            # the degenerate family goes through the round trip as well (default state)
            ws = [np.asarray(w).reshape(-1) for w in back[1]]
            try:
                res = float(np.abs(np.asarray(vectors_to_gram_matrix(ws)) - Gm).max())
            except Exception:  # noqa: BLE001
                res = float("inf")
            if len(ws) != n or not (res <= 1e-8 * (1 + float(np.abs(Gm).max()))):
                C.viol(ctx, f"Gram round trip: vectors_to_gram_matrix(vectors_from_gram_matrix(G)) differs from G by {res:.3g}", "vectors_from_gram_matrix",
                       {"op": "gram", "V": C.gmat_json(V), "rank_cap": None}, None, None, "gram_of_conj_rows / gram_eig_branch_factor (Toq.C16)")
        else:
            C.viol(ctx, "vectors_from_gram_matrix raised on a Gram matrix", "vectors_from_gram_matrix", {"op": "gram", "V": C.gmat_json(V), "rank_cap": None}, back[1])
    # --- norms, majorization, commutant on zero / rank-deficient matrices
    mats = [("zero 2x2", np.zeros((2, 2))), ("zero 2x3", np.zeros((2, 3))), ("rank 1 (outer product)", np.outer([1.0, 2.0, -1.0], [2.0, 0.0, 1.0])),
            ("zero row", np.array([[1.0, 2.0], [0.0, 0.0]])), ("diag(1,0,0)", np.diag([1.0, 0.0, 0.0])),
            ("complex rank 1", np.outer([1, 1j], [1, -1j]).astype(complex)), ("projector |+><+|", np.full((2, 2), 0.5))]
    for _ in range(3):
        r, c = int(rng.integers(2, 5)), int(rng.integers(2, 5))
        k = int(rng.integers(1, min(r, c)))
        M = (rng.integers(-2, 3, size=(r, k)) @ rng.integers(-2, 3, size=(k, c))).astype(float)
        M[int(rng.integers(r)), :] = 0
        mats.append((f"random integer rank<={k} with a zero row", M))
    for lab, M in mats:
        desc = {"M": [[str(x) for x in row] for row in M.tolist()], "label": lab}
        strict_vs_default(ctx, C, trace_norm, desc, M)
        for kk, p in ((1, 1), (min(M.shape), 2), (min(M.shape), 1), (1, "inf"), (2, 3)):
            if kk <= min(M.shape):
                strict_vs_default(ctx, C, kp_norm, {**desc, "k": kk, "p": str(p)}, M, kk, np.inf if p == "inf" else p)
        strict_vs_default(ctx, C, majorizes, {**desc, "second": "itself"}, M, M)
        strict_vs_default(ctx, C, majorizes, {**desc, "second": "zero"}, M, np.zeros_like(M))
        strict_vs_default(ctx, C, majorizes, {**desc, "first": "zero"}, np.zeros_like(M), M)
        if M.shape[0] == M.shape[1]:
            strict_vs_default(ctx, C, commutant, desc, M)
            strict_vs_default(ctx, C, commutant, {**desc, "form": "list [M, M]"}, [M, M.copy()])
    for a, b in (([0, 0, 0], [0, 0, 0]), ([1, 0, 0], [0.5, 0.5, 0]), ([0, 0], [1, 0]), ([1, 0, 0], [1, 0]), ([2, 0], [1, 1, 0])):
        strict_vs_default(ctx, C, majorizes, {"a": a, "b": b}, np.array(a, dtype=float), np.array(b, dtype=float))
        strict_vs_default(ctx, C, majorizes, {"a": a, "b": b, "form": "list"}, list(a), list(b))
