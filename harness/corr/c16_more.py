"""C16, further streams: `tensor_comb`, `perturb_vectors`, and the argument guards of the helper functions
(mirrors: `tensorComb`, `isSquareShape`, `sparkGuard`, `gramGuard` in Toq/Model/MatrixOps.lean)."""
from __future__ import annotations

import itertools

import numpy as np

from toqito.matrix_ops import (calculate_vector_matrix_dimension, perturb_vectors, tensor_comb, vectors_from_gram_matrix,
                               vectors_to_gram_matrix)
from toqito.matrix_props import is_hermitian, is_square, spark

from ..exact import Pure, case_rng, describe, present_obj


def check_tensor_comb(ctx, C, n_states, dim, k, cplx, form):
    rng = ctx.rng
    shape = (dim,) if form == "1d" else (dim, 1)
    states = [C.rint(rng, shape, cplx, 4) for _ in range(n_states)]
    desc = {"op": "tensor_comb", "states": [C.gmat_json(s) for s in states], "form": form, "k": k}
    ctx.case(desc, n_states >= 2 and dim >= 2 and k >= 2, f"ops/tensor_comb/{form}/k={k}")
    prng = case_rng("c16/tensor_comb", desc)
    arg = present_obj(prng, list(states))
    guard = Pure(arg)
    out = C._safe(tensor_comb, arg, k)
    C.impure(ctx, guard, "tensor_comb", desc, describe(arg))
    mats = [C.gmat_json(s if form == "1d" else s) for s in states]
    mo = ctx.lean().ask("c16_tensor_comb", {"states": mats, "k": k, "is1d": form == "1d"})
    if "reject" in mo:
        if not (out[0] == "raise" and out[1].startswith("ValueError")):
            C.viol(ctx, "tensor_comb: the model raises ValueError, the implementation does not", "tensor_comb", desc, str(out)[:200], mo)
        return
    if out[0] != "ok":
        return C.viol(ctx, "tensor_comb raised", "tensor_comb", desc, out[1], None)
    res = out[1]
    want_keys = [tuple(e["seq"]) for e in mo["entries"]]
    if list(res.keys()) != want_keys:
        return C.viol(ctx, "tensor_comb: the keys are not itertools.product(range(n), repeat=k) in order", "tensor_comb", desc, str(list(res.keys()))[:200], want_keys[:8])
    for e in mo["entries"]:
        got = res[tuple(e["seq"])]
        if not C.same_as_model(got, e["rho"], (e["rho"]["r"], e["rho"]["c"])):
            return C.viol(ctx, f"tensor_comb[{e['seq']}] differs from the density matrix of the Kronecker product of the chosen states", "tensor_comb",
                          {**desc, "seq": e["seq"]}, str(got)[:300], e["rho"], "tensor_comb_density_of_product (Toq.C16)")
    # density of a product = product of densities (implementation side)
    for seq in list(res.keys())[:4]:
        ds = [np.outer(states[i].reshape(-1), states[i].reshape(-1).conj()) for i in seq]
        kr = ds[0]
        for d_ in ds[1:]:
            kr = np.kron(kr, d_)
        if not np.array_equal(kr, res[seq]):
            C.viol(ctx, "tensor_comb: (u (x) v)(u (x) v)^H != u u^H (x) v v^H", "tensor_comb", {**desc, "seq": list(seq)}, str(res[seq])[:200], None,
                   "tensor_comb_density_of_product (Toq.C16)")


def _expect(ctx, C, label, fn, model, exc):
    """guard case: `model` is the mirror's answer ({"reject": ...} or a value), `exc` the exception type the code raises on rejection"""
    try:
        val = C.quiet(fn)
        iv = ("ok", val)
    except Exception as e:  # noqa: BLE001
        iv = ("raise", type(e).__name__)
    ctx.case({"guard": label}, True, "ops/guards")
    if isinstance(model, dict) and "reject" in model:
        ok = iv == ("raise", exc)
    else:
        ok = iv[0] == "ok" and (model is None or bool(iv[1]) == bool(model))
    if not ok:
        ctx.violation(f"argument guard: {label}: implementation {iv}, mirror {model}", {"function": label, "impl": str(iv), "model": model,
                                                                                     "theorem": "mirror of the guard (Toq/Model/MatrixOps.lean)"})


def run_guards(ctx, C):
    ask = lambda name, **kw: ctx.lean().ask("c16_guard", {"name": name, **kw})  # noqa: E731
    for shape in [(3,), (2, 2, 2), (2, 3), (3, 3), (1, 1)]:
        m = ask("is_square", shape=list(shape))
        _expect(ctx, C, f"is_square{shape}", lambda s=shape: is_square(np.zeros(s)), m if "reject" in m else m["v"], "ValueError")
        if len(shape) != 2:
            _expect(ctx, C, f"is_hermitian{shape}", lambda s=shape: is_hermitian(np.zeros(s)), m, "ValueError")
    for label, arg, nd, shape in [("list", [[1, 0], [0, 1]], False, [2, 2]), ("1d", np.ones(3), True, [3]), ("3d", np.ones((2, 2, 2)), True, [2, 2, 2]),
                                  ("2d", np.eye(2), True, [2, 2])]:
        m = ask("spark", ndarray=nd, shape=shape)
        _expect(ctx, C, f"spark({label})", lambda a=arg: spark(a), m if "reject" in m else None, "ValueError")
    for label, shapes in [("(2,),(3,)", [(2,), (3,)]), ("(2,),(2,1)", [(2,), (2, 1)]), ("(2,1),(2,1)", [(2, 1), (2, 1)]), ("(3,),(3,),(3,)", [(3,)] * 3)]:
        m = ask("gram", shapes=[list(s) for s in shapes])
        _expect(ctx, C, f"vectors_to_gram_matrix{label}", lambda ss=shapes: vectors_to_gram_matrix([np.ones(s) for s in ss]), m if "reject" in m else None, "ValueError")
    m = ask("from_gram", shape=[2, 3])
    _expect(ctx, C, "vectors_from_gram_matrix(2x3)", lambda: vectors_from_gram_matrix(np.zeros((2, 3))), m, "LinAlgError")
    m = ask("calc_dim_list")
    _expect(ctx, C, "calculate_vector_matrix_dimension(list)", lambda: calculate_vector_matrix_dimension([1, 2, 3]), m, "ValueError")
    _expect(ctx, C, "tensor_comb([], 2)", lambda: tensor_comb([], 2), ctx.lean().ask("c16_tensor_comb", {"states": [], "k": 2, "is1d": True}), "ValueError")


def run_perturb(ctx, C):
    """perturb_vectors: eps = 0 returns the vectors unchanged; eps > 0 returns unit vectors (the only deterministic facts)"""
    rng = ctx.rng
    for _ in range(4):
        d, n = int(rng.integers(1, 5)), int(rng.integers(1, 4))
        vs = [C.rint(rng, (d,), False, 4, dtype="float64") + (0 if rng.integers(2) else 0.5) for _ in range(n)]
        desc = {"op": "perturb_vectors", "vs": [v.tolist() for v in vs]}
        ctx.case(desc, d >= 2, "ops/perturb_vectors")
        guard = Pure(vs)
        out0 = C._safe(perturb_vectors, vs, 0)
        st = np.random.get_state()
        np.random.seed(int(rng.integers(2 ** 31)))
        out1 = C._safe(perturb_vectors, vs, 0.1)
        np.random.set_state(st)
        C.impure(ctx, guard, "perturb_vectors", desc)
        if out0[0] != "ok" or not np.array_equal(np.asarray(out0[1]), np.array(vs)):
            C.viol(ctx, "perturb_vectors(eps=0) must return the vectors unchanged", "perturb_vectors", desc, str(out0)[:200])
        if out1[0] != "ok" or np.asarray(out1[1]).shape != (n, d) or not (np.abs(np.linalg.norm(np.asarray(out1[1]), axis=1) - 1).max() <= 1e-12):
            C.viol(ctx, "perturb_vectors(eps>0) must return unit vectors of the same shape", "perturb_vectors", desc, str(out1)[:200])


def run_more(ctx, C):
    rng = ctx.rng
    for form in ("1d", "col"):
        for k in (1, 2, 3):
            for _ in range(2):
                check_tensor_comb(ctx, C, int(rng.integers(1, 4)), int(rng.integers(1, 4)), k, bool(rng.integers(2)), form)
    run_guards(ctx, C)
    run_perturb(ctx, C)
