"""C14: entanglement / entropy quantities of toqito against exact ground truth.

Every input has exactly known structure.  A bipartite pure state is psi = (U (x) V) sum_i s_i |i i> with a chosen Schmidt
vector s (rational: psi is then a vector over Q[i], computed by the Lean model `kronApply`, and the float handed to toqito is its
correctly rounded image; or with rational squares only) and exact rational Cayley unitaries U, V.  The Lean driver supplies the
exact oracles: Schmidt rank (Gaussian elimination over Q[i] on the mirror of `np.reshape(rho, dim)`, proved equal to Matrix.rank
(`C14.rankQ_eq_rank`, `schmidtRankVec_eq_rank`, `schmidtRankOp_eq_rank`) and cross-checked by the verified rank-certificate checker `rankCert`), operator Schmidt rank (mirror of `_operator_schmidt_rank` = rank of the realigned matrix),
product verdicts (all 2x2 minors vanish), purity tr rho^2, and the closed forms (negativity, log-negativity argument, squared
Schmidt coefficients, S(k) vector norm squared, concurrence) as exact rationals.  Integer / boolean results are compared exactly,
floats within the stated tolerances."""
from __future__ import annotations

import contextlib
import io
import itertools
import math
import warnings
from fractions import Fraction

import numpy as np

from ..exact import Pure, case_rng, describe, present_nd, strict_fp_call
from ..pool import run_pool, worker_driver
from . import c14_skcert as skc
from toqito.matrix_props import is_block_positive, sk_operator_norm
from toqito.state_ops import schmidt_decomposition
from toqito.state_props import (concurrence, entanglement_of_formation, is_product, l1_norm_coherence, log_negativity,
                                negativity, purity, schmidt_rank, sk_vector_norm, von_neumann_entropy)

RULE = ("pure states: every pair of local dimensions in {2,3,4}^2 x every Schmidt rank 1..min(dA,dB) x a pool of Schmidt vectors "
        "(rational Pythagorean tuples in seeded random diagonal order with zeros interleaved, plus vectors with rational squares only) x "
        "seeded complex rational Cayley unitaries U, V; every function is called in every input form it accepts (1-D vector, column "
        "vector, density matrix) and every dim form (list, ndarray, scalar, omitted for equal dims), k = 1..min(dA,dB), k_param = 0..min. "
        "mixed states: exact rational rho = sum c_i v_i v_i^H / trace (ranks 2..full) and U diag(q) U^H with rational spectrum, rotated by exact "
        "local unitaries (the rotated state is computed exactly by the Lean model).  product test: exact products of Gaussian-integer "
        "vectors / operators (2 and 3 parties, unequal dims) and the same plus 2^-k times a second product (exactly entangled, second "
        "Schmidt coefficient >= 1e-7 relative).  S(k) operator norm / block positivity: a*I + b*|psi><psi| (closed form a + b*sum of k largest "
        "s_i^2), rank-one operators, projectors containing a rank-k vector, random PSD operators against explicit Schmidt-rank-<=k vectors "
        "(2x2, 2x3, 3x2 with every dim form; three 3x3 cases with list dims in the quick tier; 3x3 and 2x4 in full in the thorough tier).  non-trivial = Schmidt rank >= 2 or unequal local dimensions (pure), rank >= 2 (mixed), "
        ">= 2 parties with a non-identity local rotation; distinct = hash of the exact case description. "
        "Presentation: every ndarray argument of every toqito call (state vectors, column vectors, density matrices / operators, dim arrays) is a re-presentation "
        "of the same values determined by the case (C / Fortran / strided / permuted-stride layout; zero imaginary part also as float64, integer values also as "
        "int64; dim arrays keep their integer dtype), and after every call all arguments are compared with a deep snapshot. "
        "Strict-fp stream: on every planted pure state (1-D vector, column vector, density matrix; list dims) negativity, log_negativity, is_product, schmidt_rank, "
        "entanglement_of_formation, schmidt_decomposition, l1_norm_coherence, purity, von_neumann_entropy (and concurrence on 2x2), and on both factors and the product of every "
        "additive case von_neumann_entropy and purity, are called once in the default state and once with NumPy's error state set to raise for invalid / divide / overflow and the "
        "corresponding RuntimeWarnings turned into errors (harness.exact.StrictFP): the same value must come back. "
        "S(k) operator norm with a CERTIFIED two-sided bracket (process pool): projections onto completely entangled subspaces (span{|i,j> - |i+1,j-1>}: the first r basis "
        "vectors, seeded sub-selections and random r-dimensional subspaces of it, also rotated by Haar local unitaries and scaled by 5/2, 3/10) of every rank r <= (dA-1)(dB-1) on 2x3, "
        "2x4, 3x3 and ranks 2, 3, 6 on 3x4 (all six in the thorough tier), projections containing a product vector, random positive semidefinite operators (k = 1 .. min(dA,dB)), "
        "indefinite Hermitian operators, the zero operator, effort = 0 / 1 / 2; per operator the exact dyadic image of the float matrix is the instance, an upper certificate "
        "(dual point of the PPT relaxation for k = 1, of the reduction-map relaxation for k >= 2, from an independent CLARABEL solve, rounded and repaired) and a lower certificate "
        "(explicit vector with k product terms, second factors exactly orthogonal) are judged by the Lean checkers; demanded: lower bound <= UB + tol, upper bound >= LB - tol; "
        "non-trivial = UB - LB <= 1e-3*scale.  Second level for k = 1 (2x4, 4x2, 3x3: the first sizes where the PPT relaxation is not exact): operators whose PPT optimum sits at a "
        "PPT-entangled state -- lmax(W)*1 - W with W = al*P + (1-al)*Q^{T_B} built from the kernel projectors of Horodecki's 2x4 edge state rho_b and of its partial transpose "
        "(b in {3/20, 1/5, 1/4}, al in {2/5, 1/2, 3/5}; as given, rotated by Haar local unitaries, and with the parties exchanged to 4x2; PPT optimum exceeds the product-vector "
        "maximum by 3e-3 .. 4e-3 of the norm) and the projector onto the complement of the Tiles unextendible product basis on 3x3 (gap 2.8e-2), also rotated / scaled; there, and on "
        "every k = 1 instance of those sizes whose PPT-level bracket is wider than 1e-3, UB is the smaller of the PPT bound and the verified two-copy bound (dual point of the "
        "Bose-symmetric two-copy extension program with one partial transpose, C14.checkSkUpperDps_sound); non-trivial there = UB - LB <= 1e-3*scale AND PPT-level bound - UB >= 2.5*tol.  is_block_positive(rho^T_B +- 0.15*1, 1) against the certified bracket of sup <v|(c - W)|v>.  "
        "Weakly entangled states: planted Schmidt vectors with one or two coefficients of relative size 1e-8, 1e-9, 1e-10, 1e-12 (exact rationals, exact Cayley local unitaries or none; "
        "all dim forms; schmidt_rank, is_product, schmidt_decomposition, sk_vector_norm) and product + 2^-s * second product with s in {27, 30, 33, 37} (vectors) / {27, 30, 33} (operators), "
        "kept only if exactly representable and the second singular value is >= 100x the largest cut-off (N * 2.3e-16) of any routine.  "
        "dim argument: schmidt_rank is compared with the Lean mirror that receives the RAW argument (omitted / integer / pair) and resolves it itself; operators also with the 2-D form [[dA,dB],[dA,dB]]")
ASSUMPTIONS = [
    "rounding an exact vector/matrix over Q[i] to float64 moves every entry by <= 2^-53 relative; LAPACK svd / eigvals / nuclear norm are accurate to 1e-9*scale on these inputs (sizes <= 16)",
    "concurrence and the two-qubit mixed entanglement of formation take square roots of eigenvalues that can be exactly 0 (rank-deficient states): rounding 1e-16 becomes 1e-8, so they are compared with 1e-6 (closed form) and 1e-5 (invariance)",
    "numpy.linalg.matrix_rank uses the cut-off max(M,N)*eps*sigma_max: exact-rank inputs have float noise ~1e-16, non-zero singular values are >= 1e-7 relative",
    "entanglement_of_formation needs a 2-D input (column vector or matrix): 1-D arrays are not in its domain and are not generated",
    "the l1-norm of coherence is basis dependent; its invariance is checked under local incoherent unitaries (phase x permutation matrices), the only local unitaries that preserve it for every state",
    "S(k) operator norm and block positivity: tolerance 1e-3*max(1, operator norm) because cvxpy solves these Hermitian SDPs with SCS (observed deviations from closed forms up to 3e-5). "
    "The certified bracket [LB, UB] is exact (Lean checkers over Q[i]) for the exact dyadic image of the float operator; the candidates (CLARABEL dual solve, alternating maximisation) are untrusted. "
    "UB is the optimum of the PPT (k = 1) / reduction-map (k >= 2) relaxation up to 1e-6, so on operators where the relaxation has a gap (e.g. rank-3 completely entangled projection on 3x3: 0.8014 vs 0.7941) "
    "the lower side is certified only up to that gap (counted as sk_cert/uncertified-wide); for k = 1 and dA*dB*dB <= 36 the verified two-copy bound closes that gap (to 1e-6 on the instances generated).  For indefinite Hermitian operators the routine brackets sup |<w|X|v>| over two vectors, of which only the attained "
    "values |<v|X|v>| are certified (one-sided)",
    "weakly entangled states: the clean cut-offs are eps*max(dim)*s_max (matrix_rank, schmidt_decomposition) and eps*prod(dim)*s_max (is_product), i.e. <= 3.6e-15 relative for the sizes generated; planted small coefficients are >= 1e-12 relative "
    "(>= 280 x cut-off); rounding the exact rotated vector to float64 moves singular values by <= 1.2e-16*s_max; operator Schmidt ranks of |psi><psi| are not requested for these states (coefficients s_i*s_j would fall below the cut-off)",
    "is_block_positive returns a RuntimeError object (not raised) when undetermined; inputs have margin >= 10% from the boundary, an undetermined answer there is reported",
    "exact Cayley unitaries, exact products and the rank certificates are produced by the harness in Fraction arithmetic (untrusted) and verified exactly by the Lean driver (unitarity, rank certificate, planted norm)",
]

TOL = 1e-9       # LAPACK-based scalar values, times scale
TOL_DEC = 1e-10  # residuals of schmidt_decomposition
TOL_INV = 1e-8   # invariance under local unitaries
TOL_SQRT = 1e-6  # concurrence closed form
TOL_SQRT_INV = 1e-5
TOL_SDP = 1e-3   # cvxpy picks SCS for the Hermitian SDPs of sk_operator_norm (observed errors up to 3e-5)


# ------------------------------------------------------------------------------------------------ exact complex rationals

class CQ:
    __slots__ = ("re", "im")

    def __init__(self, re=0, im=0):
        self.re = Fraction(re)
        self.im = Fraction(im)

    def __add__(self, o):
        return CQ(self.re + o.re, self.im + o.im)

    def __sub__(self, o):
        return CQ(self.re - o.re, self.im - o.im)

    def __mul__(self, o):
        return CQ(self.re * o.re - self.im * o.im, self.re * o.im + self.im * o.re)

    def __neg__(self):
        return CQ(-self.re, -self.im)

    def conj(self):
        return CQ(self.re, -self.im)

    def inv(self):
        n = self.re * self.re + self.im * self.im
        return CQ(self.re / n, -self.im / n)

    def is_zero(self):
        return self.re == 0 and self.im == 0

    def __eq__(self, o):
        return self.re == o.re and self.im == o.im

    def __hash__(self):
        return hash((self.re, self.im))

    def __complex__(self):
        return complex(float(self.re), float(self.im))


ZERO, ONE = CQ(0), CQ(1)


def xm_from(a):
    """complex ndarray with exactly representable entries -> exact matrix (list of rows of CQ)"""
    a = np.asarray(a)
    if a.ndim == 1:
        return [CQ(Fraction(float(np.real(x))), Fraction(float(np.imag(x)))) for x in a]
    return [[CQ(Fraction(float(np.real(x))), Fraction(float(np.imag(x)))) for x in row] for row in a]


def xm_mul(A, B):
    n, k, m = len(A), len(B), len(B[0])
    out = []
    for i in range(n):
        row = []
        for j in range(m):
            acc = ZERO
            for l in range(k):
                if not A[i][l].is_zero() and not B[l][j].is_zero():
                    acc = acc + A[i][l] * B[l][j]
            row.append(acc)
        out.append(row)
    return out


def xm_ct(A):
    return [[A[i][j].conj() for i in range(len(A))] for j in range(len(A[0]))]


def xm_T(A):
    return [[A[i][j] for i in range(len(A))] for j in range(len(A[0]))]


def xm_eye(n):
    return [[ONE if i == j else ZERO for j in range(n)] for i in range(n)]


def xm_kron(A, B):
    return [[A[i][j] * B[k][l] for j in range(len(A[0])) for l in range(len(B[0]))] for i in range(len(A)) for k in range(len(B))]


def xm_float(A):
    if A and isinstance(A[0], CQ):
        return np.array([complex(x) for x in A], dtype=complex)
    return np.array([[complex(x) for x in row] for row in A], dtype=complex)


def xm_json(A):
    """{"den": D, "re": [...], "im": [...]} row-major"""
    flat = A if (A and isinstance(A[0], CQ)) else [x for row in A for x in row]
    den = 1
    for x in flat:
        den = math.lcm(den, x.re.denominator, x.im.denominator)
    return {"den": den, "re": [int(x.re * den) for x in flat], "im": [int(x.im * den) for x in flat]}


def xm_of_json(o, rows=None, cols=None):
    den = o["den"]
    im = o.get("im") or [0] * len(o["re"])
    flat = [CQ(Fraction(r, den), Fraction(i, den)) for r, i in zip(o["re"], im)]
    if rows is None:
        return flat
    return [flat[i * cols:(i + 1) * cols] for i in range(rows)]


def cq_of_lean(p):
    return CQ(Fraction(p[0][0], p[0][1]), Fraction(p[1][0], p[1][1]))


def fr_of_lean(p):
    return Fraction(p[0], p[1])


def rj(x):
    x = Fraction(x)
    return [x.numerator, x.denominator]


def gauss_jordan(A):
    """exact elimination of [A | I]: returns rank r, pivot columns, reduced rows R (n x m), transform E (n x n) with E A = R"""
    n, m = len(A), len(A[0])
    M = [list(A[i]) + [ONE if i == j else ZERO for j in range(n)] for i in range(n)]
    r, piv = 0, []
    for c in range(m):
        p = next((i for i in range(r, n) if not M[i][c].is_zero()), None)
        if p is None:
            continue
        M[r], M[p] = M[p], M[r]
        inv = M[r][c].inv()
        M[r] = [x * inv for x in M[r]]
        for i in range(n):
            if i != r and not M[i][c].is_zero():
                f = M[i][c]
                M[i] = [x - f * y for x, y in zip(M[i], M[r])]
        piv.append(c)
        r += 1
        if r == n:
            break
    return r, piv, [row[:m] for row in M], [row[m:] for row in M]


def xm_inv(A):
    n = len(A)
    r, _, _, E = gauss_jordan(A)
    if r != n:
        raise ValueError("singular")
    return E


def rank_certificate(A):
    """(r, B, C, L, R) with A = B C (inner size r) and L A R = 1_r"""
    n, m = len(A), len(A[0])
    r, piv, Rr, E = gauss_jordan(A)
    B = [[A[i][c] for c in piv] for i in range(n)]
    C = [Rr[k] for k in range(r)]
    L = [E[k] for k in range(r)]
    R = [[ONE if piv[k] == j else ZERO for k in range(r)] for j in range(m)]
    return r, B, C, L, R


def exact_cayley(rng, d, cplx=True, lim=3):
    A = rng.integers(-lim, lim + 1, size=(d, d)).astype(complex)
    if cplx:
        A = A + 1j * rng.integers(-lim, lim + 1, size=(d, d))
    S = [[CQ(Fraction(int((A[i, j] - np.conj(A[j, i])).real), 4), Fraction(int((A[i, j] - np.conj(A[j, i])).imag), 4)) for j in range(d)]
         for i in range(d)]
    I = xm_eye(d)
    ImS = [[I[i][j] - S[i][j] for j in range(d)] for i in range(d)]
    IpS = [[I[i][j] + S[i][j] for j in range(d)] for i in range(d)]
    return xm_mul(ImS, xm_inv(IpS))


def incoherent_unitary(rng, d):
    """phase x permutation matrix with phases in {1, i, -1, -i}"""
    p = rng.permutation(d)
    ph = [CQ(1), CQ(0, 1), CQ(-1), CQ(0, -1)]
    return [[ph[int(rng.integers(4))] if p[i] == j else ZERO for j in range(d)] for i in range(d)]


# ------------------------------------------------------------------------------------------------ helpers

# presentation context of the case being checked: set by `run_case`, used by every toqito call (they all go through `_call`)
_PRES = {"rng": None, "fail": None}


def _present_arg(rng, x):
    if isinstance(x, np.ndarray):
        return present_nd(rng, x, allow_dtype=x.dtype.kind not in "iub")     # integer (dim) arrays keep their dtype
    return x


def _call(fn, *a, **k):
    rng = _PRES["rng"]
    guard = None
    if rng is not None:
        a = tuple(_present_arg(rng, x) for x in a)
        guard = Pure(*a, **k)
    try:
        with warnings.catch_warnings(), contextlib.redirect_stdout(io.StringIO()):
            warnings.simplefilter("ignore")
            out = ("ok", fn(*a, **k))
    except Exception as e:  # noqa: BLE001
        out = ("raise", f"{type(e).__name__}: {str(e)[:200]}")
    if guard is not None:
        why = guard.modified()
        if why:
            _PRES["fail"](getattr(fn, "__name__", str(fn)), why, describe(list(a)))
    return out


def _plain_call(fn, *a):
    """('ok', value) | ('raise', 'Type: msg') in the default NumPy error state, arguments handed over as they are (no presentation, no random draws)"""
    try:
        with warnings.catch_warnings(), contextlib.redirect_stdout(io.StringIO()):
            warnings.simplefilter("ignore")
            return "ok", fn(*a)
    except Exception as e:  # noqa: BLE001
        return "raise", f"{type(e).__name__}: {str(e)[:200]}"


def _same_value(v, w):
    """two results of the same call on the same objects: equal (nested tuples / lists / None / arrays / scalars), floats up to 1e-12 absolute"""
    if v is None or w is None:
        return v is None and w is None
    if isinstance(v, (tuple, list)) or isinstance(w, (tuple, list)):
        return isinstance(v, (tuple, list)) and isinstance(w, (tuple, list)) and len(v) == len(w) and all(_same_value(x, y) for x, y in zip(v, w))
    try:
        x, y = np.asarray(v), np.asarray(w)
        if x.shape != y.shape:
            return False
        if x.dtype.kind in "biu" or y.dtype.kind in "biu":
            return bool(np.array_equal(x, y))
        return bool(np.array_equal(x, y) or np.max(np.abs(x - y)) <= 1e-12)
    except Exception:  # noqa: BLE001
        return False


def strict_fp_same(t, name, fn, args, what, **info):
    """the call in the default state and again under harness.exact.StrictFP (NumPy's error state 'raise' for invalid / divide / overflow, the corresponding RuntimeWarnings
    errors): a specified value is a function of the arguments, so the same value must come back.  sqrt / log / division evaluated on the exact zeros or the rounding residues of
    a rank-deficient state and masked afterwards (np.where) is invisible in the default state and raises here.  The default-state value is the one the surrounding check compares
    with its closed form."""
    st0, v0 = _plain_call(fn, *args)
    if st0 != "ok":
        return   # judged by the surrounding check
    with contextlib.redirect_stdout(io.StringIO()):
        st1, v1 = strict_fp_call(fn, *args)
    t.ctx.count(f"strict-fp/{name}")
    if st1 != "ok":
        t.fail(f"{name}({what}): value depends on NumPy's floating-point error state: {str(v0)[:80]!r} in the default state, {v1} under np.seterr(invalid/divide/over='raise')",
               function=name, stream="strict-fp", impl_default_state=repr(v0)[:300], impl_strict_state=v1, **info)
    elif not _same_value(v1, v0):
        t.fail(f"{name}({what}): value depends on NumPy's floating-point error state: {str(v0)[:80]!r} in the default state, {str(v1)[:80]!r} under np.seterr(invalid/divide/over='raise')",
               function=name, stream="strict-fp", impl_default_state=repr(v0)[:300], impl_strict_state=repr(v1)[:300], **info)


def H2(p):
    return float(-sum(float(x) * math.log2(float(x)) for x in p if x > 0))


def close(a, b, tol, scale=1.0):
    try:
        a = complex(a)
    except Exception:  # noqa: BLE001
        return False
    return abs(a - complex(b)) <= tol * max(1.0, abs(scale), abs(complex(b)))


def dim_forms(dA, dB):
    out = [("list", [dA, dB]), ("array", np.array([dA, dB])), ("scalar", dA)]
    if dA == dB:
        out.append(("omitted", None))
    return out


def with_dim(fn, x, *pre, dim):
    """call fn(x, *pre, dim) / fn(x, *pre) when omitted"""
    if dim is None:
        return _call(fn, x, *pre)
    return _call(fn, x, *pre, dim)


SVEC = {
    1: [["1"]],
    2: [["3/5", "4/5"], ["12/13", "5/13"], ["8/17", "15/17"], ["7/25", "24/25"]],
    3: [["2/3", "2/3", "1/3"], ["6/7", "3/7", "2/7"], ["2/11", "9/11", "6/11"], ["4/9", "1/9", "8/9"], ["4/9", "7/9", "4/9"]],
    4: [["1/2", "1/2", "1/2", "1/2"], ["2/5", "1/5", "4/5", "2/5"], ["4/7", "1/7", "4/7", "4/7"], ["2/9", "6/9", "4/9", "5/9"]],
}
# rational squares only (s_i = sqrt(p_i))
PVEC = {
    2: [["1/2", "1/2"], ["1/3", "2/3"], ["1/10", "9/10"]],
    3: [["1/3", "1/3", "1/3"], ["1/2", "1/3", "1/6"], ["1/7", "2/7", "4/7"]],
    4: [["1/4", "1/4", "1/4", "1/4"], ["1/10", "2/10", "3/10", "4/10"]],
}


class Tally:
    """per-case collector so that a failure carries the case description"""

    def __init__(self, ctx, check, case, theorem):
        self.ctx, self.check, self.case, self.theorem = ctx, check, case, theorem

    def fail(self, what, **info):
        d = {"check": self.check, "case": self.case, "theorem": self.theorem}
        d.update(info)
        return self.ctx.violation(what, d)


# ------------------------------------------------------------------------------------------------ pure states

def shift_unitary(d):
    """cyclic shift |i> -> |i+1 mod d> as an exact matrix"""
    return [[CQ(1) if i == (j + 1) % d else ZERO for j in range(d)] for i in range(d)]


def make_pure_case(rng, dA, dB, r, irrational=False, real=False, basis_supported=False):
    m = min(dA, dB)
    if irrational:
        vals = list(PVEC[r][int(rng.integers(len(PVEC[r])))])
    else:
        vals = list(SVEC[r][int(rng.integers(len(SVEC[r])))])
    vals = [vals[i] for i in rng.permutation(r)]
    slots = sorted(rng.choice(m, size=r, replace=False).tolist())
    s = ["0"] * m
    for pos, v in zip(slots, vals):
        s[pos] = v
    U = exact_cayley(rng, dA, cplx=not real)      # real: real orthogonal rotations, the state has real amplitudes (float64 presentations occur)
    V = exact_cayley(rng, dB, cplx=not real)
    if basis_supported:
        # psi = sum_i s_i |i+1 mod dA, i>: supported on computational basis states, amplitude exactly 0 on |00>
        U, V = shift_unitary(dA), xm_eye(dB)
    return {"kind": "pure", "dA": dA, "dB": dB, "s": s, "irrational": irrational, "U": xm_json(U), "V": xm_json(V)}


def pure_state(ctx, case):
    """returns (psi float, exact psi or None, exact Schmidt data dict)"""
    dA, dB = case["dA"], case["dB"]
    s = [Fraction(x) for x in case["s"]]
    U = xm_of_json(case["U"], dA, dA)
    V = xm_of_json(case["V"], dB, dB)
    if case["irrational"]:
        probs = s
        sf = [math.sqrt(float(p)) for p in probs]
        A = np.zeros((dA, dB), dtype=complex)
        for i, x in enumerate(sf):
            A[i, i] = x
        psi = (xm_float(U) @ A @ xm_float(V).T).reshape(-1)
        tot = sum(sf)
        truth = {"probs": probs, "neg": (tot * tot - 1) / 2, "logarg": tot * tot, "support": sum(1 for p in probs if p != 0),
                 "conc": 2 * sf[0] * sf[1] if len(sf) >= 2 else 0.0,
                 "sk2": [float(sum(sorted(probs, reverse=True)[:k])) for k in range(1, len(probs) + 1)], "svals": sorted(sf, reverse=True)}
        return psi, None, truth
    lean = ctx.lean()
    pl = lean.ask("c14_planted", {"dA": dA, "dB": dB, "s": [rj(x) for x in s], "U": case["U"], "V": case["V"]})
    cl = lean.ask("c14_closed", {"s": [rj(x) for x in s]})
    psi_x = [cq_of_lean(p) for p in pl["psi"]]
    n2 = cq_of_lean(pl["norm2"])
    ok = pl["unitaryU"] and pl["unitaryV"] and n2 == ONE and pl["rank"] == pl["support"] == cl["support"] and fr_of_lean(cl["norm2"]) == 1
    if not ok:
        raise ModelDefect("planted state: Lean model self-check failed (unitarity / norm / rank = support)", {"planted": {k: v for k, v in pl.items() if k != "psi"}, "closed": cl})
    probs = [fr_of_lean(p) for p in cl["probs"]]
    truth = {"probs": probs, "neg": float(fr_of_lean(cl["negativity"])), "logarg": float(fr_of_lean(cl["logarg"])), "support": cl["support"],
             "conc": float(fr_of_lean(cl["concurrence"])), "sk2": [float(fr_of_lean(x)) for x in cl["sk2"]],
             "svals": sorted((float(x) for x in s), reverse=True)}
    # independent re-computation of the closed forms (guards the model)
    tot = sum(s)
    if Fraction(truth["neg"]) != Fraction(float((tot * tot - 1) / 2)) or [Fraction(x) for x in truth["sk2"]] != [
            Fraction(float(sum(sorted(probs, reverse=True)[:k]))) for k in range(1, len(probs) + 1)]:
        raise ModelDefect("closed forms: Lean model differs from the harness re-computation", {"closed": cl})
    return xm_float(psi_x), psi_x, truth


class ModelDefect(Exception):
    def __init__(self, what, info):
        super().__init__(what)
        self.what, self.info = what, info


def check_pure(ctx, case):
    dA, dB = case["dA"], case["dB"]
    m = min(dA, dB)
    t = Tally(ctx, "pure", case, "C14.schmidtRank_closed_form / negativity_planted / amplitude_local_unitary / rankCert_sound / skVecNormSq_max")
    try:
        psi, psi_x, tr = pure_state(ctx, case)
    except ModelDefect as e:
        t.fail(e.what + " (model defect)", model=e.info)
        return
    r = tr["support"]
    nontriv = r >= 2 or dA != dB
    col = psi.reshape(-1, 1)
    rho = np.outer(psi, psi.conj())
    inputs = {"vec1d": psi, "col": col, "dm": rho}

    def reg(fn, form, dform, extra=None):
        d = {"fn": fn, "input": form, "dim": dform, "dA": dA, "dB": dB, "s": case["s"], "irr": case["irrational"], "U": case["U"]["re"][:4], "x": extra}
        ctx.case(d, nontriv, f"pure/{fn}/{form}/dim={dform}")

    # ---- exact rank oracle, certified
    if psi_x is not None:
        A = [psi_x[a * dB:(a + 1) * dB] for a in range(dA)]
        rr, B, C, L, R = rank_certificate(A)
        cert = ctx.lean().ask("c14_rank_cert", {"n": dA, "m": dB, "r": rr, "A": xm_json(A), "B": xm_json(B), "C": xm_json(C), "L": xm_json(L), "R": xm_json(R)})
        if not cert["ok"] or rr != r:
            t.fail("rank certificate of the planted amplitude matrix rejected or rank != support (model / harness defect)", model=cert, rank=rr, support=r)
            return
        ctx.count("rank-certificate accepted")

    # ---- negativity / log-negativity
    for fn, name, want in ((negativity, "negativity", tr["neg"]), (log_negativity, "log_negativity", math.log2(tr["logarg"]))):
        for form in ("vec1d", "col", "dm"):
            for dform, dim in dim_forms(dA, dB):
                reg(name, form, dform)
                res = with_dim(fn, inputs[form], dim=dim)
                if res[0] != "ok" or not close(res[1], want, TOL):
                    t.fail(f"{name}({form}, dim={dform}) = {res[1]!r}, closed form {want!r} for Schmidt coefficients {case['s']} on {dA}x{dB}",
                           function=name, input=form, dim_form=dform, impl=repr(res[1]), expected=want)
    # ---- entanglement of formation
    want = H2(tr["probs"])
    for form in ("col", "dm"):
        for dform, dim in dim_forms(dA, dB):
            reg("entanglement_of_formation", form, dform)
            res = with_dim(entanglement_of_formation, inputs[form], dim=dim)
            if res[0] != "ok" or not close(res[1], want, TOL):
                t.fail(f"entanglement_of_formation({form}, dim={dform}) = {res[1]!r}, entropy of squared Schmidt coefficients {want!r} ({case['s']}, {dA}x{dB})",
                       function="entanglement_of_formation", input=form, dim_form=dform, impl=repr(res[1]), expected=want)
    # ---- concurrence
    if dA == 2 and dB == 2:
        reg("concurrence", "dm", "-")
        res = _call(concurrence, rho)
        if res[0] != "ok" or not close(res[1], tr["conc"], TOL_SQRT):
            t.fail(f"concurrence = {res[1]!r}, closed form 2*s0*s1 = {tr['conc']!r}", function="concurrence", impl=repr(res[1]), expected=tr["conc"])
    # ---- Schmidt rank (vector) and operator Schmidt rank of |psi><psi| (= r^2)
    for form in ("vec1d", "col"):
        for dform, dim in dim_forms(dA, dB):
            reg("schmidt_rank", form, dform)
            res = with_dim(schmidt_rank, inputs[form], dim=dim)
            if res[0] != "ok" or int(res[1]) != r or res[1] != r:
                t.fail(f"schmidt_rank({form}, dim={dform}) = {res[1]!r}, planted Schmidt rank {r} ({case['s']}, {dA}x{dB})",
                       function="schmidt_rank", input=form, dim_form=dform, dA=dA, dB=dB, impl=repr(res[1]), expected=r)
    for dform, dim in dim_forms(dA, dB):
        reg("schmidt_rank", "dm", dform)
        res = with_dim(schmidt_rank, rho, dim=dim)
        if res[0] != "ok" or res[1] != r * r:
            t.fail(f"operator schmidt_rank(|psi><psi|, dim={dform}) = {res[1]!r}, expected r^2 = {r * r} ({dA}x{dB})",
                   function="schmidt_rank", input="dm", dim_form=dform, dA=dA, dB=dB, impl=repr(res[1]), expected=r * r)
    # ---- S(k) vector norm
    for k in range(1, m + 1):
        want = math.sqrt(tr["sk2"][k - 1])
        for form in ("vec1d", "col"):
            for dform, dim in dim_forms(dA, dB):
                reg("sk_vector_norm", form, dform, k)
                res = _call(sk_vector_norm, inputs[form], k) if dim is None else _call(sk_vector_norm, inputs[form], k, dim)
                if res[0] != "ok" or not close(res[1], want, TOL):
                    t.fail(f"sk_vector_norm({form}, k={k}, dim={dform}) = {res[1]!r}, root of the sum of the {k} largest squares {want!r} ({case['s']}, {dA}x{dB})",
                           function="sk_vector_norm", input=form, dim_form=dform, k=k, impl=repr(res[1]), expected=want)
    # ---- product test
    for form in ("vec1d", "col", "dm"):
        for dform, dim in dim_forms(dA, dB):
            reg("is_product", form, dform)
            res = with_dim(is_product, inputs[form], dim=dim)
            verdict = None
            if res[0] == "ok":
                try:
                    verdict = bool(np.asarray(res[1][0]).reshape(-1)[0])
                except Exception:  # noqa: BLE001
                    verdict = None
            if verdict is None or verdict != (r == 1):
                t.fail(f"is_product({form}, dim={dform}) -> {res[1] if res[0] != 'ok' else verdict!r}, the state has Schmidt rank {r} on {dA}x{dB}",
                       function="is_product", input=form, dim_form=dform, impl=(res[1] if res[0] != "ok" else repr(verdict)), expected=(r == 1))
            elif verdict and form != "dm":
                dec = res[1][1]
                rebuilt = np.kron(np.asarray(dec[0]).reshape(-1), np.asarray(dec[1]).reshape(-1))
                if np.max(np.abs(rebuilt - psi)) > 1e-9:
                    t.fail(f"is_product({form}, dim={dform}): the returned factors do not rebuild the vector (residual {np.max(np.abs(rebuilt - psi)):.2e})",
                           function="is_product", input=form, dim_form=dform, impl="decomposition residual")
    # ---- product test on rescaled vectors: c * psi is a product vector exactly when psi is (unnormalised inputs; cut-offs must be relative)
    for sc in (512.0, 1.0 / 512):
        for dform, dim in dim_forms(dA, dB)[:1]:
            reg("is_product", "vec1d-scaled", dform)
            res = with_dim(is_product, inputs["vec1d"] * sc, dim=dim)
            try:
                verdict = bool(np.asarray(res[1][0]).reshape(-1)[0]) if res[0] == "ok" else None
            except Exception:  # noqa: BLE001
                verdict = None
            if verdict is None or verdict != (r == 1):
                t.fail(f"is_product({sc} * psi, dim={dform}) -> {res[1] if res[0] != 'ok' else verdict!r}, the state has Schmidt rank {r} on {dA}x{dB}",
                       function="is_product", input="vec1d-scaled", dim_form=dform, impl=(res[1] if res[0] != "ok" else repr(verdict)), expected=(r == 1), scale=sc)
    # ---- l1 norm of coherence
    want = float(np.sum(np.abs(psi))) ** 2 - float(np.sum(np.abs(psi) ** 2))
    if psi_x is not None:
        mods = [math.sqrt(float(x.re * x.re + x.im * x.im)) for x in psi_x]
        want = sum(mods) ** 2 - 1.0
    for form in ("vec1d", "col", "dm"):
        reg("l1_norm_coherence", form, "-")
        res = _call(l1_norm_coherence, inputs[form])
        if res[0] != "ok" or not close(res[1], want, TOL, scale=want):
            t.fail(f"l1_norm_coherence({form}) = {res[1]!r}, sum of off-diagonal moduli {want!r}", function="l1_norm_coherence", input=form, impl=repr(res[1]), expected=want)
    # ---- purity / entropy of a pure state
    reg("purity", "dm", "-")
    res = _call(purity, rho)
    if res[0] != "ok" or not close(res[1], 1.0, TOL):
        t.fail(f"purity(|psi><psi|) = {res[1]!r}", function="purity", impl=repr(res[1]), expected=1.0)
    res = _call(von_neumann_entropy, rho)
    if res[0] != "ok" or not close(res[1], 0.0, TOL):
        t.fail(f"von_neumann_entropy(|psi><psi|) = {res[1]!r}", function="von_neumann_entropy", impl=repr(res[1]), expected=0.0)
    # ---- Schmidt decomposition
    check_schmidt_decomposition(ctx, t, case, psi, tr, reg)
    # ---- strict-fp stream: every function once more with NumPy's error state set to raise (planted pure states are rank-deficient: exact zeros and rounding residues
    #      in every spectrum the functions look at); same value as in the default state
    dl = [dA, dB]
    where = f"Schmidt coefficients {case['s']} on {dA}x{dB}"
    for form in ("vec1d", "col", "dm"):
        x = inputs[form]
        for name, fn in (("negativity", negativity), ("log_negativity", log_negativity), ("is_product", is_product), ("schmidt_rank", schmidt_rank)):
            strict_fp_same(t, name, fn, (x, dl), f"{form}, dim=list; {where}", input=form, dim_form="list")
        if form != "vec1d":
            strict_fp_same(t, "entanglement_of_formation", entanglement_of_formation, (x, dl), f"{form}, dim=list; {where}", input=form, dim_form="list")
        if form != "dm":
            strict_fp_same(t, "schmidt_decomposition", schmidt_decomposition, (x, dl), f"{form}, dim=list; {where}", input=form, dim_form="list")
        strict_fp_same(t, "l1_norm_coherence", l1_norm_coherence, (x,), f"{form}; {where}", input=form)
    strict_fp_same(t, "purity", purity, (rho,), f"|psi><psi|; {where}", input="dm")
    strict_fp_same(t, "von_neumann_entropy", von_neumann_entropy, (rho,), f"|psi><psi|; {where}", input="dm")
    if dA == 2 and dB == 2:
        strict_fp_same(t, "concurrence", concurrence, (rho,), f"|psi><psi|; {where}", input="dm")


def _exact_c(z):
    return CQ(Fraction(float(np.real(z))), Fraction(float(np.imag(z))))


def check_schmidt_decomposition(ctx, t, case, psi, tr, reg):
    dA, dB = case["dA"], case["dB"]
    m = min(dA, dB)
    r = tr["support"]
    svals = tr["svals"] + [0.0] * m
    psi_e = [_exact_c(z) for z in psi]
    for form, x in (("vec1d", psi), ("col", psi.reshape(-1, 1))):
        for dform, dim in dim_forms(dA, dB):
            for kp in range(0, m + 1):
                if form == "col" and dform in ("array", "omitted") and kp not in (0, 1):
                    continue  # thin the grid: the forms are independent of k_param
                reg("schmidt_decomposition", form, dform, kp)
                res = _call(schmidt_decomposition, x, dim, kp) if dim is not None else _call(schmidt_decomposition, x, None, kp)
                if res[0] != "ok":
                    t.fail(f"schmidt_decomposition({form}, dim={dform}, k_param={kp}) raised {res[1]} on {dA}x{dB}",
                           function="schmidt_decomposition", input=form, dim_form=dform, k_param=kp, impl=res[1])
                    continue
                sv, um, vm = (np.asarray(z) for z in res[1])
                cnt = r if kp == 0 else kp
                sv = sv.reshape(-1)
                bad = None
                if sv.shape[0] != cnt or um.shape != (dA, cnt) or vm.shape != (dB, cnt):
                    bad = f"shapes {sv.shape}, {um.shape}, {vm.shape}; expected {cnt} terms with factors of length {dA} and {dB}"
                elif np.max(np.abs(sv - np.array(svals[:cnt]))) > TOL_DEC:
                    bad = f"singular values {sv.tolist()} differ from the planted {svals[:cnt]}"
                else:
                    # exact evaluation of the defining relations on the returned floats
                    ue = [[_exact_c(um[i, c]) for c in range(cnt)] for i in range(dA)]
                    ve = [[_exact_c(vm[i, c]) for c in range(cnt)] for i in range(dB)]
                    se = [Fraction(float(z)) for z in sv]
                    worst = Fraction(0)
                    for M_, d_ in ((ue, dA), (ve, dB)):
                        for c1 in range(cnt):
                            for c2 in range(c1, cnt):
                                acc = ZERO
                                for i in range(d_):
                                    acc = acc + M_[i][c1].conj() * M_[i][c2]
                                dev = acc - (ONE if c1 == c2 else ZERO)
                                worst = max(worst, abs(dev.re), abs(dev.im))
                    if float(worst) > TOL_DEC:
                        bad = f"factors are not orthonormal (exact Gram residual {float(worst):.2e})"
                    else:
                        keep = min(cnt, m)
                        full = kp == 0 or kp >= r
                        resid = Fraction(0)
                        for a in range(dA):
                            for b in range(dB):
                                acc = ZERO
                                for c in range(keep):
                                    acc = acc + CQ(se[c]) * ue[a][c] * ve[b][c]
                                dev = acc - psi_e[a * dB + b]
                                resid = max(resid, abs(dev.re), abs(dev.im))
                        if full and float(resid) > TOL_DEC:
                            bad = f"sum_i s_i u_i (x) v_i does not rebuild the state (exact residual {float(resid):.2e})"
                        elif not full:
                            # truncated to the kp largest terms: psi - sum_{c<kp} s_c u_c (x) v_c is orthogonal to the kept part and has squared norm = the sum
                            # of the dropped squares (true for every choice of singular vectors when coefficients tie)
                            r2 = Fraction(0)
                            for a in range(dA):
                                for b in range(dB):
                                    acc = ZERO
                                    for c in range(keep):
                                        acc = acc + CQ(se[c]) * ue[a][c] * ve[b][c]
                                    dev = acc - psi_e[a * dB + b]
                                    r2 += dev.re * dev.re + dev.im * dev.im
                            want2 = sum(x * x for x in svals[kp:m])
                            if abs(float(r2) - want2) > 1e-9:
                                bad = f"truncation to {kp} terms leaves a residual of squared norm {float(r2)!r}, the dropped squares sum to {want2!r}"
                if bad:
                    t.fail(f"schmidt_decomposition({form}, dim={dform}, k_param={kp}) on {dA}x{dB}, s={case['s']}: {bad}",
                           function="schmidt_decomposition", input=form, dim_form=dform, k_param=kp, impl=bad)
    # operator form on |psi><psi|: sum_i sv_i A_i (x) B_i rebuilds rho
    rho = np.outer(psi, psi.conj())
    reg("schmidt_decomposition", "dm", "list")
    res = _call(schmidt_decomposition, rho, [dA, dB])
    if res[0] != "ok":
        t.fail(f"schmidt_decomposition(|psi><psi|, [{dA},{dB}]) raised {res[1]}", function="schmidt_decomposition", input="dm", dim_form="list", impl=res[1])
    else:
        sv, am, bm = (np.asarray(z) for z in res[1])
        sv = sv.reshape(-1)
        if sv.shape[0] != r * r:
            t.fail(f"operator schmidt_decomposition: {sv.shape[0]} terms, expected r^2 = {r * r}", function="schmidt_decomposition", input="dm", dim_form="list", impl=sv.tolist())
        else:
            reb = sum(sv[i] * np.kron(am[:, :, i], bm[:, :, i]) for i in range(len(sv)))
            prods = sorted((a * b for a in tr["svals"] for b in tr["svals"]), reverse=True)[:r * r]
            if np.max(np.abs(reb - rho)) > 1e-9 or np.max(np.abs(np.array(prods) - sv)) > 1e-9:
                t.fail(f"operator schmidt_decomposition of |psi><psi| on {dA}x{dB}: rebuild residual {np.max(np.abs(reb - rho)):.2e}, coefficients {sv.tolist()} vs products {prods}",
                       function="schmidt_decomposition", input="dm", dim_form="list", impl="operator rebuild")


# ------------------------------------------------------------------------------------------------ mixed states

def make_mixed_case(rng, dA, dB, rank, spectral=False, incoherent=False):
    N = dA * dB
    if spectral:
        tot = 24
        cuts = sorted(rng.integers(0, tot + 1, size=rank - 1).tolist())
        parts = [b - a for a, b in zip([0] + cuts, cuts + [tot])]
        q = [f"{p}/{tot}" for p in parts] + ["0"] * (N - rank)
        W = xm_kron(exact_cayley(rng, dA), exact_cayley(rng, dB)) if rng.integers(2) else exact_cayley(rng, N, lim=2)
        D = [[CQ(Fraction(q[i])) if i == j else ZERO for j in range(N)] for i in range(N)]
        rho = xm_mul(xm_mul(W, D), xm_ct(W))
        extra = {"q": q}
    else:
        rho = [[ZERO] * N for _ in range(N)]
        for _ in range(rank):
            v = rng.integers(-3, 4, size=N) + 1j * rng.integers(-3, 4, size=N)
            if not np.any(v):
                v[0] = 1
            c = int(rng.integers(1, 5))
            ve = [CQ(int(z.real), int(z.imag)) for z in v]
            for i in range(N):
                if ve[i].is_zero():
                    continue
                for j in range(N):
                    rho[i][j] = rho[i][j] + CQ(c) * ve[i] * ve[j].conj()
        trc = sum((rho[i][i].re for i in range(N)), Fraction(0))
        rho = [[CQ(x.re / trc, x.im / trc) for x in row] for row in rho]
        extra = {}
    mk = incoherent_unitary if incoherent else exact_cayley
    U, V = mk(rng, dA), mk(rng, dB)
    return {"kind": "mixed", "dA": dA, "dB": dB, "rank": rank, "spectral": spectral, "incoherent": incoherent,
            "rho": xm_json(rho), "U": xm_json(U), "V": xm_json(V), **extra}


def check_mixed(ctx, case):
    dA, dB = case["dA"], case["dB"]
    N = dA * dB
    t = Tally(ctx, "mixed", case, "C14.pT_local_unitary / purity_unitary_invariant / charpoly_unitary_invariant / charpoly_planted_spectrum / schmidtRank_local_invariant")
    lean = ctx.lean()
    lu = lean.ask("c14_local_unitary_op", {"dA": dA, "dB": dB, "rho": case["rho"], "U": case["U"], "V": case["V"]})
    op = lean.ask("c14_op", {"dA": dA, "dB": dB, "rho": case["rho"]})
    pur = cq_of_lean(lu["purity_before"])
    if not (lu["unitaryU"] and lu["unitaryV"] and lu["pt_covariant"] and lu["purity_before"] == lu["purity_after"] and lu["rank_before"] == lu["rank_after"]
            and op["mirror_eq_spec"] and op["rank"] == op["rank_spec"] == lu["rank_before"] and op["hermitian"] and cq_of_lean(op["trace"]) == ONE and pur.im == 0):
        t.fail("mixed state: Lean model self-check failed (unitarity / partial-transpose covariance / purity or rank invariance / mirror = spec) (model defect)",
               model={k: v for k, v in lu.items() if k != "rho"}, model_op=op)
        return
    rho = xm_float(xm_of_json(case["rho"], N, N))
    rho2 = xm_float([[cq_of_lean(p) for p in lu["rho"][i * N:(i + 1) * N]] for i in range(N)])
    tag = "incoh" if case["incoherent"] else "cayley"
    desc = {"fn": "mixed", "dA": dA, "dB": dB, "rank": case["rank"], "spectral": case["spectral"], "tag": tag, "rho": case["rho"]["re"][:6], "den": case["rho"]["den"], "U": case["U"]["re"][:4]}
    ctx.case(desc, case["rank"] >= 2, f"mixed/{dA}x{dB}/rank={case['rank']}/{tag}{'/spectral' if case['spectral'] else ''}")

    def both(fn, *args):
        return _call(fn, rho, *args), _call(fn, rho2, *args)

    def inv(name, fn, *args, tol=TOL_INV, exact=False, truth=None, ttol=TOL):
        a, b = both(fn, *args)
        if a[0] != "ok" or b[0] != "ok":
            t.fail(f"{name} raised on a valid mixed state: {a[1] if a[0] != 'ok' else b[1]}", function=name, impl=[repr(a[1]), repr(b[1])])
            return
        if exact:
            same = a[1] == b[1]
        else:
            same = close(a[1], b[1], tol)
        if not same:
            t.fail(f"{name} is not invariant under the local unitary U (x) V on {dA}x{dB} (rank {case['rank']}): {a[1]!r} -> {b[1]!r}",
                   function=name, impl=[repr(a[1]), repr(b[1])], dA=dA, dB=dB)
        if truth is not None:
            for z in (a, b):
                if (exact and z[1] != truth) or (not exact and not close(z[1], truth, ttol)):
                    t.fail(f"{name} = {z[1]!r}, exact value {truth!r} on {dA}x{dB}", function=name, impl=repr(z[1]), expected=truth, dA=dA, dB=dB)
                    break

    if case["incoherent"]:
        inv("l1_norm_coherence", l1_norm_coherence)
    inv("negativity", negativity, [dA, dB])
    inv("log_negativity", log_negativity, [dA, dB])
    inv("purity", purity, truth=float(pur.re))
    ent_truth = H2([Fraction(x) for x in case["q"]]) if case["spectral"] else None
    inv("von_neumann_entropy", von_neumann_entropy, truth=ent_truth)
    inv("schmidt_rank", schmidt_rank, [dA, dB], exact=True, truth=op["rank"])
    a, b = both(is_product, [dA, dB])
    va = bool(np.asarray(a[1][0]).reshape(-1)[0]) if a[0] == "ok" else None
    vb = bool(np.asarray(b[1][0]).reshape(-1)[0]) if b[0] == "ok" else None
    if va is None or vb is None or va != op["is_product"] or vb != op["is_product"]:
        t.fail(f"is_product on a mixed state / its local rotation: {va!r}, {vb!r}; exact verdict {op['is_product']}", function="is_product", impl=[repr(va), repr(vb)], expected=op["is_product"])
    if dA == 2 and dB == 2:
        inv("concurrence", concurrence, tol=TOL_SQRT_INV)
        inv("entanglement_of_formation", entanglement_of_formation, tol=TOL_SQRT_INV)


# ------------------------------------------------------------------------------------------------ additivity on products

def make_additive_case(rng, d1, d2):
    def spec(d):
        tot = 12
        while True:
            parts = rng.multinomial(tot, [1.0 / d] * d).tolist()
            if sum(1 for p in parts if p) >= 2 or d == 1:
                return [f"{p}/{tot}" for p in parts]
    return {"kind": "additive", "d1": d1, "d2": d2, "q1": spec(d1), "q2": spec(d2), "W1": xm_json(exact_cayley(rng, d1)), "W2": xm_json(exact_cayley(rng, d2))}


def check_additive(ctx, case):
    d1, d2 = case["d1"], case["d2"]
    t = Tally(ctx, "additive", case, "C14.entropy_additive")
    q1 = [Fraction(x) for x in case["q1"]]
    q2 = [Fraction(x) for x in case["q2"]]
    W1 = xm_float(xm_of_json(case["W1"], d1, d1))
    W2 = xm_float(xm_of_json(case["W2"], d2, d2))
    r1 = W1 @ np.diag([float(x) for x in q1]) @ W1.conj().T
    r2 = W2 @ np.diag([float(x) for x in q2]) @ W2.conj().T
    r1, r2 = (r1 + r1.conj().T) / 2, (r2 + r2.conj().T) / 2
    ctx.case({"fn": "additive", "d1": d1, "d2": d2, "q1": case["q1"], "q2": case["q2"], "W": case["W1"]["re"][:4]}, True, f"additive/{d1}x{d2}")
    e1, e2, e12 = _call(von_neumann_entropy, r1), _call(von_neumann_entropy, r2), _call(von_neumann_entropy, np.kron(r1, r2))
    if not (e1[0] == e2[0] == e12[0] == "ok"):
        t.fail("von_neumann_entropy raised on a product state", function="von_neumann_entropy", impl=[repr(e1[1]), repr(e2[1]), repr(e12[1])])
        return
    if not close(e12[1], e1[1] + e2[1], TOL) or not close(e12[1], H2(q1) + H2(q2), TOL) or not close(e1[1], H2(q1), TOL):
        t.fail(f"entropy is not additive on a product state: S(rho (x) sigma) = {e12[1]!r}, S(rho) + S(sigma) = {e1[1] + e2[1]!r}, exact {H2(q1) + H2(q2)!r}",
               function="von_neumann_entropy", impl=[repr(e1[1]), repr(e2[1]), repr(e12[1])], expected=H2(q1) + H2(q2))
    p1, p2, p12 = _call(purity, r1), _call(purity, r2), _call(purity, np.kron(r1, r2))
    want = float(sum(x * x for x in q1) * sum(x * x for x in q2))
    if not (p1[0] == p2[0] == p12[0] == "ok") or not close(p12[1], want, TOL) or not close(p1[1] * p2[1], want, TOL):
        t.fail(f"purity is not multiplicative on a product state: {p12[1]!r} vs exact {want!r}", function="purity", impl=[repr(p1[1]), repr(p2[1]), repr(p12[1])], expected=want)
    # strict-fp: the factors may be rank-deficient (zero parts in q1 / q2) and the product then is
    for nm, x in (("rho", r1), ("sigma", r2), ("rho (x) sigma", np.kron(r1, r2))):
        strict_fp_same(t, "von_neumann_entropy", von_neumann_entropy, (x,), f"{nm}; spectra {case['q1']}, {case['q2']}", input=nm)
        strict_fp_same(t, "purity", purity, (x,), f"{nm}; spectra {case['q1']}, {case['q2']}", input=nm)
    # log-negativity / negativity of a product of two bipartite pure states is covered by check_pure; here: product across the cut is unentangled
    res = _call(negativity, np.kron(r1, r2), [d1, d2])
    if res[0] != "ok" or not close(res[1], 0.0, TOL):
        t.fail(f"negativity of the product state rho (x) sigma across the cut {d1}|{d2} = {res[1]!r}", function="negativity", impl=repr(res[1]), expected=0.0)
    res = _call(schmidt_rank, np.kron(r1, r2), [d1, d2])
    if res[0] != "ok" or res[1] != 1:
        t.fail(f"operator Schmidt rank of rho (x) sigma on {d1}x{d2} = {res[1]!r}, expected 1", function="schmidt_rank", input="dm", dim_form="list", dA=d1, dB=d2, impl=repr(res[1]), expected=1)


# ------------------------------------------------------------------------------------------------ product test

def _gint(rng, shape, lim=4, real=False):
    while True:
        a = rng.integers(-lim, lim + 1, size=shape) + (0j if real else 1j * rng.integers(-lim, lim + 1, size=shape))
        if np.any(a):
            return a.astype(complex)


def make_product_case(rng, dims, operator, entangle, shift, real=False):
    """product of Gaussian-integer factors; entangle = None or a pair of positions (i<j) carrying a second product term scaled by 2^-shift;
    real: integer factors (the product is then also handed over as float64 / int64 array)"""
    shp = (lambda d: (d, d)) if operator else (lambda d: (d,))
    f1 = [_gint(rng, shp(d), real=real) for d in dims]
    f2 = [_gint(rng, shp(d), real=real) for d in dims]
    return {"kind": "product", "dims": list(dims), "operator": operator, "entangle": entangle, "shift": shift,
            "f1": [split(f) for f in f1], "f2": [split(f) for f in f2]}


def split(a):
    a = np.asarray(a)
    return {"shape": list(a.shape), "re": [int(x) for x in a.real.reshape(-1)], "im": [int(x) for x in a.imag.reshape(-1)]}


def unsplit(o):
    return (np.array(o["re"], dtype=float) + 1j * np.array(o["im"], dtype=float)).reshape(o["shape"])


def kron_all(fs):
    out = fs[0]
    for f in fs[1:]:
        out = np.kron(out, f)
    return out


def check_product(ctx, case):
    dims = case["dims"]
    n = len(dims)
    opr = case["operator"]
    t = Tally(ctx, "product", case, "C14.isProduct_iff_minors / minorsVanish_iff / ampMat_kron")
    f1 = [unsplit(o) for o in case["f1"]]
    f2 = [unsplit(o) for o in case["f2"]]
    x = kron_all(f1)
    if case["entangle"] is not None:
        i, j = case["entangle"]
        g = [f2[k] if k in (i, j) else f1[k] for k in range(n)]
        base, add = x, kron_all(g)
        x = x + add * 2.0 ** (-case["shift"])  # exact in float64: small integers times a power of two
        sh = 1 << case["shift"]
        if not all(Fraction(float(z.real)) == Fraction(int(a.real)) + Fraction(int(b.real), sh) and Fraction(float(z.imag)) == Fraction(int(a.imag)) + Fraction(int(b.imag), sh)
                   for z, a, b in zip(x.reshape(-1), base.reshape(-1), add.reshape(-1))):
            ctx.count("product/not-exactly-representable (skipped)")
            return
        if n == 2 and case["shift"] > 20:
            # weakly entangled: the second singular value across the cut must be >= 100 x the largest cut-off any of the routines uses
            dA_, dB_ = dims
            M_ = (x.reshape(dA_, dB_, dA_, dB_).transpose(0, 2, 1, 3).reshape(dA_ * dA_, dB_ * dB_) if opr else x.reshape(dA_, dB_))
            sv_ = np.linalg.svd(M_, compute_uv=False)
            if 0 < sv_[1] / sv_[0] < 100 * M_.size * 2.3e-16 or sv_[1] / sv_[0] < 1e-15:
                ctx.count("product/weak: second coefficient within 100x of the cut-off or accidentally product (skipped)")
                return
    # exact oracle from the Lean model: product iff product across every cut (k | k+1)
    N = int(np.prod(dims))
    xe = xm_from(x)
    verdicts = []
    for cut in range(1, n):
        dA, dB = int(np.prod(dims[:cut])), int(np.prod(dims[cut:]))
        if opr:
            r = ctx.lean().ask("c14_op", {"dA": dA, "dB": dB, "rho": xm_json(xe)})
            if not r["mirror_eq_spec"] or r["is_product"] != (r["rank_spec"] <= 1):
                t.fail("operator product oracle: Lean mirror / minors test / rank disagree (model defect)", model=r)
                return
        else:
            r = ctx.lean().ask("c14_vec", {"dA": dA, "dB": dB, "psi": xm_json(xe)})
            if r["is_product"] != (r["rank_spec"] <= 1) or r["rank"] != r["rank_spec"]:
                t.fail("vector product oracle: Lean minors test and rank disagree (model defect)", model=r)
                return
        verdicts.append(r["is_product"])
    want = all(verdicts)
    if want != (case["entangle"] is None):
        # the second term happened to be parallel: still a valid exact input, the oracle decides
        ctx.count("product/accidentally product")
    forms = [("as-is", x)] if opr else [("vec1d", x), ("col", x.reshape(-1, 1))]
    dimforms = [("list", list(dims)), ("array", np.array(dims))]
    if n == 2:
        dimforms.append(("scalar", dims[0]))
    if len(set(dims)) == 1 and n == 2:
        dimforms.append(("omitted", None))
    for form, arr in forms:
        for dform, dim in dimforms:
            ctx.case({"fn": "is_product", "dims": dims, "op": opr, "ent": case["entangle"], "shift": case["shift"], "form": form, "dim": dform, "f": case["f1"][0]["re"][:4], "g": case["f2"][0]["re"][:4]},
                     n >= 2 and len(set(dims)) > 1 or case["entangle"] is not None, f"product/{'op' if opr else 'vec'}/n={n}/{'entangled' if not want else 'product'}/{form}/dim={dform}")
            res = with_dim(is_product, arr, dim=dim)
            verdict = None
            if res[0] == "ok":
                try:
                    verdict = bool(np.asarray(res[1][0]).reshape(-1)[0])
                except Exception:  # noqa: BLE001
                    pass
            if verdict is None or verdict != want:
                t.fail(f"is_product({'operator' if opr else form}, dims={dims}, dim form {dform}) -> {res[1] if res[0] != 'ok' else verdict!r}; exact verdict {want} "
                       f"({'product of Gaussian-integer factors' if case['entangle'] is None else 'product + 2^-%d * second product on parties %s' % (case['shift'], case['entangle'])})",
                       function="is_product", input=form, dim_form=dform, impl=(res[1] if res[0] != "ok" else repr(verdict)), expected=want)
            elif verdict and not opr:
                dec = res[1][1]
                if len(dec) != n or np.max(np.abs(kron_all([np.asarray(d).reshape(-1) for d in dec]) - x)) > 1e-9 * np.max(np.abs(x)):
                    t.fail(f"is_product({form}, dims={dims}): returned factors do not rebuild the vector", function="is_product", input=form, dim_form=dform, impl="decomposition residual")
    # Schmidt rank across the first cut agrees with the exact rank (bipartite only)
    if n == 2:
        dA, dB = dims
        r = ctx.lean().ask("c14_op" if opr else "c14_vec", {"dA": dA, "dB": dB, ("rho" if opr else "psi"): xm_json(xe)})
        for dform, dim in dim_forms(dA, dB):
            # the Lean mirror gets the RAW argument (omitted / integer / pair) and resolves it itself (C14.schmidtRankArg_scalar / _omitted / _pair)
            raw = None if dim is None else (int(dim) if dform == "scalar" else [dA, dB])
            ra = ctx.lean().ask("c14_op" if opr else "c14_vec", {"dA": dA, "dB": dB, ("rho" if opr else "psi"): xm_json(xe), "dimarg": raw})
            if ra["rank_dimarg"] != r["rank_spec"]:
                t.fail(f"Lean mirror of the dim argument ({dform}) gives rank {ra['rank_dimarg']}, the pair form gives {r['rank_spec']} (model defect)", model=ra["rank_dimarg"])
                continue
            res = with_dim(schmidt_rank, x, dim=dim)
            if res[0] != "ok" or res[1] != ra["rank_dimarg"]:
                t.fail(f"schmidt_rank({'operator' if opr else 'vector'}, [{dA},{dB}], dim={dform}) = {res[1]!r}, exact rank {r['rank_spec']}"
                       + (f" (second term scaled by 2^-{case['shift']}: a small but non-zero Schmidt coefficient)" if case["entangle"] is not None else ""),
                       function="schmidt_rank", input="dm" if opr else "vec1d", dim_form=dform, dA=dA, dB=dB, impl=repr(res[1]), expected=r["rank_spec"])


# ------------------------------------------------------------------------------------------------ planted operator Schmidt rank

def make_oprank_case(rng, dA, dB, r):
    As = [_gint(rng, (dA, dA), 3) for _ in range(r)]
    Bs = [_gint(rng, (dB, dB), 3) for _ in range(r)]
    return {"kind": "oprank", "dA": dA, "dB": dB, "r": r, "A": [split(a) for a in As], "B": [split(b) for b in Bs],
            "U": xm_json(exact_cayley(rng, dA)), "V": xm_json(exact_cayley(rng, dB))}


def check_oprank(ctx, case):
    dA, dB = case["dA"], case["dB"]
    N = dA * dB
    t = Tally(ctx, "oprank", case, "C14.operatorAmp_eq_realign / schmidtRankOp_eq_spec / schmidtRank_local_invariant / rankCert_sound")
    X = sum(np.kron(unsplit(a), unsplit(b)) for a, b in zip(case["A"], case["B"]))
    lu = ctx.lean().ask("c14_local_unitary_op", {"dA": dA, "dB": dB, "rho": xm_json(xm_from(X)), "U": case["U"], "V": case["V"]})
    op = ctx.lean().ask("c14_op", {"dA": dA, "dB": dB, "rho": xm_json(xm_from(X))})
    if not (lu["rank_before"] == lu["rank_after"] == op["rank"] == op["rank_spec"] and op["mirror_eq_spec"] and lu["pt_covariant"]):
        t.fail("operator Schmidt rank: Lean mirror / spec / invariance self-check failed (model defect)", model={k: v for k, v in lu.items() if k != "rho"}, model_op=op)
        return
    want = op["rank"]
    # rank certificate of the realigned matrix
    R = [[xm_from(X)[(i // dA) * dB + j // dB][(i % dA) * dB + j % dB] for j in range(dB * dB)] for i in range(dA * dA)]
    rr, B, C, L, Rm = rank_certificate(R)
    cert = ctx.lean().ask("c14_rank_cert", {"n": dA * dA, "m": dB * dB, "r": rr, "A": xm_json(R), "B": xm_json(B), "C": xm_json(C), "L": xm_json(L), "R": xm_json(Rm)})
    if not cert["ok"] or rr != want:
        t.fail("rank certificate of the realigned operator rejected (model / harness defect)", model=cert, rank=rr, expected=want)
        return
    ctx.count("rank-certificate accepted")
    X2 = xm_float([[cq_of_lean(p) for p in lu["rho"][i * N:(i + 1) * N]] for i in range(N)])
    for tag, Y in (("planted", X), ("rotated", X2)):
        for dform, dim in dim_forms(dA, dB):
            ctx.case({"fn": "schmidt_rank_op", "dA": dA, "dB": dB, "r": case["r"], "tag": tag, "dim": dform, "A": case["A"][0]["re"][:4]}, True, f"oprank/{dA}x{dB}/{tag}/dim={dform}")
            res = with_dim(schmidt_rank, Y, dim=dim)
            if res[0] != "ok" or res[1] != want:
                t.fail(f"operator schmidt_rank({tag} sum of {case['r']} products on {dA}x{dB}, dim={dform}) = {res[1]!r}, exact rank {want}",
                       function="schmidt_rank", input="dm", dim_form=dform, dA=dA, dB=dB, impl=repr(res[1]), expected=want)
        # the 2-D dimension form [[rows of A, rows of B], [columns of A, columns of B]] and the truncation parameter of the operator decomposition
        d2 = np.array([[dA, dB], [dA, dB]])
        ctx.case({"fn": "schmidt_rank_op", "dA": dA, "dB": dB, "r": case["r"], "tag": tag, "dim": "array2d", "A": case["A"][0]["re"][:4]}, True, f"oprank/{dA}x{dB}/{tag}/dim=array2d")
        res = _call(schmidt_rank, Y, d2)
        if res[0] != "ok" or res[1] != want:
            t.fail(f"operator schmidt_rank({tag}, dim=[[{dA},{dB}],[{dA},{dB}]]) = {res[1]!r}, exact rank {want}",
                   function="schmidt_rank", input="dm", dim_form="array2d", dA=dA, dB=dB, impl=repr(res[1]), expected=want)
        res = _call(is_product, Y, d2)
        verdict = None
        if res[0] == "ok":
            try:
                verdict = bool(np.asarray(res[1][0]).reshape(-1)[0])
            except Exception:  # noqa: BLE001
                verdict = None
        if verdict is None or verdict != (want <= 1):
            t.fail(f"is_product(operator, dim=[[{dA},{dB}],[{dA},{dB}]]) -> {res[1] if res[0] != 'ok' else verdict!r}; exact operator Schmidt rank {want}",
                   function="is_product", input="dm", dim_form="array2d", impl=(res[1] if res[0] != "ok" else repr(verdict)), expected=(want <= 1))
        full = _call(schmidt_decomposition, Y, [dA, dB])
        for dform, dim, kp in (("array2d", d2, 0), ("scalar", dA, 0), ("list/k_param=1", [dA, dB], 1)):
            res = _call(schmidt_decomposition, Y, dim, kp)
            if res[0] != "ok" or full[0] != "ok":
                t.fail(f"operator schmidt_decomposition(dim={dform}) raised {res[1]}", function="schmidt_decomposition", input="dm", dim_form=dform, impl=res[1])
                continue
            sv0 = np.asarray(full[1][0]).reshape(-1)
            sv = np.asarray(res[1][0]).reshape(-1)
            am, bm = np.asarray(res[1][1]), np.asarray(res[1][2])
            cnt = want if kp == 0 else kp
            okk = len(sv) == cnt and am.shape == (dA, dA, cnt) and bm.shape == (dB, dB, cnt) and np.max(np.abs(sv - sv0[:cnt])) <= 1e-9 * max(1.0, sv0[0])
            if okk and kp == 0:
                reb = sum(sv[i] * np.kron(am[:, :, i], bm[:, :, i]) for i in range(len(sv)))
                okk = np.max(np.abs(reb - Y)) <= 1e-9 * max(1.0, np.max(np.abs(Y)))
            if not okk:
                t.fail(f"operator schmidt_decomposition({tag}, dim={dform}) on {dA}x{dB}: coefficients {sv.tolist()} / shapes {am.shape}, {bm.shape}; "
                       f"the list-dim call gives {sv0.tolist()} (exact rank {want})", function="schmidt_decomposition", input="dm", dim_form=dform, impl=sv.tolist())
        res = full
        if res[0] != "ok":
            t.fail(f"operator schmidt_decomposition raised {res[1]}", function="schmidt_decomposition", input="dm", dim_form="list", impl=res[1])
        else:
            sv, am, bm = (np.asarray(z) for z in res[1])
            sv = sv.reshape(-1)
            reb = sum(sv[i] * np.kron(am[:, :, i], bm[:, :, i]) for i in range(len(sv)))
            gram = np.array([[np.vdot(am[:, :, i], am[:, :, k]) for k in range(len(sv))] for i in range(len(sv))])
            if len(sv) != want or np.max(np.abs(reb - Y)) > 1e-9 * max(1.0, np.max(np.abs(Y))) or np.max(np.abs(gram - np.eye(len(sv)))) > 1e-9:
                t.fail(f"operator schmidt_decomposition on {dA}x{dB}: {len(sv)} terms (exact rank {want}), rebuild residual {np.max(np.abs(reb - Y)):.2e}",
                       function="schmidt_decomposition", input="dm", dim_form="list", impl="operator rebuild")


# ------------------------------------------------------------------------------------------------ S(k) operator norm, block positivity

def rank_k_vectors(rng, X, dA, dB, k, count):
    """explicit unit vectors of Schmidt rank <= k: random ones, truncated eigenvectors, and a few alternating-optimisation sweeps"""
    out = []

    def trunc(v):
        A = v.reshape(dA, dB)
        u, s, vh = np.linalg.svd(A, full_matrices=False)
        A2 = (u[:, :k] * s[:k]) @ vh[:k, :]
        w = A2.reshape(-1)
        nrm = np.linalg.norm(w)
        return w / nrm if nrm > 0 else None

    w, vecs = np.linalg.eigh((X + X.conj().T) / 2)
    for i in range(len(w)):
        z = trunc(vecs[:, i])
        if z is not None:
            out.append(z)
    for _ in range(count):
        v = sum(np.kron(rng.normal(size=dA) + 1j * rng.normal(size=dA), rng.normal(size=dB) + 1j * rng.normal(size=dB)) for _ in range(k))
        v = v / np.linalg.norm(v)
        # power-iteration style improvement, projecting back to rank k
        for _ in range(6):
            z = trunc(X @ v)
            if z is None:
                break
            v = z
        out.append(v)
    return out


def make_sk_case(rng, dA, dB, k, variant):
    r = min(dA, dB)
    base = make_pure_case(rng, dA, dB, int(rng.integers(2, r + 1)) if r >= 2 else 1)
    base.update({"kind": "sk", "k": k, "variant": variant, "a": int(rng.integers(1, 4)), "b": int(rng.integers(1, 6)),
                 "seed": int(rng.integers(1 << 30))})
    return base


def check_sk(ctx, case):
    dA, dB, k, variant = case["dA"], case["dB"], case["k"], case["variant"]
    N = dA * dB
    t = Tally(ctx, "sk", case, "C14.skVecNormSq_max / skVecNormSq_attained (closed form of the rank-one case); the bracket clause is one-sided (partial)")
    try:
        psi, _, tr = pure_state(ctx, case)
    except ModelDefect as e:
        t.fail(e.what + " (model defect)", model=e.info)
        return
    rng = np.random.default_rng(case["seed"])
    P = np.outer(psi, psi.conj())
    skk = tr["sk2"][min(k, len(tr["sk2"])) - 1]
    truth = None
    if variant == "tensorid":
        m = int(case["m"])
        X = case["b"] * np.kron(P, np.eye(m)) / m          # A (x) B1 (x) B2 read as the bipartite cut A | B1 B2
        truth = case["b"] * float(tr["sk2"][0]) / m if k == 1 else None
        dB = dB * m
        N = dA * dB
    elif variant == "rank1":
        X = case["b"] * P
        truth = case["b"] * skk
    elif variant == "shifted":
        X = case["a"] * np.eye(N) / 4 + case["b"] * P
        truth = case["a"] / 4 + case["b"] * skk
    elif variant == "projector":
        # projector onto span{product vector, an orthogonal vector}: contains a Schmidt-rank-1 vector, so every S(k) norm is 1
        e = np.kron(np.eye(dA)[0], np.eye(dB)[0]).astype(complex)
        w = psi - e * np.vdot(e, psi)
        if np.linalg.norm(w) < 1e-6:
            w = np.kron(np.eye(dA)[1], np.eye(dB)[1]).astype(complex)
        w = w / np.linalg.norm(w)
        X = np.outer(e, e.conj()) + np.outer(w, w.conj())
        truth = 1.0
    else:  # random PSD, no closed form: one-sided only
        G = rng.normal(size=(N, 3)) + 1j * rng.normal(size=(N, 3))
        X = G @ G.conj().T
        X = X / np.trace(X).real
    X = (X + X.conj().T) / 2
    ctx.case({"fn": "sk_operator_norm", "dA": dA, "dB": dB, "k": k, "variant": variant, "s": case["s"], "a": case["a"], "b": case["b"], "seed": case["seed"]},
             True, f"sk_norm/{dA}x{dB}/k={k}/{variant}")
    scale = float(np.linalg.norm(X, 2))
    forms = (("list", [dA, dB]), ("scalar", dA)) + ((("omitted", None),) if dA == dB else ())
    if case.get("list_only"):
        forms = forms[:1]
    for dform, dim in forms:
        res = _call(sk_operator_norm, X, k) if dim is None else _call(sk_operator_norm, X, k, dim)
        if res[0] != "ok":
            if "Numerical problems" in str(res[1]) or "SolverError" in str(res[1]):
                ctx.count("sk_norm/solver-numerical-failure")
                continue
            t.fail(f"sk_operator_norm raised {res[1]} on a valid {dA}x{dB} operator (k={k}, {variant})", function="sk_operator_norm", dim_form=dform, impl=res[1])
            continue
        lo, hi = float(np.real(res[1][0])), float(np.real(res[1][1]))
        tol = TOL_SDP * max(1.0, scale)
        if lo > hi + tol:
            t.fail(f"sk_operator_norm: lower bound {lo!r} exceeds upper bound {hi!r} ({dA}x{dB}, k={k}, {variant})", function="sk_operator_norm", dim_form=dform, impl=[lo, hi])
        if hi > scale + tol:
            t.fail(f"sk_operator_norm: upper bound {hi!r} exceeds the operator norm {scale!r}", function="sk_operator_norm", dim_form=dform, impl=[lo, hi])
        if truth is not None and not (lo - tol <= truth <= hi + tol):
            t.fail(f"sk_operator_norm bounds [{lo!r}, {hi!r}] do not bracket the exact S({k}) norm {truth!r} of {variant} operator on {dA}x{dB} (s={case['s']})",
                   function="sk_operator_norm", dim_form=dform, impl=[lo, hi], expected=truth)
        best = 0.0
        for v in rank_k_vectors(rng, X, dA, dB, k, 12):
            val = float(np.real(np.vdot(v, X @ v)))
            best = max(best, val)
        if best > hi + tol:
            t.fail(f"sk_operator_norm: an explicit vector of Schmidt rank <= {k} attains {best!r} > upper bound {hi!r} ({dA}x{dB}, {variant})",
                   function="sk_operator_norm", dim_form=dform, impl=[lo, hi], attained=best)
        if k >= min(dA, dB) and not (close(lo, scale, 1e-9) and close(hi, scale, 1e-9)):
            t.fail(f"sk_operator_norm with k >= min(dim) must return the operator norm {scale!r}: [{lo!r}, {hi!r}]", function="sk_operator_norm", dim_form=dform, impl=[lo, hi], expected=scale)
    # block positivity of I - c |psi><psi|: k-block positive iff c * (sum of k largest s_i^2) <= 1
    if variant == "shifted":
        for c_rel, want in ((0.85, True), (1.2, False)):
            c = c_rel / skk
            Y = np.eye(N) - c * P
            Y = (Y + Y.conj().T) / 2
            ctx.case({"fn": "is_block_positive", "dA": dA, "dB": dB, "k": k, "c_rel": c_rel, "s": case["s"], "seed": case["seed"]}, True, f"block_positive/{dA}x{dB}/k={k}/{'yes' if want else 'no'}")
            res = _call(is_block_positive, Y, k, [dA, dB])
            if res[0] != "ok":
                if "Numerical problems" in str(res[1]):
                    ctx.count("block_positive/solver-numerical-failure")
                    continue
                t.fail(f"is_block_positive raised {res[1]}", function="is_block_positive", impl=res[1])
            elif not isinstance(res[1], (bool, np.bool_)) or bool(res[1]) != want:
                t.fail(f"is_block_positive(I - c|psi><psi|, k={k}) = {res[1]!r} with c*S(k)^2 = {c_rel} (exact verdict {want}) on {dA}x{dB}",
                       function="is_block_positive", impl=repr(res[1]), expected=want)
        res = _call(is_block_positive, np.eye(N) + 1j * np.triu(np.ones((N, N)), 1), k, [dA, dB])
        if res[0] != "ok" or res[1] is not False:
            t.fail(f"is_block_positive of a non-Hermitian matrix = {res[1]!r}", function="is_block_positive", impl=repr(res[1]), expected=False)



# ------------------------------------------------------------------------------------------------ S(k) operator norm: certified two-sided bracket

WIDTH_OK = 1e-3   # certified intervals wider than this (times the scale) are counted as uncertified-wide; never a violation by themselves


def ces_basis(dA, dB):
    """columns |i,j> - |i+1,j-1> (0 <= i < dA-1, 1 <= j < dB): a basis of a completely entangled subspace of dimension (dA-1)(dB-1)"""
    cols = []
    for i in range(dA - 1):
        for j in range(1, dB):
            v = np.zeros(dA * dB, dtype=complex)
            v[i * dB + j] = 1
            v[(i + 1) * dB + (j - 1)] = -1
            cols.append(v)
    return np.array(cols).T


def _haar(rng, d):
    z = rng.normal(size=(d, d)) + 1j * rng.normal(size=(d, d))
    q, r = np.linalg.qr(z)
    return q * (np.diag(r) / np.abs(np.diag(r)))


def make_skcert_case(rng, dA, dB, k, variant, r=None, rot=False, c="1", s=None):
    return {"kind": "skcert", "dA": dA, "dB": dB, "k": k, "variant": variant, "r": r, "rot": bool(rot), "c": c, "shift": s,
            "seed": int(rng.integers(1 << 30))}


def make_edge_case(rng, dA, dB, b, al, rot=False, c="1"):
    case = make_skcert_case(rng, dA, dB, 1, "edge", rot=rot, c=c)
    case.update({"b": b, "al": al})
    return case


def horodecki_2x4(b):
    """Horodecki's one-parameter family of PPT-entangled states on 2 x 4 (0 < b < 1), flat index a*4 + b"""
    R = np.zeros((8, 8))
    for i in range(8):
        R[i, i] = b
    for i, j in ((0, 5), (1, 6), (2, 7)):
        R[i, j] = R[j, i] = b
    R[4, 4] = R[7, 7] = (1 + b) / 2
    R[4, 7] = R[7, 4] = np.sqrt(1 - b * b) / 2
    return (R / (7 * b + 1)).astype(complex)


def kernel_projector(M):
    w, v = np.linalg.eigh((M + M.conj().T) / 2)
    ker = v[:, w < 1e-9]
    return ker @ ker.conj().T


def build_sk_operator(case):
    """the float operator handed to toqito (a function of the case alone), and the closed-form value where there is one"""
    rng = np.random.default_rng(case["seed"])
    dA, dB, variant, r = case["dA"], case["dB"], case["variant"], case["r"]
    N = dA * dB
    truth = None
    hints = []
    if variant in ("ces", "cesrand"):
        B = ces_basis(dA, dB)
        D = B.shape[1]
        if variant == "ces":
            cols = B[:, rng.permutation(D)[:r]] if case["rot"] else B[:, :r]
        else:
            cols = B @ (rng.normal(size=(D, r)) + 1j * rng.normal(size=(D, r)))
        if case["rot"]:
            cols = np.kron(_haar(rng, dA), _haar(rng, dB)) @ cols
        q, _ = np.linalg.qr(cols)
        X = q @ q.conj().T
    elif variant == "prodproj":
        a = rng.normal(size=dA) + 1j * rng.normal(size=dA)
        b = rng.normal(size=dB) + 1j * rng.normal(size=dB)
        e = np.kron(a, b)
        hints = [e]
        cols = np.column_stack([e] + [rng.normal(size=N) + 1j * rng.normal(size=N) for _ in range(r - 1)])
        q, _ = np.linalg.qr(cols)
        X = q @ q.conj().T
        truth = 1.0
    elif variant == "psd":
        G = rng.normal(size=(N, r)) + 1j * rng.normal(size=(N, r))
        X = G @ G.conj().T
        X = X / np.trace(X).real
    elif variant == "indef":
        G = rng.normal(size=(N, N)) + 1j * rng.normal(size=(N, N))
        X = G + G.conj().T
        X = X / np.linalg.norm(X, 2)
    elif variant == "zero":
        X = np.zeros((N, N), dtype=complex)
    elif variant == "witness":
        # W = (|psi><psi|)^{T_B} + s*1: block positive iff s >= 0 (a product vector in the kernel of the partial transpose exists)
        m = min(dA, dB)
        sv = np.sort(rng.uniform(0.4, 1.0, size=m))[::-1]
        sv = sv / np.linalg.norm(sv)
        A = np.zeros((dA, dB), dtype=complex)
        for i in range(m):
            A[i, i] = sv[i]
        psi = (_haar(rng, dA) @ A @ _haar(rng, dB).T).reshape(-1)
        rho = np.outer(psi, psi.conj())
        X = skc.pt_b(rho, dA, dB) + float(Fraction(case["shift"])) * np.eye(N)
    elif variant == "edge":
        # PPT-entangled edge state of 2 x 4 (Horodecki's family, parameter b): P / Q project onto the kernels of rho_b / of its partial transpose;
        # W = al*P + (1-al)*Q^{T_B} has <ab|W|ab> >= eps > 0 on product vectors (an edge state has no product vector |a,b> in its range with |a,conj b> in the
        # range of the partial transpose) but tr(W rho_b) = 0, so for X = lmax(W)*1 - W the PPT relaxation (optimum lmax(W), attained at rho_b) is NOT tight
        b, al = float(Fraction(case["b"])), float(Fraction(case["al"]))
        rho = horodecki_2x4(b)
        Pk, Qk = kernel_projector(rho), kernel_projector(skc.pt_b(rho, 2, 4))
        W = al * Pk + (1 - al) * skc.pt_b(Qk, 2, 4)
        W = (W + W.conj().T) / 2
        X = float(np.max(np.linalg.eigvalsh(W))) * np.eye(8) - W
        X = X / np.linalg.norm(X, 2)
        if case["rot"]:
            U = np.kron(_haar(rng, 2), _haar(rng, 4))
            X = U @ X @ U.conj().T
        if (dA, dB) == (4, 2):
            X = X.reshape(2, 4, 2, 4).transpose(1, 0, 3, 2).reshape(8, 8)
        elif (dA, dB) != (2, 4):
            raise ValueError("edge: 2x4 or 4x2")
    elif variant == "upb":
        # projector onto the orthogonal complement of the Tiles unextendible product basis of 3 x 3: X/4 is a PPT-entangled state, the PPT relaxation has
        # optimum 1 = ||X|| while product vectors reach only 1 - 0.0284
        e = np.eye(3)
        s2 = np.sqrt(2.0)
        us = [np.kron(e[0], (e[0] - e[1]) / s2), np.kron(e[2], (e[1] - e[2]) / s2), np.kron((e[0] - e[1]) / s2, e[2]),
              np.kron((e[1] - e[2]) / s2, e[0]), np.kron(e.sum(0) / np.sqrt(3.0), e.sum(0) / np.sqrt(3.0))]
        X = (np.eye(9) - sum(np.outer(u, u) for u in us)).astype(complex)
        if case["rot"]:
            U = np.kron(_haar(rng, 3), _haar(rng, 3))
            X = U @ X @ U.conj().T
        if (dA, dB) != (3, 3):
            raise ValueError("upb: 3x3")
    else:
        raise ValueError(variant)
    X = float(Fraction(case["c"])) * X
    X = (X + X.conj().T) / 2
    if truth is not None:
        truth = truth * float(Fraction(case["c"]))
    return X, truth, hints


DPS_MAX = 36      # the two-copy certificate is built when dA*dB*dB <= DPS_MAX (2x4, 4x2, 3x3 and smaller)


def _sk_certify(lean, X, dA, dB, k, rng, want_upper=True, hints=(), level2="auto", levels=None):
    """certified (LB, UB) as Fractions (None where the candidate was rejected / could not be built) and the rejection reasons.
    k = 1: when the PPT-level bracket is wider than WIDTH_OK (the relaxation is not tight: possible from 2x4 / 3x3 on) or `level2` is True, the two-copy
    certificate (C14.checkSkUpperDps_sound) is built as well and the smaller verified bound is used; `levels` receives both bounds."""
    why = []
    UB = LB = None
    if levels is None:
        levels = {}
    if want_upper:
        up = skc.upper_certificate(X, dA, dB, k, ppt=(k == 1))
        if up is None:
            why.append("upper: no candidate")
        else:
            ans = lean.ask("c14_sk_upper_ppt" if k == 1 else "c14_sk_upper_red", up[0])
            if "ok" in ans:
                UB = skc.frac_of(ans)
            else:
                why.append(f"upper: {ans.get('reject')}")
    v = skc.best_rank_k_vector(rng, X, dA, dB, k, hints=hints)
    ans = lean.ask("c14_sk_lower", skc.lower_certificate(X, dA, dB, k, v))
    if "ok" in ans:
        LB = skc.frac_of(ans)
    else:
        why.append(f"lower: {ans.get('reject')}")
    levels["ppt"] = UB
    if want_upper and k == 1 and dA * dB * dB <= DPS_MAX and level2:
        scale = max(1.0, float(np.linalg.norm(X, 2)))
        wide = UB is None or LB is None or float(UB - LB) > WIDTH_OK * scale
        if level2 is True or wide:
            up = skc.upper_certificate_dps(X, dA, dB)
            if up is None:
                why.append("upper2: no candidate")
            else:
                ans = lean.ask("c14_sk_upper_dps", up[0])
                if "ok" in ans:
                    levels["dps"] = skc.frac_of(ans)
                    UB = levels["dps"] if UB is None else min(UB, levels["dps"])
                else:
                    why.append(f"upper2: {ans.get('reject')}")
    return LB, UB, why


def check_skcert(ctx, case):
    dA, dB, k, variant = case["dA"], case["dB"], case["k"], case["variant"]
    N = dA * dB
    lean = ctx.lean()
    t = Tally(ctx, "skcert", case, "C14.checkSkUpperPPT_sound / checkSkUpperRed_sound / checkSkUpperDps_sound (every unit vector of Schmidt rank <= k has <v|X|v> <= UB) / "
              "checkSkLower_sound (LB is attained by such a vector) / sk_lower_le_upper / sk_lower_le_upper_dps / schmidtLE_iff_rank_le")
    X, truth, hints = build_sk_operator(case)
    rng = np.random.default_rng(case["seed"] + 1)
    scale = float(np.linalg.norm(X, 2))
    tol = TOL_SDP * max(1.0, scale)
    psd = float(np.min(np.linalg.eigvalsh(X))) >= -1e-12 * max(1.0, scale)
    desc = {"fn": "sk_operator_norm", "cert": True, "dA": dA, "dB": dB, "k": k, "variant": variant, "r": case["r"], "rot": case["rot"], "c": case["c"],
            "shift": case["shift"], "seed": case["seed"]}
    if variant == "edge":
        desc.update({"b": case["b"], "al": case["al"]})
    levels = {}
    if variant == "witness":
        return _check_block_positive(ctx, t, lean, case, X, rng, desc)
    if variant == "zero":
        ctx.case(dict(desc, dim="list"), False, f"sk_cert/{dA}x{dB}/k={k}/zero")
        res = _call(sk_operator_norm, X, k, [dA, dB])
        if res[0] != "ok" or not (float(np.real(res[1][0])) == 0.0 and float(np.real(res[1][1])) == 0.0):
            t.fail(f"sk_operator_norm of the zero operator = {res[1]!r}: every attained value is 0", function="sk_operator_norm", impl=repr(res[1]), expected=[0.0, 0.0])
        return
    if psd:
        LB, UB, why = _sk_certify(lean, X, dA, dB, k, rng, hints=hints, level2=True if variant in ("edge", "upb") else "auto", levels=levels)
    else:
        # indefinite Hermitian: the routine brackets sup |<w|X|v>| >= |<v|X|v>|; only the attained values are certified (one-sided)
        LBp, _, why = _sk_certify(lean, X, dA, dB, k, rng, want_upper=False)
        LBm, _, why2 = _sk_certify(lean, -X, dA, dB, k, rng, want_upper=False)
        why = why + why2
        LB = max([x for x in (LBp, LBm) if x is not None], default=None)
        UB = None
    for w in why:
        ctx.count(f"sk_cert/uncertified/{w[:60]}")
    if LB is not None and UB is not None and LB > UB:
        t.fail(f"certified lower bound {float(LB)!r} exceeds certified upper bound {float(UB)!r} (contradicts C14.sk_lower_le_upper: model / driver defect)",
               model=[float(LB), float(UB)])
        return
    if truth is not None and ((LB is not None and float(LB) > truth + 1e-9) or (UB is not None and float(UB) < truth - 1e-9)):
        t.fail(f"certified interval [{LB and float(LB)!r}, {UB and float(UB)!r}] excludes the closed form {truth!r} (harness defect)", model=[str(LB), str(UB)])
        return
    tight = LB is not None and UB is not None and float(UB - LB) <= WIDTH_OK * max(1.0, scale)
    if psd:
        ctx.count("sk_cert/certified-tight" if tight else "sk_cert/uncertified-wide")
    if levels.get("dps") is not None:
        ctx.count("sk_cert/two-copy-level-used")
    # instances on which the first (PPT) level is certified NOT to be exact: a lower bound of toqito taken from that level would exceed UB by more than the tolerance
    ppt_gap = levels.get("dps") is not None and levels.get("ppt") is not None and float(levels["ppt"] - levels["dps"]) >= 2.5 * tol
    if variant in ("edge", "upb"):
        ctx.count("sk_cert/ppt-level-not-tight" if (tight and ppt_gap) else "sk_cert/ppt-gap-uncertified")
        tight = tight and ppt_gap
    forms = [("list", [dA, dB], None)] + ([("scalar", dA, None)] if case["seed"] % 3 == 0 else []) + ([("omitted", None, None)] if dA == dB and case["seed"] % 3 == 1 else [])
    if psd and variant in ("psd", "ces", "cesrand") and case["seed"] % 2 == 0 and k < min(dA, dB):
        forms += [("list/effort=0", [dA, dB], 0), ("list/effort=1", [dA, dB], 1)]     # no SDP / first SDP only: the analytic and randomised bounds alone must bracket too
    label = f"b={case['b']}, al={case['al']}, rot={case['rot']}, c={case['c']}, seed {case['seed']}" if variant == "edge" else \
        (f"rot={case['rot']}, c={case['c']}, seed {case['seed']}" if variant == "upb" else f"rank {case['r']}")
    for dform, dim, effort in forms:
        ctx.case(dict(desc, dim=dform), bool(tight) or not psd, f"sk_cert/{dA}x{dB}/k={k}/{variant}/dim={dform}")
        if effort is not None:
            res = _call(sk_operator_norm, X, k, dim, None, effort)
        else:
            res = _call(sk_operator_norm, X, k) if dim is None else _call(sk_operator_norm, X, k, dim)
        if res[0] != "ok":
            if "Numerical problems" in str(res[1]) or "SolverError" in str(res[1]):
                ctx.count("sk_norm/solver-numerical-failure")
                continue
            t.fail(f"sk_operator_norm raised {res[1]} on a valid {dA}x{dB} operator (k={k}, {variant})", function="sk_operator_norm", dim_form=dform, impl=res[1])
            continue
        try:
            lo, hi = float(np.real(res[1][0])), float(np.real(res[1][1]))
        except Exception:  # noqa: BLE001
            t.fail(f"sk_operator_norm returned {res[1]!r}, not a pair of bounds", function="sk_operator_norm", dim_form=dform, impl=repr(res[1]))
            continue
        info = {"function": "sk_operator_norm", "dim_form": dform, "impl": [lo, hi], "certified": [LB is not None and float(LB), UB is not None and float(UB)]}
        if levels.get("dps") is not None:
            info["certified_upper_by_level"] = {"ppt": levels.get("ppt") is not None and float(levels["ppt"]), "two_copy": float(levels["dps"])}
        if lo > hi + tol:
            t.fail(f"sk_operator_norm: lower bound {lo!r} exceeds upper bound {hi!r} ({dA}x{dB}, k={k}, {variant}, {dform})", **info)
        if hi > scale + tol:
            t.fail(f"sk_operator_norm: upper bound {hi!r} exceeds the operator norm {scale!r}", **info)
        if LB is not None and hi < float(LB) - tol:
            t.fail(f"sk_operator_norm: upper bound {hi!r} is below the value {float(LB)!r} attained by an explicit (verified) vector of Schmidt rank <= {k} "
                   f"({dA}x{dB}, {variant}, {label}, {dform})", **info)
        if psd and UB is not None and lo > float(UB) + tol:
            t.fail(f"sk_operator_norm: lower bound {lo!r} exceeds the certified upper bound {float(UB)!r} on every value attained by vectors of Schmidt rank <= {k} "
                   f"({dA}x{dB}, {variant}, {label}, {dform})", **info)
        if not psd and lo > scale + tol:
            t.fail(f"sk_operator_norm: lower bound {lo!r} exceeds the operator norm {scale!r} (indefinite Hermitian input)", **info)
        if k >= min(dA, dB) and not (close(lo, scale, 1e-9) and close(hi, scale, 1e-9)):
            t.fail(f"sk_operator_norm with k >= min(dim) must return the operator norm {scale!r}: [{lo!r}, {hi!r}]", expected=scale, **info)


def _check_block_positive(ctx, t, lean, case, W, rng, desc):
    """is_block_positive(W, 1) against the certified bracket of sup <v|(c*1 - W)|v> over unit product vectors: W is block positive iff that sup <= c"""
    dA, dB, k = case["dA"], case["dB"], case["k"]
    N = dA * dB
    c = float(np.linalg.norm(W, 2))
    Cm = c * np.eye(N) - W
    Cm = (Cm + Cm.conj().T) / 2
    LB, UB, why = _sk_certify(lean, Cm, dA, dB, k, rng)
    for w in why:
        ctx.count(f"block_positive/uncertified/{w[:60]}")
    want = None
    if UB is not None and float(UB) <= c * (1 - 1e-2):
        want = True
    elif LB is not None and float(LB) >= c * (1 + 1e-2):
        want = False
    ctx.case(dict(desc, fn="is_block_positive"), want is not None, f"block_positive_cert/{dA}x{dB}/k={k}/{'undetermined' if want is None else ('yes' if want else 'no')}")
    if want is None:
        ctx.count("block_positive/uncertified-margin")
        return
    if want != (Fraction(case["shift"]) >= 0):
        t.fail(f"certified block-positivity verdict {want} contradicts the construction (shift {case['shift']}) (harness defect)", model=[str(LB), str(UB)])
        return
    for dform, dim in (("list", [dA, dB]), ("scalar", dA)):
        res = _call(is_block_positive, W, k, dim)
        if res[0] != "ok":
            if "Numerical problems" in str(res[1]):
                ctx.count("block_positive/solver-numerical-failure")
                continue
            t.fail(f"is_block_positive raised {res[1]}", function="is_block_positive", dim_form=dform, impl=res[1])
        elif not isinstance(res[1], (bool, np.bool_)) or bool(res[1]) != want:
            t.fail(f"is_block_positive(rho^T_B + ({case['shift']})*1, k={k}, dim={dform}) = {res[1]!r}; certified: sup over product vectors of <v|(c - W)|v> in "
                   f"[{LB and float(LB)!r}, {UB and float(UB)!r}] with c = {c!r}, so the verdict is {want} ({dA}x{dB})",
                   function="is_block_positive", dim_form=dform, impl=repr(res[1]), expected=want)


class _WorkerCtx:
    """the part of the run context that the checks use, backed by a pool Result and the worker's own Lean driver"""

    def __init__(self, res):
        self.res = res

    def case(self, *a, **k):
        self.res.case(*a, **k)

    def violation(self, what, info):
        self.res.violation(what, info)

    def count(self, key, k=1):
        self.res.count(key, k)

    def lean(self):
        return worker_driver()


def pooled_work(case, res):
    run_case(_WorkerCtx(res), case)


# ------------------------------------------------------------------------------------------------ weakly entangled states

WEAK_REL = ["1/100000000", "1/1000000000", "1/10000000000", "1/1000000000000"]   # 1e-8, 1e-9, 1e-10, 1e-12


def make_weak_case(rng, dA, dB, n_small, rel, big=None):
    """planted Schmidt vector with `n_small` coefficients of relative size `rel` next to O(1) ones, exact Cayley local unitaries"""
    m = min(dA, dB)
    n_small = min(n_small, m - 1)
    n_big = int(rng.integers(1, m - n_small + 1)) if big is None else big
    bigs = [Fraction(int(rng.integers(3, 10)), 10) for _ in range(n_big)]
    smalls = [Fraction(rel) * int(rng.integers(1, 8)) for _ in range(n_small)]
    vals = bigs + smalls
    slots = sorted(rng.choice(m, size=len(vals), replace=False).tolist())
    order = rng.permutation(len(vals))
    s = [Fraction(0)] * m
    for pos, idx in zip(slots, order):
        s[pos] = vals[int(idx)]
    ident = bool(rng.integers(3) == 0)
    U = xm_eye(dA) if ident else exact_cayley(rng, dA)
    V = xm_eye(dB) if ident else exact_cayley(rng, dB)
    return {"kind": "weak", "dA": dA, "dB": dB, "s": [str(x) for x in s], "rel": rel, "rotated": not ident, "U": xm_json(U), "V": xm_json(V)}


def check_weak(ctx, case):
    dA, dB = case["dA"], case["dB"]
    m = min(dA, dB)
    t = Tally(ctx, "weak", case, "C14.schmidtRank_closed_form (the Schmidt rank counts the non-zero s_i, however small) / schmidtRankVec_eq_rank / isProduct_iff_minors")
    s = [Fraction(x) for x in case["s"]]
    pl = ctx.lean().ask("c14_planted", {"dA": dA, "dB": dB, "s": [rj(x) for x in s], "U": case["U"], "V": case["V"]})
    r = sum(1 for x in s if x != 0)
    if not (pl["unitaryU"] and pl["unitaryV"] and pl["rank"] == pl["support"] == r):
        t.fail("weakly entangled planted state: Lean model self-check failed (unitarity / exact rank = support) (model defect)", model={k: v for k, v in pl.items() if k != "psi"})
        return
    psi = xm_float([cq_of_lean(p) for p in pl["psi"]])
    smax = float(max(s))
    smin = float(min(x for x in s if x != 0))
    planted = sorted((float(x) for x in s if x != 0), reverse=True)

    def reg(fn, form, dform):
        ctx.case({"fn": fn, "weak": True, "input": form, "dim": dform, "dA": dA, "dB": dB, "s": case["s"], "rot": case["rotated"], "U": case["U"]["re"][:4]}, True,
                 f"weak/{fn}/{form}/dim={dform}/rel={case['rel']}")

    inputs = {"vec1d": psi, "col": psi.reshape(-1, 1)}
    for form, x in inputs.items():
        for dform, dim in dim_forms(dA, dB):
            reg("schmidt_rank", form, dform)
            res = with_dim(schmidt_rank, x, dim=dim)
            if res[0] != "ok" or res[1] != r:
                t.fail(f"schmidt_rank({form}, dim={dform}) = {res[1]!r} on a state with {r} non-zero Schmidt coefficients {case['s']} on {dA}x{dB} "
                       f"(smallest / largest = {smin / smax:.1e}, far above the rank cut-off ~1e-15)",
                       function="schmidt_rank", input=form, dim_form=dform, dA=dA, dB=dB, impl=repr(res[1]), expected=r)
            reg("is_product", form, dform)
            res = with_dim(is_product, x, dim=dim)
            verdict = None
            if res[0] == "ok":
                try:
                    verdict = bool(np.asarray(res[1][0]).reshape(-1)[0])
                except Exception:  # noqa: BLE001
                    verdict = None
            if verdict is None or verdict != (r == 1):
                t.fail(f"is_product({form}, dim={dform}) -> {res[1] if res[0] != 'ok' else verdict!r} on a state with Schmidt coefficients {case['s']} ({dA}x{dB})",
                       function="is_product", input=form, dim_form=dform, impl=(res[1] if res[0] != "ok" else repr(verdict)), expected=(r == 1))
            reg("schmidt_decomposition", form, dform)
            res = _call(schmidt_decomposition, x, dim) if dim is not None else _call(schmidt_decomposition, x)
            if res[0] != "ok":
                t.fail(f"schmidt_decomposition({form}, dim={dform}) raised {res[1]}", function="schmidt_decomposition", input=form, dim_form=dform, impl=res[1])
            else:
                sv = np.asarray(res[1][0]).reshape(-1)
                if len(sv) != r or any(abs(a - b) > 1e-14 * smax + 1e-9 * b for a, b in zip(sv, planted)):
                    t.fail(f"schmidt_decomposition({form}, dim={dform}) returns the coefficients {sv.tolist()}, planted {planted} ({dA}x{dB})",
                           function="schmidt_decomposition", input=form, dim_form=dform, impl=sv.tolist(), expected=planted)
    # S(k) vector norm: the k largest squares (the small coefficients matter only from the rank on)
    for k in range(1, m + 1):
        want = math.sqrt(sum(x * x for x in planted[:k]))
        reg("sk_vector_norm", "vec1d", f"list/k={k}")
        res = _call(sk_vector_norm, psi, k, [dA, dB])
        if res[0] != "ok" or not close(res[1], want, TOL, scale=smax):
            t.fail(f"sk_vector_norm(k={k}) = {res[1]!r}, expected {want!r} ({case['s']})", function="sk_vector_norm", k=k, impl=repr(res[1]), expected=want)


# ------------------------------------------------------------------------------------------------ driver

CHECKS = {"pure": check_pure, "mixed": check_mixed, "additive": check_additive, "product": check_product, "oprank": check_oprank, "sk": check_sk,
          "skcert": check_skcert, "weak": check_weak}
POOLED = ("skcert",)


def run_case(ctx, case):
    """one case with its own presentation stream (a function of the case description alone, so a replay sees the same presentations)"""
    def fail(fn, why, pres):
        ctx.violation(f"{fn}: caller's arguments were modified",
                      {"check": case["kind"], "case": case, "function": fn, "modified": why, "presentation": pres, "theorem": "(purity of the library functions)"})

    _PRES["rng"], _PRES["fail"] = case_rng("c14", case), fail
    try:
        CHECKS[case["kind"]](ctx, case)
    finally:
        _PRES["rng"] = _PRES["fail"] = None


def corpus_cases():
    """past failures first"""
    out = []
    # schmidt_rank reshaped by reversed dims in C order (fixed in 3fe3678): product vector on 2x3 and |00>+|11> on 2x3
    out.append({"kind": "product", "dims": [2, 3], "operator": False, "entangle": None, "shift": 0,
                "f1": [split(np.array([1, 1])), split(np.array([1, 2, 3]))], "f2": [split(np.array([1, 0])), split(np.array([0, 1, 0]))]})
    out.append({"kind": "product", "dims": [2, 3], "operator": False, "entangle": (0, 1), "shift": 0,
                "f1": [split(np.array([1, 0])), split(np.array([1, 0, 0]))], "f2": [split(np.array([0, 1])), split(np.array([0, 1, 0]))]})
    out.append({"kind": "product", "dims": [2, 3], "operator": True, "entangle": None, "shift": 0,
                "f1": [split(np.array([[1, 2], [3, 4]])), split(np.arange(9).reshape(3, 3) + np.eye(3))],
                "f2": [split(np.eye(2)), split(np.eye(3))]})
    # S(1) norm beyond the sizes where the PPT relaxation is exact (seeded change c14w4_2: `is_trans_exact` widened to every 2 x n): operators whose PPT optimum sits at a
    # PPT-entangled state of 2x4 / 4x2 / 3x3; the lower bound must stay below the verified two-copy bound
    fixed = np.random.default_rng(1420)
    out.append(make_edge_case(fixed, 2, 4, "1/5", "1/2"))
    out.append(make_edge_case(fixed, 4, 2, "1/5", "1/2"))
    out.append(make_skcert_case(fixed, 3, 3, 1, "upb"))
    return out


def generate(ctx):
    rng = ctx.rng
    thorough = ctx.tier == "thorough"
    tasks = list(corpus_cases())
    for _ in range(8 if thorough else 1):
        tasks.extend(_round(rng, thorough))
    return tasks


def _round(rng, thorough):
    tasks = []
    pairs = list(itertools.product([2, 3, 4], [2, 3, 4]))
    reps = 3 if thorough else 1
    for dA, dB in pairs:
        for r in range(1, min(dA, dB) + 1):
            for _ in range(reps):
                tasks.append(make_pure_case(rng, dA, dB, r))
            if r >= 2 and (thorough or rng.integers(2) == 0):
                tasks.append(make_pure_case(rng, dA, dB, r, irrational=True))
    for dA, dB in pairs:
        N = dA * dB
        ranks = sorted({2, int(rng.integers(2, N + 1))}) if not thorough else sorted({2, 3, N - 1, N})
        for rank in ranks:
            if N > 9 and rank > 6 and not thorough:
                rank = 4
            tasks.append(make_mixed_case(rng, dA, dB, rank))
        tasks.append(make_mixed_case(rng, dA, dB, int(rng.integers(2, min(N, 5) + 1)), spectral=True))
        tasks.append(make_mixed_case(rng, dA, dB, 2, incoherent=True))
    for d1, d2 in [(2, 2), (2, 3), (3, 2), (3, 3), (2, 4), (4, 3)] + ([(4, 4), (3, 4)] if thorough else []):
        tasks.append(make_additive_case(rng, d1, d2))
    for dims in [(2, 2), (2, 3), (3, 2), (3, 4), (4, 2), (4, 4), (2, 3, 2), (2, 2, 2), (3, 2, 2), (2, 2, 3)]:
        for opr in (False, True):
            if opr and int(np.prod(dims)) > 12:
                continue
            n = len(dims)
            tasks.append(make_product_case(rng, dims, opr, None, 0))
            for (i, j) in itertools.combinations(range(n), 2):
                tasks.append(make_product_case(rng, dims, opr, (i, j), int(rng.integers(0, 21))))
    for dA, dB in [(2, 2), (2, 3), (3, 2), (3, 3), (2, 4)] + ([(4, 3), (4, 4)] if thorough else []):
        for r in range(1, min(dA * dA, dB * dB, 5) + 1):
            if r in (1, 2, 3) or thorough or rng.integers(2):
                tasks.append(make_oprank_case(rng, dA, dB, r))
    sk_sizes = [(2, 2), (2, 3), (3, 2)] + ([(3, 3), (2, 4)] if thorough else [])
    for dA, dB in sk_sizes:
        for k in range(1, min(dA, dB) + 1):
            for variant in ("rank1", "shifted", "projector", "random"):
                tasks.append(make_sk_case(rng, dA, dB, k, variant))
    if not thorough:
        # 3x3 is the smallest size where the analytic lower bounds and the symmetric-extension steps are live code
        for k, variant in ((1, "shifted"), (2, "shifted"), (2, "random")):
            c = make_sk_case(rng, 3, 3, k, variant)
            c["list_only"] = True
            tasks.append(c)
    # real-valued inputs (drawn last, the stream above is as before): real amplitudes / integer products, so that the presentations
    # float64 and int64 occur next to complex128
    for dA, dB in [(2, 3), (3, 2), (3, 3)] + ([(2, 2), (4, 3)] if thorough else []):
        tasks.append(make_pure_case(rng, dA, dB, int(rng.integers(1, min(dA, dB) + 1)), real=True))
    # states supported on computational basis vectors with zero amplitude on |00> (every Schmidt rank)
    for dA, dB in [(2, 2), (2, 3), (3, 3)] + ([(3, 2), (4, 3)] if thorough else []):
        for r in range(1, min(dA, dB) + 1):
            tasks.append(make_pure_case(rng, dA, dB, r, basis_supported=True))
    # S(k) norm of |phi><phi| (x) 1_m / m on dA x (dB1 m): closed form max s_i^2 / m for k = 1 (unequal dims, degenerate top eigenvalue)
    for dA, dB1 in [(2, 2)] + ([(2, 3), (3, 2)] if thorough else []):
        c = make_sk_case(rng, dA, dB1, 1, "tensorid")
        c["m"] = 2
        tasks.append(c)
    for dims in [(2, 3), (3, 2), (2, 3, 2)]:
        for opr in (False, True):
            n = len(dims)
            tasks.append(make_product_case(rng, dims, opr, None, 0, real=True))
            i, j = sorted(int(t) for t in rng.choice(n, size=2, replace=False))
            tasks.append(make_product_case(rng, dims, opr, (i, j), int(rng.integers(0, 3)), real=True))
    # ---- weakly entangled states: Schmidt coefficients of relative size 1e-8 ... 1e-12 (three orders of magnitude above every rank cut-off)
    weak_sizes = [(2, 2), (2, 3), (3, 2), (3, 3), (3, 4), (4, 4)] + ([(4, 2), (2, 4), (4, 3)] if thorough else [])
    for i, (dA, dB) in enumerate(weak_sizes):
        for j, rel in enumerate(WEAK_REL):
            if thorough or (i + j) % 2 == 0:
                tasks.append(make_weak_case(rng, dA, dB, 1 + int(min(dA, dB) >= 3 and rng.integers(2)), rel))
    tasks.append(make_weak_case(rng, 2, 2, 1, "1/1000000000", big=1))
    for dims in [(2, 2), (2, 3), (3, 2), (3, 4), (4, 4)]:
        for shift in (27, 30, 33, 37):
            if thorough or rng.integers(2):
                tasks.append(make_product_case(rng, dims, False, (0, 1), shift, real=bool(rng.integers(2))))
    for dims in [(2, 2), (2, 3), (3, 2)]:
        for shift in (27, 30, 33):
            if thorough or rng.integers(2):
                tasks.append(make_product_case(rng, dims, True, (0, 1), shift))
    # ---- S(k) operator norm with a certified two-sided bracket (run in the process pool)
    ces_ranks = {(2, 3): [1, 2], (2, 4): [1, 2, 3], (3, 3): [1, 2, 3, 4], (3, 4): [2, 3, 6] + ([1, 4, 5] if thorough else [])}
    for (dA, dB), ranks in ces_ranks.items():
        for r in ranks:
            tasks.append(make_skcert_case(rng, dA, dB, 1, "ces", r=r, c=["1", "5/2", "3/10"][r % 3]))
    tasks.append(make_skcert_case(rng, 3, 3, 2, "ces", r=4))
    tasks.append(make_skcert_case(rng, 3, 4, 2, "ces", r=6))
    for (dA, dB, r) in [(2, 4, 3), (3, 3, 4), (3, 3, 2), (2, 3, 2), (3, 4, 6), (4, 2, 3), (3, 2, 2)]:
        tasks.append(make_skcert_case(rng, dA, dB, 1, "ces" if rng.integers(2) else "cesrand", r=r, rot=True))
    for (dA, dB, r) in [(2, 3, 2), (3, 3, 3), (2, 4, 3), (3, 2, 4)]:
        tasks.append(make_skcert_case(rng, dA, dB, 1, "prodproj", r=r, c=["1", "7/4"][int(rng.integers(2))]))
    for (dA, dB, k, r) in [(2, 2, 1, 3), (2, 3, 1, 4), (3, 2, 1, 6), (3, 3, 1, 3), (3, 3, 2, 5), (2, 4, 1, 8), (3, 3, 3, 9), (2, 3, 2, 3), (4, 2, 1, 2)]:
        tasks.append(make_skcert_case(rng, dA, dB, k, "psd", r=r))
    for (dA, dB, k) in [(2, 2, 1), (2, 3, 1), (3, 3, 1), (3, 3, 2)]:
        tasks.append(make_skcert_case(rng, dA, dB, k, "indef"))
    tasks.append(make_skcert_case(rng, 2, 3, 1, "zero"))
    for (dA, dB) in [(2, 2), (2, 3), (3, 3)] + ([(3, 2), (2, 4)] if thorough else []):
        for sh in ("3/20", "-3/20"):
            tasks.append(make_skcert_case(rng, dA, dB, 1, "witness", s=sh))
    # ---- k = 1 where the PPT relaxation is not exact (drawn last: the stream above is as before)
    edge_b, edge_al = ["3/20", "1/5", "1/4"], ["2/5", "1/2", "3/5"]
    for (dA, dB) in [(2, 4), (4, 2)] * (2 if thorough else 1):
        tasks.append(make_edge_case(rng, dA, dB, edge_b[int(rng.integers(3))], edge_al[int(rng.integers(3))], rot=True, c=["1", "9/4"][int(rng.integers(2))]))
    tasks.append(make_skcert_case(rng, 3, 3, 1, "upb", rot=True, c=["1", "5/2", "3/10"][int(rng.integers(3))]))
    return tasks


def run(ctx, model_ok=True):
    if not model_ok:
        ctx.note("Lean driver unavailable: exact oracles could not be computed; nothing was checked")
        return
    tasks = generate(ctx)
    for case in tasks:
        if case["kind"] not in POOLED:
            run_case(ctx, case)
    run_pool(ctx, pooled_work, [case for case in tasks if case["kind"] in POOLED])
    ctx.extra["tolerances"] = {"TOL": TOL, "TOL_DEC": TOL_DEC, "TOL_INV": TOL_INV, "TOL_SQRT": TOL_SQRT, "TOL_SDP": TOL_SDP, "WIDTH_OK": WIDTH_OK}
    ctx.extra["partial_clauses"] = [
        "S(k) operator norm: two-sided certified bracket for positive semidefinite operators (lower bound of toqito <= verified upper bound UB of the PPT (k = 1; with the two-copy "
        "level where the PPT level is not tight and dA*dB*dB <= 36) / reduction-map (any k) relaxation, upper bound of toqito >= value LB of a verified vector of Schmidt rank <= k); where the relaxation is not tight (UB - LB > 1e-3, "
        "counted as sk_cert/uncertified-wide) the lower side is certified only up to the relaxation gap; indefinite Hermitian operators: attained values only (one-sided)",
        "trace norm of the partial transpose: proved as the trace of the positive square root (C14.negativity_planted, C14.traceNorm_pT_pure); the identification with numpy's nuclear norm (sum of singular values) is the standard fact ||X||_1 = tr sqrt(X^H X)",
    ]


def replay(ctx, rec):
    case = rec.get("case")
    if not case:
        ctx.note("replay file has no case")
        return
    if case.get("entangle") is not None:
        case["entangle"] = tuple(case["entangle"])
    run_case(ctx, case)
