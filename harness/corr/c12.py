"""C12: ppt_distinguishability / symmetric_extension_hierarchy against certified intervals.

Per instance the exact dyadic images of the float inputs handed to toqito define the ensemble; an exact PPT
measurement (lower bound) and an exact dual point (Y, Q_i) (upper bound) are built by untrusted means (independent
cvxpy/CLARABEL solve, rounding, exact repair) and accepted only by the verified Lean checkers `c12_ppt_primal` /
`c12_ppt_dual` (theorems checkPPTPrimal_sound / checkPPTDual_sound / ppt_lo_le_hi in lean/Toq/Properties/C12.lean).
toqito's values (primal and dual form, either party transposed) must lie in [lo - tau, hi + tau]; the order relations of the
property (<= global value, >= explicit product measurement, Bell states = 1/2, local-unitary and party invariance, hierarchy level 1 =
PPT, level 2 <= level 1, >= product measurement, no mutation of the caller's list) are checked on the same instances.

Stream `symext_embedding` (scheme B, feasibility-embedding check; Lean: `separable_meas_feasible`, `symExt2_product`, `symExt2_sum`): the cvxpy
problem built by `symmetric_extension_hierarchy(states, probs, level, dim)` (levels 1..3) is recorded in-process; exact rational separable
measurements (local projective measurements in rational bases, one-way LOCC measurements with rank-one POVMs of the second party that depend on
the first party's outcome, convex mixtures) are written into the captured variables together with the extension
sum A (x) (w w^H)^(x)level (copies of Y last); every captured constraint and declared variable attribute must hold to 1e-10 and the captured
objective must equal sum_i p_i tr(rho_i M_i) computed exactly.  On the same captured problems the constraint expressions are compared, at random
Hermitian Gaussian-integer points, with the Lean mirror model `symExtExprs` (op c12_symext_exprs; evidence only).

Stream `ppt_embedding`: the picos programs `ppt_distinguishability` builds (primal / dual, either party, and strategy="unambig") are captured at
Problem.solve; exact points certified by the verified checkers (op c12_ppt_program) must satisfy every captured constraint, the captured objective must
equal the model's, negative controls must be rejected by both.  Stream `args`: which program is built for (primal_dual, strategy) and how the `dim`
argument of the hierarchy is read (ops c12_dispatch, c12_symext_args)."""
from __future__ import annotations

import copy
import warnings
from fractions import Fraction

import numpy as np

from ..cert import DM, chol_factor, frac_json, repair_povm
from ..common import CorrespondenceBroken, InfraError
from ..exact import Pure, call_rng, describe, present_list, strict_fp_call, vary_ensemble
from ..pool import Result, run_pool, worker_driver, fold
from .. import qgen

RULE = ("bipartite ensembles (2..4 states on 2x2 and 2x3 [thorough: also 3x2], real/complex integer amplitudes normalised in floating point, given as 1-D / column "
        "vectors, pure or mixed density matrices, dyadic priors; kinds: random, orthogonal entangled basis, product-vs-entangled, Bell corpus) x primal/dual form x "
        "transposed party; per instance the Lean checker certifies the PPT optimum [lo, hi] for the exact image of the inputs; non-trivial = certified interval narrower "
        "than 1e-4 and max prior + 1e-2 <= value <= 1 - 1e-2 ; distinct = hash of the instance and call form; hierarchy cases: level 1 and 2 (level 2 on 2x3 only in the thorough tier); "
        "dim argument of the hierarchy in every documented form: list [dA, dB], scalar dA (also for dA != dB: dim=2 on 2x3, dim=3 on 3x2) and omitted (square); the "
        "scalar / omitted form must give the level-1 value of the list form and lie in the certified interval of the [dA, dB] cut; "
        "symext_embedding: ensembles of 2..3 states on 2x2, 2x3, 3x2 (thorough 3x3) x levels 1, 2 (3 on 2x2; thorough also 2x3) x exact rational separable measurements of the "
        "kinds projective / locc / mixture (4..~20 product outcomes, complex), outcomes attributed by posterior weight or at random; non-trivial = at least two states "
        "receive an outcome and the ensemble is complex or the dimensions are unequal; "
        "ppt_embedding: on every instance of the first stream the five programs (min_error primal/dual x party 0/1, unambig primal) are captured; points = an interior point, the "
        "certified near-optimal point (primal: repaired reference POVM, dual: repaired reference (Y, Q), Q transposed for the other party), for unambig the always-inconclusive point and - for "
        "two pure states given as vectors - an exact product-vector measurement; negative controls M[0]+1/8, the projector onto (e00+e11)/sqrt2 with its complement, Q[0]=-1/8, Y_opt-1/32, the uniform guess; "
        "args: the four (primal_dual, strategy) combinations and eleven (length, level, dim) combinations incl. two that must be rejected; "
        "presentation: every call of ppt_distinguishability / state_distinguishability / symmetric_extension_hierarchy receives the same values in a freshly drawn "
        "presentation per list element (C / Fortran / strided memory layout; real-valued states as float64, integer-valued ones as int64); one in three complex "
        "ensembles of the kinds random / prod_ent has some states made real-valued (real-dtype first element followed by complex ones, or the reverse; also "
        "computational basis vectors); one in eight ensembles with k >= 3 has a prior with an exact zero; uniform priors explicitly or as None; the caller's list, "
        "arrays and priors must be untouched by every call and a repeated call on the same objects (one in four PPT calls, one in three level-1 hierarchy calls on "
        "2x2) must return the same value; "
        "same-object stream: ppt_distinguishability (dual form, both parties) and symmetric_extension_hierarchy (level 1, 2x2, kets: one corpus and one seeded ensemble) on a list that holds ONE array object "
        "in two slots against the same list with an equal copy in the second slot (corpus: Bell states, then seeded 2x2 ensembles from ctx.rng.spawn): same value within 1e-7 (cvxopt) / 1e-6 (scs), same exception class; "
        "strict-fp stream (non-solver helper only): toqito.channels.partial_transpose on pure / mixed / zero / integer matrices evaluated in the default state and under harness.exact.strict_fp_call: equal arrays")
ASSUMPTIONS = [
    "toqito computes with the float inputs it is given; the instance certified is their exact dyadic image (difference <= 1e-15 relative)",
    "tolerance 2e-5 on CVXOPT-solved values (ppt_distinguishability), 1e-3 on the SCS-solved hierarchy values (cvxpy default solver), as declared in DESIGN.md 4.4",
    "picos.partial_transpose / toqito.channels.partial_transpose are compared with the Lean model's partial transpose on labelled matrices on every run (op c12_ptranspose)",
    "hierarchy clauses (level 1 = PPT, monotone in the level, >= separable measurement) are checked numerically on toqito's outputs; the Lean side proves the PPT part and that "
    "separable measurements are feasible at levels 1 and 2 (separable_meas_feasible); the stream symext_embedding evaluates the constraint objects toqito builds at such points",
    "symext_embedding: cvxpy evaluates the captured constraint/objective expressions faithfully (Constraint.violation(), Expression.value, Variable.project); PSD constraints are "
    "evaluated by the harness as 'Hermitian and smallest eigenvalue >= -1e-10'; declared variable attributes (hermitian=True) count as constraints; the float image of the rational "
    "point differs from it by <= 1e-16 per entry, hence the tolerance 1e-10 (observed residuals <= 1e-15); the embedded point is checked exactly (Fractions) against the linear "
    "constraints of the hierarchy before it is used; mutations that keep every separable measurement feasible (dropped constraint, partial transpose / partial trace on another copy "
    "of Y, which is equivalent under the symmetry constraint) are invisible to this stream by design",
    "ppt_embedding: picos evaluates the captured constraint / objective expressions faithfully at assigned variable values (Constraint.psd / lhs / rhs, Expression.np / .value); a point is 'feasible' "
    "only when the verified Lean checker accepts it with the supplied witnesses; a negative control is used only when the model's own expressions are infeasible by >= 1e-2 (or, for Y_opt - 1/32, when its "
    "trace is below a certified lower bound of the optimum); strategy='unambig' is checked through its captured program only (CVXOPT does not solve that program; its value is bounded by theorem "
    "ppt_unamb_le_min_error)",
    "symext expression identity (evidence only, never an alarm): cvxpy evaluates Expression.value faithfully; the Lean mirror model symExtExprs composes the C02 / C03 / C18 mirror models as the code composes "
    "the library calls; its identification with the index-tuple specification SymExtAt is not proved (each library call is proved equal to its own specification in C02 / C03 / C18)",
    "on 2x2 and 2x3 systems positive-partial-transpose operators are separable (Horodecki 1996; cited, not proved), so level 2 of the hierarchy must also be >= the certified PPT optimum",
]
TAU = 2e-5
TAU_SCS = 1e-3
WIDTH_OK = 1e-4


# ------------------------------------------------------------------------------------------------
# numerics helpers (untrusted)


def pt_np(X, dA, dB, sys):
    """partial transpose of a (dA dB) x (dA dB) array on party sys (0 = first, 1 = second); independent of toqito"""
    T = np.asarray(X).reshape(dA, dB, dA, dB)
    T = T.transpose(2, 1, 0, 3) if sys == 0 else T.transpose(0, 3, 2, 1)
    return T.reshape(dA * dB, dA * dB)


def pt_dm(X: DM, dA, dB, sys) -> DM:
    return DM(pt_np(X.re, dA, dB, sys), pt_np(X.im, dA, dB, sys), X.e)


def pt_cvx(X, dA, dB, sys):
    """partial transpose of a cvxpy expression as an explicit operator sum (no library partial transpose involved)"""
    D = dA * dB
    out = 0
    if sys == 1:
        for b in range(dB):
            for c in range(dB):
                E = np.zeros((dB, dB))
                E[b, c] = 1
                K = np.kron(np.eye(dA), E)
                out = out + K @ X @ K
    else:
        for a in range(dA):
            for c in range(dA):
                E = np.zeros((dA, dA))
                E[a, c] = 1
                K = np.kron(E, np.eye(dB))
                out = out + K @ X @ K
    return out


def _solve(prob):
    import cvxpy as cp
    last = None
    for kw in (dict(solver=cp.CLARABEL), dict(solver=cp.CVXOPT, abstol=1e-9, reltol=1e-9, feastol=1e-9), dict(solver=cp.SCS, eps=1e-9, max_iters=50000)):
        try:
            prob.solve(**kw)
            if prob.status in ("optimal", "optimal_inaccurate") and all(v.value is not None for v in prob.variables()):
                return
        except Exception as e:
            last = e
    raise RuntimeError(f"reference solve failed: {last}")


def solve_ref(rhos_f, probs, dA, dB, sys):
    """independent solve of the PPT primal and dual: returns (Ms, Y, Qs) as float arrays"""
    import cvxpy as cp
    D = dA * dB
    k = len(rhos_f)
    Ms = [cp.Variable((D, D), hermitian=True) for _ in range(k)]
    cons = [M >> 0 for M in Ms] + [sum(Ms) == np.eye(D)] + [pt_cvx(M, dA, dB, sys) >> 0 for M in Ms]
    pr = cp.Problem(cp.Maximize(cp.real(sum(probs[i] * cp.trace(rhos_f[i] @ Ms[i]) for i in range(k)))), cons)
    _solve(pr)
    Mv = [np.array(M.value) for M in Ms]
    Y = cp.Variable((D, D), hermitian=True)
    Qs = [cp.Variable((D, D), hermitian=True) for _ in range(k)]
    cons = [Q >> 0 for Q in Qs] + [Y - probs[i] * rhos_f[i] - pt_cvx(Qs[i], dA, dB, sys) >> 0 for i in range(k)]
    pd = cp.Problem(cp.Minimize(cp.real(cp.trace(Y))), cons)
    _solve(pd)
    return Mv, np.array(Y.value), [np.array(Q.value) for Q in Qs]


def _pj(probs):
    return [frac_json(DM.exact_float(np.array([[p]])).frac(0, 0)[0]) for p in probs]


def certify_primal(drv, rhos, probs, Ms_f, dA, dB, sys, eps_bits=20, out=None):
    """repair (shrink towards I/k, which is PPT with margin; slack into the first element) and ask the Lean checker.
    returns (lo or None, why); `out` (a dict) receives the accepted exact point and its witnesses"""
    why = ""
    for eb in (eps_bits, eps_bits - 3, eps_bits - 6):
        P = repair_povm(Ms_f, eps_bits=eb)
        LM = [chol_factor(M.to_float()) for M in P]
        LT = [chol_factor(pt_dm(M, dA, dB, sys).to_float()) for M in P]
        if any(L is None for L in LM):
            why = "primal:cholesky_M"
            continue
        if any(L is None for L in LT):
            why = "primal:cholesky_pT_M"
            continue
        r = drv.ask("c12_ppt_primal", {"dA": dA, "dB": dB, "sys": sys, "rho": [r_.json() for r_ in rhos], "p": _pj(probs),
                                       "M": [M.json() for M in P], "LM": [L.json() for L in LM], "LT": [L.json() for L in LT]})
        if "ok" in r:
            if out is not None:
                out.update(M=P, LM=LM, LT=LT, sys=sys)
            return r["ok"][0] / r["ok"][1], ""
        why = "primal:" + r["reject"]
    return None, why


def certify_dual(drv, rhos, probs, Y_f, Qs_f, dA, dB, sys, out=None):
    """Q_i + 2^-qb I, Y + 2^-yb I, recompute the slack exactly (tight margins first, looser ones if the witnesses fail);
    returns (hi or None, why); `out` (a dict) receives the accepted exact point and its witnesses"""
    D = dA * dB
    k = len(rhos)
    I = DM.eye(D)
    why = ""
    for (qb, yb) in ((24, 22), (21, 19), (18, 16)):
        Y = DM.from_float((Y_f + Y_f.conj().T) / 2, 40).herm_part() + I.scale_dy(1, yb)
        Qs = [DM.from_float((Q + Q.conj().T) / 2, 40).herm_part() + I.scale_dy(1, qb) for Q in Qs_f]
        LQ = [chol_factor(Q.to_float()) for Q in Qs]
        if any(L is None for L in LQ):
            why = "dual:cholesky_Q"
            continue
        LS = []
        for i in range(k):
            pi = DM.exact_float(np.array([[probs[i]]]))
            S = Y - rhos[i].scale_dy(int(pi.re[0, 0]), pi.e) - pt_dm(Qs[i], dA, dB, sys)
            LS.append(chol_factor(S.to_float()))
        if any(L is None for L in LS):
            why = "dual:cholesky_slack"
            continue
        r = drv.ask("c12_ppt_dual", {"dA": dA, "dB": dB, "sys": sys, "rho": [r_.json() for r_ in rhos], "p": _pj(probs), "Y": Y.json(),
                                     "Q": [Q.json() for Q in Qs], "LQ": [L.json() for L in LQ], "LS": [L.json() for L in LS]})
        if "ok" in r:
            if out is not None:
                out.update(Y=Y, Q=Qs, LQ=LQ, LS=LS, sys=sys)
            return r["ok"][0] / r["ok"][1], ""
        why = "dual:" + r["reject"]
    return None, why


def certify_global_hi(drv, rhos, probs, rhos_f):
    """upper bound of the unrestricted min-error optimum through C10's verified checker (minerr_dual)"""
    import cvxpy as cp
    D = rhos_f[0].shape[0]
    k = len(rhos)
    Y = cp.Variable((D, D), hermitian=True)
    pd = cp.Problem(cp.Minimize(cp.real(cp.trace(Y))), [Y - probs[i] * rhos_f[i] >> 0 for i in range(k)])
    _solve(pd)
    Yd = DM.from_float((Y.value + Y.value.conj().T) / 2, 40).herm_part() + DM.eye(D).scale_dy(1, 24)
    Ls = []
    for i in range(k):
        pi = DM.exact_float(np.array([[probs[i]]]))
        Ls.append(chol_factor((Yd - rhos[i].scale_dy(int(pi.re[0, 0]), pi.e)).to_float()))
    if any(L is None for L in Ls):
        return None
    r = drv.ask("minerr_dual", {"d": D, "rho": [r_.json() for r_ in rhos], "p": _pj(probs), "Y": Yd.json(), "LY": [L.json() for L in Ls]})
    return r["ok"][0] / r["ok"][1] if "ok" in r else None


def product_measurement(rhos_f, probs, U, V):
    """explicit product measurement: local projective measurements in the bases U, V; outcome (a, b) is attributed to the
    state with the largest posterior weight.  Returns the k aggregated elements (float; each a sum of products of PSD factors)."""
    dA, dB = U.shape[0], V.shape[0]
    k = len(rhos_f)
    Ms = [np.zeros((dA * dB, dA * dB), dtype=complex) for _ in range(k)]
    for a in range(dA):
        Pa = np.outer(U[:, a], U[:, a].conj())
        for b in range(dB):
            Pb = np.outer(V[:, b], V[:, b].conj())
            E = np.kron(Pa, Pb)
            w = [probs[i] * np.real(np.trace(rhos_f[i] @ E)) for i in range(k)]
            Ms[int(np.argmax(w))] += E
    return Ms


# ------------------------------------------------------------------------------------------------
# instances (generated in the parent from the seeded generator)

BELL = [np.array([1, 0, 0, 1]) / np.sqrt(2), np.array([1, 0, 0, -1]) / np.sqrt(2), np.array([0, 1, 1, 0]) / np.sqrt(2), np.array([0, 1, -1, 0]) / np.sqrt(2)]


def _shape_states(vecs, form, rng, D, cplx):
    if form == "dm_mixed":
        states = [qgen.rand_density(rng, D, int(rng.integers(1, 3)), cplx) for _ in vecs]
    elif form == "dm":
        states = [np.outer(v, v.conj()) for v in vecs]
    elif form == "col":
        states = [v.reshape(-1, 1) for v in vecs]
    else:
        states = [v for v in vecs]
    if not cplx:
        states = [np.real(s) for s in states]
    return states


def gen_instance(rng, quick, forms=("vec1d", "col", "dm", "dm_mixed"), dims_pool=None):
    dims_pool = dims_pool or ([(2, 2), (2, 2), (2, 2), (2, 3)] if quick else [(2, 2), (2, 2), (2, 3), (2, 3), (3, 2)])
    dA, dB = dims_pool[int(rng.integers(len(dims_pool)))]
    D = dA * dB
    k = int(rng.choice([2, 3, 4, 4]))
    cplx = bool(rng.integers(2))
    form = str(rng.choice(list(forms)))
    kind = str(rng.choice(["random", "random", "random", "orthogonal", "prod_ent"]))
    if kind == "orthogonal" and form != "dm_mixed":
        W = qgen.cayley_unitary(rng, D, cplx)  # a generic (entangled) orthonormal basis of the bipartite space
        vecs = [W[:, i] for i in range(k)]
    elif kind == "prod_ent" and form != "dm_mixed":
        vecs = []
        for i in range(k):
            if i % 2 == 0:
                vecs.append(qgen.unit(np.kron(qgen.int_vector(rng, dA, cplx), qgen.int_vector(rng, dB, cplx))))
            else:
                vecs.append(qgen.unit(qgen.int_vector(rng, D, cplx)))
    else:
        kind = "random"
        vecs = [qgen.unit(qgen.int_vector(rng, D, cplx)) for _ in range(k)]
    if k >= 3 and form != "dm_mixed" and rng.integers(6) == 0:
        # the same state listed twice (two labels for one preparation): naming either label is right only for that label
        i, j = (int(x) for x in rng.choice(k, size=2, replace=False))
        vecs[j] = vecs[i].copy()
        kind = kind + "+repeat"
    probs = qgen.dyadic_probs(rng, k)
    states = _shape_states(vecs, form, rng, D, cplx)
    return {"dA": dA, "dB": dB, "k": k, "cplx": cplx, "form": form, "kind": kind, "states": states, "probs": probs,
            "probs_given": bool(rng.integers(4) > 0) or len(set(probs)) > 1,
            "U": qgen.cayley_unitary(rng, dA, cplx), "V": qgen.cayley_unitary(rng, dB, cplx)}


def bell_instance(form, rng):
    states = _shape_states([b.astype(complex) for b in BELL], form, rng, 4, False)
    return {"dA": 2, "dB": 2, "k": 4, "cplx": False, "form": form, "kind": "bell", "states": states, "probs": [0.25] * 4, "probs_given": True,
            "U": np.eye(2, dtype=complex), "V": np.eye(2, dtype=complex)}


def _dms_exact(states):
    out = []
    for s in states:
        a = np.asarray(s)
        if a.ndim == 1 or 1 in a.shape:
            v = DM.exact_float(a.reshape(-1, 1))
            out.append(v @ v.H())
        else:
            out.append(DM.exact_float(a).herm_part())
    return out


def _dim_arg(inst):
    """(dim argument, form) for symmetric_extension_hierarchy: every documented form - the list [dA, dB], the scalar dA (the code expands it to
    [dA, dim_xy / dA], also for dA != dB) and omitted (square systems only)"""
    dA, dB = inst["dA"], inst["dB"]
    form = inst.get("dim_form") or ("none" if (dA == dB and inst.get("dim_default", False)) else "list")
    if form == "none" and dA != dB:
        form = "list"
    return {"none": None, "scalar": int(dA), "list": [dA, dB]}[form], form


def _set_dim_form(prs, inst):
    """in place: the form of the dim argument, drawn from the presentation stream (an instance already marked dim_default on a square system keeps 'omitted')"""
    if inst["dA"] == inst["dB"] and inst.get("dim_default", False):
        inst["dim_form"] = "none"
    else:
        inst["dim_form"] = ["list", "scalar"][int(prs.integers(2))]
    return inst


def _base(inst):
    b = {kk: inst[kk] for kk in ("dA", "dB", "k", "cplx", "form", "kind", "probs")}
    b["states"] = [np.asarray(s) for s in inst["states"]]
    b["pres"], b["real_idx"] = inst.get("pres"), list(inst.get("real_idx", ()))
    return b


def certified_interval(drv, inst, res, sys_primal=1, sys_dual=0, ref=None):
    """(lo, hi, rhos, rhos_f): the primal certificate transposes `sys_primal`, the dual one `sys_dual` (ppt_lo_le_hi allows that);
    `ref` (a dict) receives the reference solver's float optimisers (Ms, Y, Qs for party sys_dual)"""
    dA, dB, probs = inst["dA"], inst["dB"], inst["probs"]
    rhos = _dms_exact(inst["states"])
    rhos_f = [r.to_float() for r in rhos]
    try:
        Ms, Y, Qs = solve_ref(rhos_f, probs, dA, dB, sys_dual)
    except Exception:
        res.count("uncertified/ref-solve-failed")
        return None, None, rhos, rhos_f
    if ref is not None:
        ref.update(Ms=Ms, Y=Y, Qs=Qs, sys_dual=sys_dual)
    # the same measurement is PPT for either party; the dual variables Q_i belong to party sys_dual
    lo, w1 = certify_primal(drv, rhos, probs, Ms, dA, dB, sys_primal)
    hi, w2 = certify_dual(drv, rhos, probs, Y, Qs, dA, dB, sys_dual)
    if lo is None or hi is None or hi - lo > WIDTH_OK:
        res.count(("uncertified/" + (w1 or w2 or "wide"))[:70])
    return lo, hi, rhos, rhos_f


# ------------------------------------------------------------------------------------------------
# stream ppt_embedding — the picos programs that ppt_distinguishability BUILDS (captured at Problem.solve, never solved) against the
# programs the theorems are about (Lean op `c12_ppt_program`: Toq.PPTDisc.primalPsdExprs / primalEqResidual / dualPsdExprs / unambOverlap and
# the verified checkers; theorems primal_program_feasible_iff, dual_program_feasible_iff, checkPPTPrimal_sound, checkPPTDual_sound,
# checkPPTUnambPrimal_sound).  Exact points are written into the captured variables:
#   * a point the verified checker accepts must satisfy every captured constraint (1e-9) - also on the instances where CVXOPT cannot solve the
#     primal form, and for strategy="unambig", which CVXOPT practically never solves;
#   * the captured objective must equal the model's exact objective at every point;
#   * negative controls (infeasible by construction, rejected by the checker) must violate a captured constraint by >= 1e-3.

PEMB_TOL = 1e-12   # captured expression vs model expression, entrywise (float images of the same exact affine expression)
PEMB_FEAS = 1e-9
PEMB_BAD = 1e-3


class _PCaptured(BaseException):
    """raised by the patched picos.Problem.solve"""


def _capture_picos(fn):
    import picos
    got = []
    orig = picos.Problem.solve

    def fake(self, *a, **kw):
        got.append((self, dict(kw)))
        raise _PCaptured()

    picos.Problem.solve = fake
    try:
        try:
            fn()
        except _PCaptured:
            pass
    finally:
        picos.Problem.solve = orig
    return got


def _qmat12(j, shape):
    re = np.array([float(Fraction(n, d_)) for n, d_ in j["re"]]).reshape(shape)
    im = np.array([float(Fraction(n, d_)) for n, d_ in j["im"]]).reshape(shape)
    return re + 1j * im


def _pval(e):
    return np.atleast_2d(np.array(e.np, dtype=complex))


def _picos_layout(P, form, D, k):
    """[(kind, constraint)] of the captured problem, and whether the layout is the modelled one.  CorrespondenceBroken when the VARIABLES are
    not those of the modelled program (no point of the model can be written into it)."""
    n_meas = k + 1 if form == "unamb" else k
    want = sorted([f"M[{i}]" for i in range(n_meas)]) if form != "dual" else sorted([f"Q[{i}]" for i in range(k)] + ["Y"])
    names = sorted(P.variables.keys())
    if names != want:
        raise CorrespondenceBroken(f"ppt_distinguishability/{form}: the captured picos problem has variables {names}, the modelled program has {want}")
    for n_, v in P.variables.items():
        if tuple(v.shape) != (D, D):
            raise CorrespondenceBroken(f"ppt_distinguishability/{form}: variable {n_} has shape {tuple(v.shape)}, the modelled program has {(D, D)}")
    cons = []
    for c in P.constraints.values():
        if hasattr(c, "psd"):
            cons.append(("psd", c))
        elif hasattr(c, "lhs") and hasattr(c, "rhs") and "Affine" in type(c).__name__ and "=" in str(c) and "≤" not in str(c) and "≥" not in str(c):
            cons.append(("eq", c))
        else:
            cons.append(("other", c))
    kinds = [kd for kd, _ in cons]
    want_kinds = {"primal": ["psd"] * k + ["eq"] + ["psd"] * k, "dual": ["psd"] * (2 * k),
                  "unamb": ["psd"] * (k + 1) + ["eq"] + ["psd"] * (k + 1) + ["eq"] * (k * (k - 1))}[form]
    return cons, kinds == want_kinds


def _picos_residuals(cons):
    out = []
    for kd, c in cons:
        if kd == "psd":
            out.append((kd, _pval(c.psd)))
        elif kd == "eq":
            out.append((kd, _pval(c.lhs) - _pval(c.rhs)))
        else:
            out.append((kd, np.atleast_2d(np.array(c.slack, dtype=float))))
    return out


def _picos_violation(capt):
    vio = 0.0
    for kc, a in capt:
        if not a.size:
            continue
        if kc == "psd":
            vio = max(vio, -float(np.min(np.linalg.eigvalsh((a + a.conj().T) / 2))), float(np.max(np.abs(a - a.conj().T))))
        elif kc == "eq":
            vio = max(vio, float(np.max(np.abs(a))))
        else:
            vio = max(vio, -float(np.min(np.real(a))))
    return vio


def _pad_cols(v: DM, D):
    """column vector -> D x D witness with the vector as its first column"""
    re = np.zeros((D, D), dtype=object)
    im = np.zeros((D, D), dtype=object)
    re[:, 0] = v.re[:, 0]
    im[:, 0] = v.im[:, 0]
    return DM(re, im, v.e)


def _zero_dm(D):
    return DM.eye(D) - DM.eye(D)


def _unamb_points(inst, rhos, probs, dA, dB, sys):
    """exact feasible points of the unambiguous PPT program: (label, M list (k+1), LM, LT).
    'trivial': M_i = 0, M_k = 1 (always inconclusive).
    'product' (two pure states given as vectors): M_i = phi_i phi_i^H / 16 with the product vector phi_i = e_a (x) b_i orthogonal to the other
    state (b_i = (conj c_1, -conj c_0, 0..) for c = (<e_a| (x) 1) psi_other), M_2 = 1 - M_0 - M_1; all of them PPT with margin."""
    D, k = dA * dB, inst["k"]
    Z, I = _zero_dm(D), DM.eye(D)
    pts = [("trivial", [Z] * k + [I], [Z] * k + [I], [Z] * k + [I])]
    vec_in = all(np.asarray(s).ndim == 1 or 1 in np.asarray(s).shape for s in inst["states"])
    if k == 2 and vec_in:
        vs = [DM.exact_float(np.asarray(s).reshape(-1, 1)) for s in inst["states"]]
        Ms, LMs, LTs = [], [], []
        for i in range(2):
            o = vs[1 - i]
            a = 0
            c = [(o.re[a * dB + b, 0], o.im[a * dB + b, 0]) for b in range(dB)]
            if all(x == 0 and y == 0 for x, y in c):
                bre, bim = [1] + [0] * (dB - 1), [0] * dB
            else:
                # b = (conj c_1, -conj c_0, 0, ...):  sum_b conj(c_b) b_b = 0
                bre, bim = [c[1][0], -c[0][0]] + [0] * (dB - 2), [-c[1][1], c[0][1]] + [0] * (dB - 2)
            phi_re = np.zeros((D, 1), dtype=object)
            phi_im = np.zeros((D, 1), dtype=object)
            for b in range(dB):
                phi_re[a * dB + b, 0], phi_im[a * dB + b, 0] = bre[b], bim[b]
            phi = DM(phi_re, phi_im, o.e + 2)          # phi / 4
            phic = DM(phi_re, -phi_im, o.e + 2)        # e_a (x) conj(b) / 4 : the partial transpose of phi phi^H on either party (e_a is real)
            Ms.append(phi @ phi.H())
            LMs.append(_pad_cols(phi, D))
            LTs.append(_pad_cols(phic if sys == 1 else phi, D))
        # transposing the first party of (e_a e_a^T) (x) (b b^H) leaves it unchanged; transposing the second gives e_a e_a^T (x) conj(b b^H)
        Mk = I - Ms[0] - Ms[1]
        Lk = chol_factor(Mk.to_float())
        Ltk = chol_factor(pt_dm(Mk, dA, dB, sys).to_float())
        if Lk is not None and Ltk is not None:
            pts.append(("product", Ms + [Mk], LMs + [Lk], LTs + [Ltk]))
    return pts


def ppt_embedding(drv, inst, res, rhos, rhos_f, ref, lo):
    from toqito.state_opt import ppt_distinguishability
    dA, dB, k, probs, states = inst["dA"], inst["dB"], inst["k"], inst["probs"], inst["states"]
    D = dA * dB
    base = _base(inst)
    I = DM.eye(D)
    thm = "primal_program_feasible_iff / dual_program_feasible_iff / checkPPTPrimal_sound / checkPPTDual_sound / checkPPTUnambPrimal_sound (the programs they speak about)"
    sp = int(inst.get("sys_primal", 1))
    common = {"dA": dA, "dB": dB, "rho": [r_.json() for r_ in rhos], "p": _pj(probs)}
    forms = [("primal", "min_error", "primal", 0), ("primal", "min_error", "primal", 1), ("dual", "min_error", "dual", 0), ("dual", "min_error", "dual", 1),
             ("unamb", "unambig", "primal", sp)]
    for form, strategy, pd, sys in forms:
        desc0 = dict(base, fn="ppt_embedding", form=form, subsystems=[sys], probs_given=inst["probs_given"])
        prng = call_rng(inst.get("pres"), "pemb", form, sys)
        arg_states = present_list(prng, states, force_real=inst.get("real_idx", ()))
        try:
            got = _capture_picos(lambda: ppt_distinguishability(vectors=arg_states, subsystems=[sys], dimensions=[dA, dB],
                                                                probs=(list(probs) if inst["probs_given"] else None), strategy=strategy, solver="cvxopt", primal_dual=pd))
        except Exception as e:  # noqa: BLE001
            res.case(desc0, True, f"ppt-embedding/{form}/raise")
            res.violation(f"ppt_distinguishability({strategy}, {pd}, subsystems=[{sys}]) raises {type(e).__name__}: {str(e)[:120]} while building its program for a valid ensemble",
                          {"function": "ppt_distinguishability", "args": desc0, "exception": f"{type(e).__name__}: {str(e)[:300]}", "theorem": thm})
            continue
        if len(got) != 1:
            raise CorrespondenceBroken(f"ppt_distinguishability({strategy},{pd}): expected one picos problem handed to solve(), captured {len(got)}")
        P, kw = got[0]
        res.count("ppt-embedding/problems-captured")
        cons, same_layout = _picos_layout(P, form, D, k)
        res.count("ppt-embedding/constraints-captured", len(cons))
        if not same_layout:
            res.count("ppt-embedding/other-constraint-layout")
        direction = "min" if form == "dual" else "max"
        if P.objective.direction != direction:
            res.violation(f"ppt_distinguishability({strategy},{pd}) hands a '{P.objective.direction}' problem to the solver, the modelled program is a '{direction}' problem",
                          {"function": "ppt_distinguishability", "args": desc0, "impl": P.objective.direction, "model": direction, "check": "embedding-direction", "theorem": "ppt_weak_duality"})
            continue
        # ---- points: (label, point dict) and negative controls (label, point dict, infeasible-by-construction?)
        points, controls = [], []
        if form == "primal":
            P0 = repair_povm([np.eye(D) / k] * k, eps_bits=24)
            points.append(("interior", {"M": P0, "LM": [chol_factor(M.to_float()) for M in P0], "LT": [chol_factor(pt_dm(M, dA, dB, sys).to_float()) for M in P0]}))
            if ref.get("Ms") is not None:
                out = {}
                certify_primal(drv, rhos, probs, ref["Ms"], dA, dB, sys, out=out)
                if out:
                    points.append(("near-optimal", {"M": out["M"], "LM": out["LM"], "LT": out["LT"]}))
            controls.append(("M[0]+1/8", {"M": [P0[0] + I.scale_dy(1, 3)] + P0[1:]}))
            # a measurement that is not PPT: the projector onto (e_00 + e_11)/sqrt 2 and its complement (partial transpose has the eigenvalue -1/2)
            Bre = np.zeros((D, D), dtype=object)
            for (a_, b_) in ((0, 0), (0, dB + 1), (dB + 1, 0), (dB + 1, dB + 1)):
                Bre[a_, b_] = 1
            Bell = DM(Bre, np.zeros((D, D), dtype=object), 1)
            controls.append(("entangled-projector", {"M": [Bell, I - Bell] + [_zero_dm(D)] * (k - 2)}))
        elif form == "dual":
            Y0 = I
            Q0 = [_zero_dm(D)] * k
            LS0 = []
            for i in range(k):
                pi = DM.exact_float(np.array([[probs[i]]]))
                LS0.append(chol_factor((Y0 - rhos[i].scale_dy(int(pi.re[0, 0]), pi.e)).to_float(), delta=2.0 ** -40))
            points.append(("interior", {"Y": Y0, "Q": Q0, "LQ": Q0, "LS": LS0}))
            controls.append(("Q[0]=-1/8", {"Y": Y0, "Q": [_zero_dm(D) - I.scale_dy(1, 3)] + Q0[1:]}))
            if ref.get("Y") is not None:
                Qs_f = ref["Qs"] if ref["sys_dual"] == sys else [np.asarray(Q).T for Q in ref["Qs"]]   # T_A(Q^T) = T_B(Q)
                out = {}
                certify_dual(drv, rhos, probs, ref["Y"], Qs_f, dA, dB, sys, out=out)
                if out:
                    points.append(("near-optimal", {"Y": out["Y"], "Q": out["Q"], "LQ": out["LQ"], "LS": out["LS"]}))
                    if lo is not None and float(out["Y"].trace_re()) - D / 32 < lo - 1e-2:
                        # tr(Y - 1/32) is below a certified lower bound of the optimum: infeasible by weak duality (ppt_lo_le_hi)
                        controls.append(("Y-optimal-minus-1/32", {"Y": out["Y"] - I.scale_dy(1, 5), "Q": out["Q"]}))
        else:
            for label, Ms_, LM_, LT_ in _unamb_points(inst, rhos, probs, dA, dB, sys):
                points.append((label, {"M": Ms_, "LM": LM_, "LT": LT_}))
            Pt = points[0][1]["M"]
            controls.append(("M[0]+1/8", {"M": [Pt[0] + I.scale_dy(1, 3)] + Pt[1:]}))
            # the uniform measurement answers wrongly with positive probability unless the states are orthogonal
            P0 = repair_povm([np.eye(D) / k] * k, eps_bits=24)
            ov = min(float(np.real(np.trace(rhos_f[j] @ P0[i].to_float()))) * probs[j] for i in range(k) for j in range(k) if i != j)
            if ov >= 1e-2:
                controls.append(("uniform-guess", {"M": P0 + [_zero_dm(D)]}))
        for pname, pt in points:
            if any(v is None for kk in pt for v in (pt[kk] if isinstance(pt[kk], list) else [pt[kk]])):
                res.count(f"ppt-embedding/{form}/{pname}-witness-failed")
                continue
            desc = dict(desc0, point=pname)
            m = drv.ask("c12_ppt_program", dict(common, sys=sys, form=form, **{kk: ([x.json() for x in v] if isinstance(v, list) else v.json()) for kk, v in pt.items()}))
            if "reject" in m:
                raise RuntimeError(f"c12_ppt_program rejected the request: {m}")
            feasible = "ok" in m["check"]
            if not feasible:
                res.count(f"ppt-embedding/{form}/{pname}-point-not-certified")
            ptj = {kk: ([x.json() for x in v] if isinstance(v, list) else v.json()) for kk, v in pt.items() if not kk.startswith("L")}
            try:
                if form == "dual":
                    P.variables["Y"].value = pt["Y"].to_float()
                    for i in range(k):
                        P.variables[f"Q[{i}]"].value = pt["Q"][i].to_float()
                else:
                    for i in range(len(pt["M"])):
                        P.variables[f"M[{i}]"].value = pt["M"][i].to_float()
            except Exception as e:  # noqa: BLE001
                res.case(desc, True, f"ppt-embedding/{form}/variable-refuses-point")
                res.violation(f"ppt_distinguishability({strategy},{pd}): a point of the modelled program cannot be written into the variables of the program the code builds ({type(e).__name__}: {str(e)[:160]})",
                              {"function": "ppt_distinguishability", "args": desc, "impl": str(e)[:200], "model": "feasible" if feasible else "uncertified", "check": "embedding-variable", "point": ptj, "theorem": thm})
                break
            capt = _picos_residuals(cons)
            model = [("psd", _qmat12(x, (D, D))) for x in m["psd"]] + [("eq", _qmat12(x, (D, D))) for x in m["eq"]]
            model += [("eq", np.array([[float(Fraction(z[0], z[1])) + 1j * float(Fraction(z[2], z[3]))]])) for z in m["zero"]]
            # the code lists its constraints as: PSD of the variables, (sum = 1), PSD of the partial transposes, (overlaps); the model lists psd, eq, zero
            order_c = [a for kc, a in capt if kc == "psd"] + [a for kc, a in capt if kc == "eq"]
            order_m = [b for _, b in model]
            identical = same_layout and len(order_c) == len(order_m) and all(a.shape == b.shape for a, b in zip(order_c, order_m)) and \
                all(float(np.max(np.abs(a - b))) <= PEMB_TOL * max(1.0, float(np.max(np.abs(b)))) for a, b in zip(order_c, order_m))
            res.count("ppt-embedding/expressions-identical" if identical else "ppt-embedding/expressions-differ")
            obj_c = complex(P.objective.function.value)
            obj_m = float(Fraction(*m["objective"]))
            res.case(desc, feasible, f"ppt-embedding/{form}/sys{sys}/{pname}/{inst['form']}/{'c' if inst['cplx'] else 'r'}/{'feasible' if feasible else 'uncertified'}")
            if abs(obj_c - obj_m) > 1e-11 * max(1.0, abs(obj_m)):
                res.violation(f"ppt_distinguishability({strategy},{pd},subsystems=[{sys}]): the objective of the program the code builds is {obj_c!r} at an exact point, the modelled objective is {obj_m!r}",
                              {"function": "ppt_distinguishability", "args": desc, "impl": [obj_c.real, obj_c.imag], "model": obj_m, "check": "embedding-objective", "point": ptj, "theorem": thm})
                break
            if feasible:
                vio = _picos_violation(capt)
                if vio > PEMB_FEAS:
                    res.violation(f"ppt_distinguishability({strategy},{pd},subsystems=[{sys}], dimensions=[{dA},{dB}]): a point the verified checker accepts ({pname}) violates a constraint of the program the code builds by {vio:.3e}",
                                  {"function": "ppt_distinguishability", "args": desc, "impl": vio, "model": "feasible", "check": "embedding-feasible", "point": ptj, "theorem": thm})
                    break
                res.count("ppt-embedding/feasible-points-embedded")
        for label, pt2 in controls:
            m2 = drv.ask("c12_ppt_program", dict(common, sys=sys, form=form, **{kk: ([x.json() for x in v] if isinstance(v, list) else v.json()) for kk, v in pt2.items()}))
            if "ok" in m2.get("check", {}):
                raise RuntimeError(f"negative control {label}: the verified checker accepted an infeasible point")
            # infeasible for the MODEL by a margin: a PSD expression with an eigenvalue below -1e-2, or an equality residual above 1e-2
            mm = [_qmat12(x, (D, D)) for x in m2["psd"]]
            margin = max([-float(np.min(np.linalg.eigvalsh((x + x.conj().T) / 2))) for x in mm] + [float(np.max(np.abs(_qmat12(x, (D, D))))) for x in m2["eq"]]
                         + [abs(float(Fraction(z[0], z[1])) + 1j * float(Fraction(z[2], z[3]))) for z in m2["zero"]])
            if margin < 1e-2 and not label.startswith("Y-optimal"):
                continue
            try:
                if form == "dual":
                    P.variables["Y"].value = pt2["Y"].to_float()
                    for i in range(k):
                        P.variables[f"Q[{i}]"].value = pt2["Q"][i].to_float()
                else:
                    for i in range(len(pt2["M"])):
                        P.variables[f"M[{i}]"].value = pt2["M"][i].to_float()
            except Exception:  # noqa: BLE001
                continue
            vio = _picos_violation(_picos_residuals(cons))
            res.count(f"ppt-embedding/negative-controls/{form}/{label}")
            if vio < PEMB_BAD:
                res.violation(f"ppt_distinguishability({strategy},{pd},subsystems=[{sys}], dimensions=[{dA},{dB}]): the infeasible point '{label}' (rejected by the model) satisfies every constraint of the program the code builds "
                              f"(largest violation {vio:.3e}): a constraint is missing or weakened",
                              {"function": "ppt_distinguishability", "args": dict(desc0, control=label), "impl": vio, "model": "infeasible", "check": "embedding-negative-control",
                               "point": {kk: ([x.json() for x in v] if isinstance(v, list) else v.json()) for kk, v in pt2.items()}, "theorem": thm})


# ------------------------------------------------------------------------------------------------
# workers


def work(task, res: Result):
    """PPT value of toqito (primal/dual, either party) inside the certified interval; order relations"""
    from toqito.state_opt import ppt_distinguishability, state_distinguishability
    warnings.filterwarnings("ignore")
    inst, calls = task
    drv = worker_driver()
    dA, dB, k, probs, states = inst["dA"], inst["dB"], inst["k"], inst["probs"], inst["states"]
    sp = int(inst.get("sys_primal", 1))
    ref = {}
    lo, hi, rhos, rhos_f = certified_interval(drv, inst, res, sys_primal=sp, sys_dual=1 - sp, ref=ref)
    ok_iv = lo is not None and hi is not None and hi - lo <= WIDTH_OK
    base = _base(inst)
    maxp = max(probs)
    nontriv = ok_iv and maxp + 1e-2 <= lo and hi <= 1 - 1e-2
    vals = {}
    for (pd, sys) in calls:
        desc = dict(base, fn="ppt_distinguishability", primal_dual=pd, subsystems=[sys], probs_given=inst["probs_given"])
        # the same values in a presentation drawn for this call (layout / real and integer dtypes, independently per list element)
        prng = call_rng(inst.get("pres"), "ppt", pd, sys)
        arg_states = present_list(prng, states, force_real=inst.get("real_idx", ()))
        args = dict(vectors=arg_states, subsystems=[sys], dimensions=[dA, dB], probs=(list(probs) if inst["probs_given"] else None),
                    strategy="min_error", solver="cvxopt", primal_dual=pd)
        guard = Pure(**args)
        try:
            val, _ = ppt_distinguishability(**args)
            why_mod = guard.modified()
            val2 = None
            if why_mod is None and prng is not None and int(prng.integers(4)) == 0:
                try:
                    val2 = float(np.real(ppt_distinguishability(**args)[0]))   # the SAME objects again
                    why_mod = guard.modified()
                except (ArithmeticError, ZeroDivisionError):
                    res.count("repeat-call/solver-numerical-failure")
        except (ArithmeticError, ZeroDivisionError):
            res.case(desc, False, f"ppt/{pd}/sys{sys}/solver-numerical-failure")
            continue
        except Exception as e:
            res.case(desc, True, f"ppt/{pd}/sys{sys}/raise")
            res.violation(f"ppt_distinguishability({pd}, subsystems=[{sys}]) raises {type(e).__name__}: {str(e)[:120]} on a valid ensemble",
                          {"function": "ppt_distinguishability", "args": desc, "exception": f"{type(e).__name__}: {str(e)[:300]}", "presentation": describe(arg_states)})
            continue
        val = float(np.real(val))
        vals[(pd, sys)] = val
        res.case(desc, nontriv, f"ppt/{pd}/sys{sys}/{dA}x{dB}/{inst['form']}/{'c' if inst['cplx'] else 'r'}/{inst['kind']}")
        if why_mod is not None:
            res.violation(f"ppt_distinguishability({pd}, subsystems=[{sys}]): caller's arguments were modified ({why_mod})",
                          {"function": "ppt_distinguishability", "args": desc, "mutation": True, "modified": why_mod, "presentation": describe(arg_states), "check": "purity"})
        elif val2 is not None:
            res.count("repeat-call/checked")
            if abs(val2 - val) > 2 * TAU:
                res.violation(f"ppt_distinguishability({pd}, subsystems=[{sys}]): a second call on the same objects returns {val2:.8f}, the first returned {val:.8f}",
                              {"function": "ppt_distinguishability", "args": desc, "values": [val, val2], "presentation": describe(arg_states), "check": "repeat"})
        if ok_iv and not (lo - TAU <= val <= hi + TAU):
            res.violation(f"ppt_distinguishability({pd}, subsystems=[{sys}], dimensions=[{dA},{dB}]) = {val:.8f} outside the certified PPT optimum [{lo:.8f}, {hi:.8f}]",
                          {"function": "ppt_distinguishability", "args": desc, "impl": val, "certified": [lo, hi], "tau": TAU,
                           "theorem": "checkPPTPrimal_sound / checkPPTDual_sound / ppt_lo_le_hi", "presentation": describe(arg_states)})
    # the programs the code builds (captured, never solved) against the modelled programs at exact points
    ppt_embedding(drv, inst, res, rhos, rhos_f, ref, lo if ok_iv else None)
    if not vals:
        return
    # primal = dual, party irrelevant (also when the interval could not be certified)
    vs = list(vals.values())
    if max(vs) - min(vs) > 2 * TAU:
        res.violation(f"ppt_distinguishability values differ between forms/parties: { {f'{a}/sys{b}': round(v, 8) for (a, b), v in vals.items()} }",
                      {"function": "ppt_distinguishability", "args": dict(base, fn="ppt_forms"), "values": {f"{a}/sys{b}": v for (a, b), v in vals.items()},
                       "theorem": "ppt_weak_duality / isPPTPOVM_party_irrelevant"})
    vmax, vmin = max(vs), min(vs)
    # <= global optimum: certified (C10 checker) and toqito's own state_distinguishability
    ghi = certify_global_hi(drv, rhos, probs, rhos_f)
    if ghi is not None:
        res.count("order/le-global-certified")
        if vmax > ghi + TAU:
            res.violation(f"PPT value {vmax:.8f} exceeds the certified global min-error bound {ghi:.8f}",
                          {"function": "ppt_distinguishability", "args": dict(base, fn="ppt_le_global"), "impl": vmax, "global_hi": ghi, "theorem": "ppt_le_global / ppt_lo_le_global_hi"})
    try:
        g_states, g_probs = present_list(call_rng(inst.get("pres"), "global"), states, force_real=inst.get("real_idx", ())), list(probs)
        g_guard = Pure(g_states, g_probs)
        g, _ = state_distinguishability(g_states, g_probs)
        if g_guard.modified() is not None:
            res.violation(f"state_distinguishability: caller's arguments were modified ({g_guard.modified()})",
                          {"function": "state_distinguishability", "args": dict(base, fn="ppt_le_global_toqito"), "modified": g_guard.modified(), "presentation": describe(g_states), "check": "purity"})
        res.count("order/le-global-toqito")
        if vmax > float(g) + 2 * TAU:
            res.violation(f"PPT value {vmax:.8f} exceeds toqito's global min-error value {float(g):.8f}",
                          {"function": "ppt_distinguishability", "args": dict(base, fn="ppt_le_global_toqito"), "impl": vmax, "global": float(g), "theorem": "ppt_le_global"})
        if ok_iv and float(g) - hi >= 1e-2:
            res.count("order/ppt-strictly-below-global")
    except (ArithmeticError, ZeroDivisionError):
        res.count("order/global-solver-numerical-failure")
    # >= explicit product measurement (certified by the PPT primal checker: it IS a PPT measurement with that value)
    Mp = product_measurement(rhos_f, probs, inst["U"], inst["V"])
    plo, why = certify_primal(drv, rhos, probs, Mp, dA, dB, 1, eps_bits=24)
    if plo is not None:
        res.count("order/ge-product-certified")
        if vmin < plo - TAU:
            res.violation(f"PPT value {vmin:.8f} is below the value {plo:.8f} of an explicit product measurement",
                          {"function": "ppt_distinguishability", "args": dict(base, fn="ppt_ge_product", U=inst["U"], V=inst["V"]), "impl": vmin, "product_lo": plo,
                           "theorem": "product_povm_is_ppt / product_meas_le_ppt_bound / checkPPTPrimal_sound"})
    else:
        res.count("uncertified/product:" + why[:40])
    if inst["kind"] == "bell" and ok_iv:
        res.count("corpus/bell")
        if not (lo - 1e-9 <= 0.5 <= hi + 1e-9):
            res.violation(f"certified PPT optimum [{lo}, {hi}] of the Bell ensemble does not contain 1/2 (harness error or theorem bell_ppt_value_eq_half contradicted)",
                          {"function": "bell", "args": base, "certified": [lo, hi], "theorem": "bell_ppt_value_eq_half"})
        for key, v in vals.items():
            if abs(v - 0.5) > TAU:
                res.violation(f"ppt_distinguishability on the four Bell states = {v:.8f}, expected 1/2", {"function": "ppt_distinguishability", "args": dict(base, fn="bell", call=list(key)), "impl": v,
                                                                                                    "theorem": "bell_ppt_value_eq_half"})


def _rot(s, W):
    a = np.asarray(s)
    if a.ndim == 1 or a.shape[1] == 1:
        return W @ a
    return W @ a @ W.conj().T


def work_invariance(task, res: Result):
    """invariance of toqito's PPT value under local unitaries U (x) V (and the certified interval of the rotated ensemble)"""
    from toqito.state_opt import ppt_distinguishability
    warnings.filterwarnings("ignore")
    inst, pd, sys = task
    dA, dB, probs = inst["dA"], inst["dB"], inst["probs"]
    W = np.kron(inst["U"], inst["V"])
    if not inst["cplx"]:
        W = np.real(W)
    st0 = [np.asarray(s) for s in inst["states"]]
    st1 = present_list(call_rng(inst.get("pres"), "inv1"), [_rot(s, W) for s in st0])
    st0 = present_list(call_rng(inst.get("pres"), "inv0"), st0, force_real=inst.get("real_idx", ()))
    desc = dict(_base(inst), fn="local_unitary_invariance", primal_dual=pd, subsystems=[sys], U=inst["U"], V=inst["V"])
    try:
        v0, _ = ppt_distinguishability(vectors=st0, subsystems=[sys], dimensions=[dA, dB], probs=list(probs), primal_dual=pd)
        v1, _ = ppt_distinguishability(vectors=st1, subsystems=[sys], dimensions=[dA, dB], probs=list(probs), primal_dual=pd)
    except (ArithmeticError, ZeroDivisionError):
        res.case(desc, False, "invariance/solver-numerical-failure")
        return
    except Exception as e:
        res.case(desc, True, "invariance/raise")
        res.violation(f"ppt_distinguishability raises {type(e).__name__}: {str(e)[:120]} on a valid ensemble", {"function": "ppt_distinguishability", "args": desc, "exception": f"{type(e).__name__}: {str(e)[:300]}"})
        return
    v0, v1 = float(np.real(v0)), float(np.real(v1))
    res.case(desc, max(probs) + 1e-2 <= v0 <= 1 - 1e-2, f"invariance/{pd}/sys{sys}/{dA}x{dB}")
    # the value is a function of the ensemble, not of the order in which it is listed (the first listed state may be the real one or a complex one)
    k = len(probs)
    perm = [int(x) for x in call_rng(inst.get("pres") or 1, "perm").permutation(k)]
    ri = list(inst.get("real_idx", ()))
    st2 = present_list(call_rng(inst.get("pres"), "inv2"), [np.asarray(inst["states"][i]) for i in perm], force_real=[n for n, i in enumerate(perm) if i in ri])
    try:
        v2 = float(np.real(ppt_distinguishability(vectors=st2, subsystems=[sys], dimensions=[dA, dB], probs=[probs[i] for i in perm], primal_dual=pd)[0]))
        res.count("invariance/relabelling-checked")
        if abs(v0 - v2) > 2 * TAU:
            res.violation(f"PPT value depends on the order in which the ensemble is listed: {v0:.8f} vs {v2:.8f} (order {perm})",
                          {"function": "ppt_distinguishability", "args": dict(desc, perm=perm), "values": [v0, v2], "presentation": describe(st2), "theorem": "the PPT value is a function of the ensemble {(p_i, rho_i)}"})
    except (ArithmeticError, ZeroDivisionError):
        res.count("invariance/relabelling-solver-numerical-failure")
    if abs(v0 - v1) > 2 * TAU:
        res.violation(f"PPT value not invariant under a local unitary: {v0:.8f} vs {v1:.8f}", {"function": "ppt_distinguishability", "args": desc, "values": [v0, v1], "theorem": "ppt_local_unitary_invariant"})


def work_hierarchy(task, res: Result):
    """symmetric_extension_hierarchy: level 1 = PPT value, non-increasing in the level, >= explicit separable measurement, caller's list untouched"""
    from toqito.state_opt import symmetric_extension_hierarchy
    warnings.filterwarnings("ignore")
    inst, levels = task
    drv = worker_driver()
    dA, dB, k, probs = inst["dA"], inst["dB"], inst["k"], inst["probs"]
    lo, hi, rhos, rhos_f = certified_interval(drv, inst, res)
    ok_iv = lo is not None and hi is not None and hi - lo <= WIDTH_OK
    base = _base(inst)
    Mp = product_measurement(rhos_f, probs, inst["U"], inst["V"])
    plo, _ = certify_primal(drv, rhos, probs, Mp, dA, dB, 1, eps_bits=24)
    nontriv = ok_iv and max(probs) + 1e-2 <= lo and hi <= 1 - 1e-2
    vals = {}
    for level in levels:
        desc = dict(base, fn="symmetric_extension_hierarchy", level=level, dim=[dA, dB])
        prng = call_rng(inst.get("pres"), "hier", level)
        states = present_list(prng, [np.array(s, copy=True) for s in inst["states"]], force_real=inst.get("real_idx", ()))
        before = copy.deepcopy(states)
        ids = [id(s) for s in states]
        dim, dim_form = _dim_arg(inst)
        desc["dim_form"] = dim_form
        arg_probs = list(probs) if inst["probs_given"] else None
        guard = Pure(states, arg_probs, dim)
        v2 = None
        try:
            v = symmetric_extension_hierarchy(states, probs=arg_probs, level=level, dim=dim)
            if guard.modified() is None and level == 1 and dA * dB == 4 and prng is not None and int(prng.integers(3)) == 0:
                v2 = float(np.real(symmetric_extension_hierarchy(states, probs=arg_probs, level=level, dim=dim)))   # the SAME objects again
        except Exception as e:
            res.case(desc, True, f"hier/level{level}/raise")
            res.violation(f"symmetric_extension_hierarchy(level={level}) raises {type(e).__name__}: {str(e)[:120]} on a valid ensemble",
                          {"function": "symmetric_extension_hierarchy", "args": desc, "exception": f"{type(e).__name__}: {str(e)[:300]}", "presentation": describe(states)})
            continue
        v = float(np.real(v))
        vals[level] = v
        res.case(desc, nontriv, f"hier/level{level}/{dA}x{dB}/{inst['form']}/{'c' if inst['cplx'] else 'r'}/{inst['kind']}")
        changed = [i for i in range(min(len(states), len(before)))
                   if id(states[i]) != ids[i] or np.shape(states[i]) != np.shape(before[i]) or not np.array_equal(states[i], before[i])]
        if len(states) != len(before) or changed:
            res.violation(f"symmetric_extension_hierarchy modified the caller's list of states (entries {changed}: shape {np.shape(before[changed[0]]) if changed else None} -> {np.shape(states[changed[0]]) if changed else None})",
                          {"function": "symmetric_extension_hierarchy", "args": desc, "mutation": True, "form": inst["form"], "changed": changed,
                           "shape_before": list(np.shape(before[0])), "shape_after": list(np.shape(states[0])), "presentation": describe(before)})
        elif guard.modified() is not None:
            res.violation(f"symmetric_extension_hierarchy(level={level}): caller's arguments were modified ({guard.modified()})",
                          {"function": "symmetric_extension_hierarchy", "args": desc, "mutation": True, "form": inst["form"], "modified": guard.modified(),
                           "presentation": describe(before), "check": "purity"})
        elif v2 is not None:
            res.count("repeat-call/hier-checked")
            if abs(v2 - v) > 2 * TAU_SCS:
                res.violation(f"symmetric_extension_hierarchy(level={level}): a second call on the same objects returns {v2:.6f}, the first returned {v:.6f}",
                              {"function": "symmetric_extension_hierarchy", "args": desc, "values": [v, v2], "presentation": describe(states), "check": "repeat"})
        if level == 1 and dim_form != "list":
            # the scalar / omitted form denotes the cut [dA, dB]: same value as the list form
            try:
                v_list = float(np.real(symmetric_extension_hierarchy(present_list(call_rng(inst.get("pres"), "hier-list", level), inst["states"], force_real=inst.get("real_idx", ())),
                                                                     probs=arg_probs, level=level, dim=[dA, dB])))
                res.count(f"hier/dim-form-{dim_form}-vs-list/{'unequal' if dA != dB else 'square'}")
                if abs(v - v_list) > 2 * TAU_SCS:
                    res.violation(f"symmetric_extension_hierarchy(level=1) on {dA}x{dB}: dim={dim!r} gives {v:.6f}, dim=[{dA}, {dB}] gives {v_list:.6f}",
                                  {"function": "symmetric_extension_hierarchy", "args": desc, "impl": v, "list_form": v_list, "certified": [lo, hi], "tau": TAU_SCS, "check": "dim-form",
                                   "theorem": "documented argument forms denote the same cut [dA, dB]"})
            except Exception as e:  # noqa: BLE001
                res.violation(f"symmetric_extension_hierarchy(level=1, dim=[{dA}, {dB}]) raises {type(e).__name__}: {str(e)[:120]}", {"function": "symmetric_extension_hierarchy", "args": desc, "exception": f"{type(e).__name__}: {str(e)[:300]}"})
        if level == 1 and ok_iv and not (lo - TAU_SCS <= v <= hi + TAU_SCS):
            res.violation(f"symmetric_extension_hierarchy(level=1) = {v:.6f} differs from the certified PPT optimum [{lo:.6f}, {hi:.6f}]",
                          {"function": "symmetric_extension_hierarchy", "args": desc, "impl": v, "certified": [lo, hi], "tau": TAU_SCS, "theorem": "checkPPTPrimal_sound / checkPPTDual_sound",
                           "presentation": describe(states)})
        if level >= 2 and ok_iv and v > hi + TAU_SCS:
            res.violation(f"symmetric_extension_hierarchy(level={level}) = {v:.6f} exceeds the certified PPT optimum (level 1) {hi:.6f}",
                          {"function": "symmetric_extension_hierarchy", "args": desc, "impl": v, "certified": [lo, hi], "tau": TAU_SCS, "theorem": "checkPPTDual_sound"})
        if plo is not None and v < plo - TAU_SCS:
            res.violation(f"symmetric_extension_hierarchy(level={level}) = {v:.6f} is below the value {plo:.6f} of an explicit separable (product) measurement",
                          {"function": "symmetric_extension_hierarchy", "args": dict(desc, U=inst["U"], V=inst["V"]), "impl": v, "product_lo": plo, "tau": TAU_SCS,
                           "theorem": "product_povm_is_ppt / checkPPTPrimal_sound (value of the explicit measurement)"})
    if 2 in vals and ok_iv:
        # on 2x2 and 2x3 every PPT operator is separable (Horodecki 1996, cited), hence extendible at every level: level 2 >= PPT optimum
        res.count("hier/level2-ge-ppt-checked")
        if vals[2] < lo - TAU_SCS:
            res.violation(f"symmetric_extension_hierarchy(level=2) = {vals[2]:.6f} is below the certified PPT optimum {lo:.6f} on a {dA}x{dB} system (where PPT = separable)",
                          {"function": "symmetric_extension_hierarchy", "args": dict(base, fn="symmetric_extension_hierarchy", level=2, dim=[dA, dB]), "impl": vals[2], "certified": [lo, hi], "tau": TAU_SCS,
                           "theorem": "checkPPTPrimal_sound + PPT = separable in 2x2, 2x3 (cited)"})
    if 1 in vals and 2 in vals:
        res.count("hier/monotone-checked")
        if vals[2] > vals[1] + TAU_SCS:
            res.violation(f"symmetric_extension_hierarchy increases with the level: level 1 {vals[1]:.6f}, level 2 {vals[2]:.6f}",
                          {"function": "symmetric_extension_hierarchy", "args": dict(base, fn="hier_monotone"), "values": vals})
        if ok_iv and vals[1] - vals[2] >= 1e-2:
            res.count("hier/level2-strictly-below-level1")


# ------------------------------------------------------------------------------------------------
# stream symext_embedding — feasibility embedding of exact separable measurements into the problem that
# symmetric_extension_hierarchy builds (scheme B, last paragraph; Lean: separable_meas_feasible, symExt2_product, symExt2_sum)
#
# The cvxpy `Problem` is recorded inside the worker process (cvxpy.Problem.solve replaced by a recorder that aborts the call;
# restored in `finally`).  An exact (rational) separable measurement with fine outcomes E_c = A_c (x) w_c w_c^H (A_c >= 0 on X,
# w_c a vector of Y, sum_c E_c = 1), outcome c attributed to state i(c), gives
#     meas[i]  = sum_{c -> i} A_c (x) w_c w_c^H,
#     x_var[i] = sum_{c -> i} A_c (x) (w_c w_c^H)^{(x) level} / (w_c^H w_c)^{level - 1}      (copies of Y are the LAST tensor factors: dim_list = [dX, dY, ..., dY]).
# Every captured constraint and every declared variable attribute must hold (1e-10) and the captured objective must equal
# sum_i p_i Re tr(rho_i meas[i]) computed exactly from the inputs.

SEMB_TOL = 1e-10
_PHASES = [(Fraction(1), Fraction(0)), (Fraction(3, 5), Fraction(4, 5)), (Fraction(0), Fraction(1)), (Fraction(-5, 13), Fraction(12, 13)),
           (Fraction(-1), Fraction(0)), (Fraction(8, 17), Fraction(-15, 17)), (Fraction(0), Fraction(-1)), (Fraction(-4, 5), Fraction(-3, 5))]


class CQ:
    """exact complex rational matrix: object arrays of Fractions (re, im)"""

    def __init__(self, re, im=None):
        self.re = np.array(re, dtype=object)
        self.im = np.array(im, dtype=object) if im is not None else self.re * 0
        if self.re.ndim == 1:
            self.re, self.im = self.re.reshape(-1, 1), self.im.reshape(-1, 1)

    @staticmethod
    def eye(n):
        m = np.zeros((n, n), dtype=object)
        m[...] = Fraction(0)
        for i in range(n):
            m[i, i] = Fraction(1)
        return CQ(m)

    @staticmethod
    def zeros(n, m):
        z = np.zeros((n, m), dtype=object)
        z[...] = Fraction(0)
        return CQ(z)

    @property
    def shape(self):
        return self.re.shape

    def __matmul__(self, o):
        return CQ(self.re @ o.re - self.im @ o.im, self.re @ o.im + self.im @ o.re)

    def __add__(self, o):
        return CQ(self.re + o.re, self.im + o.im)

    def __sub__(self, o):
        return CQ(self.re - o.re, self.im - o.im)

    def scale(self, q):
        return CQ(self.re * q, self.im * q)

    def H(self):
        return CQ(self.re.T, -self.im.T)

    def kron(self, o):
        return CQ(np.kron(self.re, o.re) - np.kron(self.im, o.im), np.kron(self.re, o.im) + np.kron(self.im, o.re))

    def cols(self, idx):
        return CQ(self.re[:, idx], self.im[:, idx])

    def rows(self, idx):
        return CQ(self.re[idx, :], self.im[idx, :])

    def trace(self):
        return sum((self.re[i, i] for i in range(self.re.shape[0])), Fraction(0))

    def __eq__(self, o):
        return bool(np.all(self.re == o.re) and np.all(self.im == o.im))

    def to_float(self):
        return self.re.astype(float) + 1j * self.im.astype(float)

    def json(self):
        return {"re": [[str(x) for x in row] for row in self.re], "im": [[str(x) for x in row] for row in self.im]}

    @staticmethod
    def from_json(d):
        return CQ([[Fraction(x) for x in row] for row in d["re"]], [[Fraction(x) for x in row] for row in d["im"]])


def rat_unitary(rng, n, cplx):
    """exact rational unitary: product of two Householder reflections 1 - 2 v v^H / v^H v with small (complex) integer v and a diagonal of
    rational points of the unit circle"""
    U = CQ.eye(n)
    for _ in range(2):
        while True:
            vr = [int(t) for t in rng.integers(-3, 4, size=n)]
            vi = [int(t) for t in rng.integers(-3, 4, size=n)] if cplx else [0] * n
            nn = sum(a * a + b * b for a, b in zip(vr, vi))
            if nn > 0:
                break
        v = CQ([Fraction(a) for a in vr], [Fraction(b) for b in vi])
        U = U @ (CQ.eye(n) - (v @ v.H()).scale(Fraction(2, nn)))
    D = CQ.zeros(n, n)
    for i in range(n):
        c, s = _PHASES[int(rng.integers(len(_PHASES)))] if cplx else (Fraction(int(rng.choice([-1, 1]))), Fraction(0))
        D.re[i, i], D.im[i, i] = c, s
    U = U @ D
    assert U.H() @ U == CQ.eye(n)
    return U


def rand_product_povm(rng, dA, dB, cplx, kind):
    """exact separable measurement as a list of fine outcomes (A, w): A a PSD operator of the first party (CQ dA x dA), w a vector of the
    second party (CQ dB x 1), sum A (x) w w^H = 1.
    'projective': local projective measurements in rational bases U, V;
    'locc': Alice measures a POVM {A_a} (rank-one elements from a rational isometry, partly merged), Bob then a rank-one POVM that depends on
            her outcome (dB .. dB+2 elements, from the first dB rows of a rational unitary);
    'mixture': convex combination (rational weight) of one of each."""
    if kind == "mixture":
        lam = Fraction(int(rng.integers(1, 8)), 8)
        a = rand_product_povm(rng, dA, dB, cplx, "projective")
        b = rand_product_povm(rng, dA, dB, cplx, "locc")
        return [(A.scale(lam), w) for A, w in a] + [(A.scale(1 - lam), w) for A, w in b]
    out = []
    if kind == "projective":
        U, V = rat_unitary(rng, dA, cplx), rat_unitary(rng, dB, cplx)
        for a in range(dA):
            ua = U.cols([a])
            for b in range(dB):
                out.append((ua @ ua.H(), V.cols([b])))
        return out
    mA = dA + int(rng.integers(0, 3))
    WA = rat_unitary(rng, mA, cplx).rows(list(range(dA)))  # dA x mA, W W^H = 1
    groups = [[c] for c in range(mA)]
    if mA > dA and rng.integers(2):  # merge two rank-one elements into a rank-two element
        groups = [[0, 1]] + [[c] for c in range(2, mA)]
    for gr in groups:
        A = CQ.zeros(dA, dA)
        for c in gr:
            A = A + WA.cols([c]) @ WA.cols([c]).H()
        mB = dB + int(rng.integers(0, 3))
        WB = rat_unitary(rng, mB, cplx).rows(list(range(dB)))
        for c in range(mB):
            out.append((A, WB.cols([c])))
    return out


def _povm_json(povm):
    return [[A.json(), w.json()] for A, w in povm]


def _povm_from_json(j):
    return [(CQ.from_json(a), CQ.from_json(w)) for a, w in j]


def _pt_np_multi(X, dims, sys):
    """partial transpose of subsystem sys of an operator on a tensor product with dimensions dims (independent of toqito)"""
    n = len(dims)
    T = np.asarray(X).reshape(list(dims) + list(dims))
    perm = list(range(2 * n))
    perm[sys], perm[n + sys] = perm[n + sys], perm[sys]
    D = int(np.prod(dims))
    return T.transpose(perm).reshape(D, D)


def build_symext_point(povm, assign, k, dA, dB, level):
    """(meas, ext) : lists of k exact matrices; ext[i] on X (x) Y^(x)level"""
    D = dA * dB
    meas = [CQ.zeros(D, D) for _ in range(k)]
    ext = [CQ.zeros(D * dB ** (level - 1), D * dB ** (level - 1)) for _ in range(k)]
    for (A, w), i in zip(povm, assign):
        B = w @ w.H()
        nn = B.trace()
        meas[i] = meas[i] + A.kron(B)
        if nn == 0:
            continue
        E = A.kron(B)
        for _ in range(level - 1):
            E = E.kron(B.scale(1 / nn))
        ext[i] = ext[i] + E
    return meas, ext


def _exact_self_check(meas, ext, dA, dB, level):
    """the embedded point satisfies the linear constraints of the hierarchy exactly (harness/model side, no toqito, no cvxpy): sum of the
    measurement operators = 1, tracing out the last copy of Y of an extension gives the extension of the level below (level 1: the measurement
    operator), and the extension is invariant under exchanging the last two copies of Y"""
    D = dA * dB
    tot = CQ.zeros(D, D)
    for M in meas:
        tot = tot + M
    if not tot == CQ.eye(D):
        return "sum of the measurement operators is not the identity"
    for M, X in zip(meas, ext):
        cur = X
        for lv in range(level, 1, -1):  # cur acts on X (x) Y^(x)lv
            m = dA * dB ** (lv - 2)
            r6, i6 = cur.re.reshape(m, dB, dB, m, dB, dB), cur.im.reshape(m, dB, dB, m, dB, dB)
            if not (np.all(r6 == r6.transpose(0, 2, 1, 3, 5, 4)) and np.all(i6 == i6.transpose(0, 2, 1, 3, 5, 4))):
                return f"extension (level {lv}) not invariant under exchanging the last two copies of Y"
            n = m * dB
            re, im = cur.re.reshape(n, dB, n, dB), cur.im.reshape(n, dB, n, dB)
            cur = CQ(sum(re[:, b, :, b] for b in range(dB)), sum(im[:, b, :, b] for b in range(dB)))
        if not cur == M:
            return "tracing out the copies of Y does not give the measurement operator"
    return None


def _symext_vars(P, k, D, Dext, rhos_f, probs):
    """(meas variables, extension variables, how) of the captured problem, index = state number.  The variables carry no names: the
    measurement operators are the variables of the objective; meas[i] is the one whose objective at "this variable = T, the others 0" is
    p_i Re tr(rho_i T) for a fixed generic Hermitian T (creation order when that is not unique); x_var[i] is the variable tied to meas[i]
    by the equality constraint `partial_trace(x_var[i]) == meas[i]` (creation order when no such constraint exists)."""
    import cvxpy
    objv = sorted(P.objective.variables(), key=lambda v: v.id)
    rest = sorted([v for v in P.variables() if all(v is not o for o in objv)], key=lambda v: v.id)
    if len(objv) != k or len(rest) != k or any(tuple(v.shape) != (D, D) for v in objv) or any(tuple(v.shape) != (Dext, Dext) for v in rest):
        if len(objv) == k and len(rest) == k and all(len(v.shape) == 2 and v.shape[0] == v.shape[1] for v in objv + rest):
            # the right number of square variables of another size: the code read the dimensions differently (a verdict about the code, not about the harness)
            raise _WrongSizes(f"expected {k} measurement variables {D}x{D} and {k} extension variables {Dext}x{Dext}, the program has "
                              f"{[tuple(int(t) for t in v.shape) for v in objv]} / {[tuple(int(t) for t in v.shape) for v in rest]}")
        raise CorrespondenceBroken(f"symmetric_extension_hierarchy: expected {k} measurement variables {D}x{D} in the objective and {k} extension variables {Dext}x{Dext}, "
                         f"found {[v.shape for v in objv]} / {[v.shape for v in rest]}")
    how = []
    r = np.random.default_rng(20240918)
    T = r.normal(size=(D, D)) + 1j * r.normal(size=(D, D))
    T = (T + T.conj().T) / 2
    target = [float(probs[i] * np.real(np.trace(rhos_f[i].conj().T @ T))) for i in range(k)]
    meas = None
    if min(abs(a - b) for n, a in enumerate(target) for b in target[n + 1:]) > 1e-7:
        for v in P.variables():
            v.save_value(np.zeros(v.shape, dtype=complex))
        found = {}
        for v in objv:
            v.save_value(T)
            c = float(P.objective.expr.value)
            v.save_value(np.zeros(v.shape, dtype=complex))
            hit = [i for i in range(k) if abs(target[i] - c) <= 1e-12]
            if len(hit) == 1 and hit[0] not in found:
                found[hit[0]] = v
        if len(found) == k:
            meas = [found[i] for i in range(k)]
            how.append("meas:objective-probing")
    if meas is None:
        meas = objv
        how.append("meas:creation-order")
    pair = {}
    for c in P.constraints:
        if type(c).__name__ != "Equality":
            continue
        for u, w in (c.args, c.args[::-1]):
            if isinstance(w, cvxpy.Variable) and any(w is m for m in meas):
                vs = u.variables()
                if len(vs) == 1 and any(vs[0] is x for x in rest):
                    pair[next(i for i, m in enumerate(meas) if m is w)] = vs[0]
    if len(pair) == k and len({id(v) for v in pair.values()}) == k:
        ext = [pair[i] for i in range(k)]
        how.append("ext:trace-constraint")
    else:
        order = {id(v): n for n, v in enumerate(objv)}
        ext = [rest[order[id(m)]] for m in meas]
        how.append("ext:creation-order")
    for v in P.variables():
        v.value = None
    return meas, ext, "+".join(how)


class _Captured(Exception):
    pass


class _WrongSizes(Exception):
    """the captured program has variables of sizes that do not belong to the cut [dA, dB] at this level"""


def _capture(fn):
    """runs fn() with cvxpy.Problem.solve replaced (this process only, restored afterwards) by a recorder that keeps the Problem object and
    aborts the call; returns the recorded problems"""
    import cvxpy

    captured = []
    orig = cvxpy.Problem.solve

    def fake(self, *a, **kw):
        captured.append(self)
        raise _Captured()

    cvxpy.Problem.solve = fake
    try:
        try:
            fn()
        except _Captured:
            pass
    finally:
        cvxpy.Problem.solve = orig
    return captured


def _psd_residual(M):
    M = np.asarray(M, dtype=complex)
    if M.ndim != 2 or M.shape[0] != M.shape[1]:
        return float("inf")
    herm = float(np.max(np.abs(M - M.conj().T)))
    lam = float(np.linalg.eigvalsh((M + M.conj().T) / 2)[0])
    return max(herm, -lam, 0.0)


def _residuals(P):
    """(max residual, rows (index, kind, residual, text)): every member of P.constraints (PSD constraints read as Hermitian and
    smallest eigenvalue >= 0) and the declared attributes of every variable (hermitian=True is a constraint of the program)"""
    rows, worst = [], 0.0
    for idx, c in enumerate(P.constraints):
        kind = type(c).__name__
        if kind == "PSD":
            r = _psd_residual(c.args[0].value)
        else:
            v = c.violation()
            r = float(np.max(np.abs(v))) if np.size(v) else 0.0
        if not np.isfinite(r):
            r = float("inf")
        worst = max(worst, r)
        rows.append((idx, kind, r, str(c)[:140]))
    for n, v in enumerate(P.variables()):
        val = np.asarray(v.value)
        r = float(np.max(np.abs(np.asarray(v.project(val)) - val)))
        if not v.is_complex() and np.iscomplexobj(val):
            r = max(r, float(np.max(np.abs(val.imag))))
        worst = max(worst, r)
        rows.append((-1, f"attributes:{v.name()}", r, f"declared attributes {[a for a, on in v.attributes.items() if on]} of variable {v.name()} {v.shape}"))
    return worst, rows


def _bucket(r):
    if r == 0:
        return "0"
    if not np.isfinite(r):
        return "inf"
    return f"1e{int(np.ceil(np.log10(r)))}"


def _symext_expr_identity(drv, P, mvars, xvars, dA, dB, level, k, seed, res):
    """evidence: the constraint expressions of the captured program against the Lean mirror model `symExtExprs` (op c12_symext_exprs:
    Toq.PartialOps.partialTrace / partialTranspose, Toq.Combinat.symProjN composed as in the code) at random Hermitian Gaussian-integer
    points - generic, infeasible points, so every entry of every linear map is compared.  Differences are counted and noted, never an alarm
    by themselves (an equivalent reformulation of a constraint is not a defect)."""
    D, N = dA * dB, dA * dB ** level
    per = 5 + level - 1
    kinds = [type(c).__name__ for c in P.constraints]
    want = (["Equality", "PSD", "PSD", "Equality"] + ["PSD"] * level) * k + ["Equality"]
    if kinds != want:
        res.count("symext/expressions/other-layout")
        return
    rng = np.random.default_rng(seed)

    def herm_int(n):
        A = rng.integers(-3, 4, size=(n, n)) + 1j * rng.integers(-3, 4, size=(n, n))
        return A + A.conj().T

    Ms = [herm_int(D) for _ in range(k)]
    Xs = [herm_int(N) for _ in range(k)]
    for i in range(k):
        mvars[i].save_value(Ms[i].astype(complex))
        xvars[i].save_value(Xs[i].astype(complex))

    def mat(pr, n):
        return np.array(pr[0], dtype=float).reshape(n, n) + 1j * np.array(pr[1], dtype=float).reshape(n, n)

    worst = 0.0
    for blk in range(k):
        cs = P.constraints[blk * per:(blk + 1) * per]
        vs = cs[0].variables()
        mi = [i for i in range(k) if any(v is mvars[i] for v in vs)]
        xi = [i for i in range(k) if any(v is xvars[i] for v in vs)]
        if len(mi) != 1 or len(xi) != 1:
            res.count("symext/expressions/other-layout")
            return
        M, X = Ms[mi[0]], Xs[xi[0]]
        m = drv.ask("c12_symext_exprs", {"dx": dA, "dy": dB, "level": level,
                                         "meas_re": [int(x) for x in M.real.reshape(-1)], "meas_im": [int(x) for x in M.imag.reshape(-1)],
                                         "x_re": [int(x) for x in X.real.reshape(-1)], "x_im": [int(x) for x in X.imag.reshape(-1)]})
        if "reject" in m or len(m["pts"]) != level:
            raise InfraError(f"c12_symext_exprs: unexpected answer {str(m)[:200]}")
        pairs = [(np.asarray(cs[0].args[0].value) - np.asarray(cs[0].args[1].value), mat(m["trace"], D), 1.0),
                 ((np.asarray(cs[3].args[0].value) - np.asarray(cs[3].args[1].value)) * m["sym_scale"], mat(m["sym"], N), float(m["sym_scale"])),
                 (np.asarray(cs[1].args[0].value), X.astype(complex), 1.0), (np.asarray(cs[2].args[0].value), M.astype(complex), 1.0)]
        pairs += [(np.asarray(c.args[0].value), mat(m["pts"][t], N), 1.0) for t, c in enumerate(cs[4:])]
        for a, b, sc in pairs:
            if a.shape != b.shape:
                worst = float("inf")
            else:
                worst = max(worst, float(np.max(np.abs(a - b))) / sc)
    res.count("symext/expressions/compared", k * per)
    if worst <= 1e-9:
        res.count("symext/expressions/identical")
    else:
        res.count("symext/expressions/differ")
        res.note(f"symmetric_extension_hierarchy(level={level}) on {dA}x{dB}: the constraint expressions of the captured program differ from the mirror model symExtExprs at a generic "
                 f"integer point (largest difference {worst:.3e}); feasibility of separable points and the negative controls decide whether this matters")


def work_symext_embed(task, res: Result):
    from toqito.state_opt import symmetric_extension_hierarchy
    warnings.filterwarnings("ignore")
    inst, level = task["inst"], task["level"]
    dA, dB, k, probs = inst["dA"], inst["dB"], inst["k"], inst["probs"]
    D, Dext = dA * dB, dA * dB ** level
    base = dict(_base(inst), fn="symext_embed", level=level, dim=[dA, dB])
    states = present_list(call_rng(inst.get("pres"), "symext", level), [np.array(s, copy=True) for s in inst["states"]], force_real=inst.get("real_idx", ()))
    dim, dim_form = _dim_arg(inst)
    base["dim_form"] = dim_form
    try:
        got = _capture(lambda: symmetric_extension_hierarchy(states, probs=(list(probs) if inst["probs_given"] else None), level=level, dim=dim))
    except Exception as e:  # noqa: BLE001
        res.case(base, True, f"symext/level{level}/raise")
        res.violation(f"symmetric_extension_hierarchy(level={level}, dim={dim}) raises {type(e).__name__}: {str(e)[:160]} while building its problem for a valid ensemble on {dA}x{dB}",
                      {"function": "symmetric_extension_hierarchy", "args": base, "exception": f"{type(e).__name__}: {str(e)[:300]}", "theorem": "separable_meas_feasible"})
        return
    if len(got) != 1:
        raise CorrespondenceBroken(f"expected one cvxpy problem from symmetric_extension_hierarchy, captured {len(got)}")
    P = got[0]
    res.count("symext/problems-captured")
    res.count("symext/constraints-captured", len(P.constraints))
    rhos = _dms_exact(inst["states"])
    rhos_f = [r.to_float() for r in rhos]
    try:
        mvars, xvars, how = _symext_vars(P, k, D, Dext, rhos_f, probs)
    except _WrongSizes as e:
        res.case(base, True, f"symext/level{level}/wrong-sizes")
        res.violation(f"symmetric_extension_hierarchy(level={level}, dim={dim!r}) on a {dA}x{dB} system ({k} states): {e} - the dim argument is not read as the cut [{dA}, {dB}]",
                      {"function": "symmetric_extension_hierarchy (variables)", "args": base, "theorem": "separable_meas_feasible (extension space X (x) Y^(x)level)"})
        return
    res.count(f"symext/variables-identified-by/{how}")
    _symext_expr_identity(worker_driver(), P, mvars, xvars, dA, dB, level, k, int(task.get("pt_seed", 12)), res)
    worst = 0.0
    for n, mj in enumerate(task["measurements"]):
        povm = _povm_from_json(mj["povm"])
        desc = dict(base, kind_meas=mj["kind"], povm=mj["povm"])
        # attribute every fine outcome to the state with the largest posterior weight (any attribution gives a separable measurement)
        Ef = [np.kron(A.to_float(), (w @ w.H()).to_float()) for A, w in povm]
        assign = [int(np.argmax([probs[i] * float(np.real(np.trace(rhos_f[i] @ E))) for i in range(k)])) if mj["assign"] is None else int(mj["assign"][c])
                  for c, E in enumerate(Ef)]
        meas, ext = build_symext_point(povm, assign, k, dA, dB, level)
        why = _exact_self_check(meas, ext, dA, dB, level)
        if why:
            raise InfraError(f"harness: the embedded separable point fails its own exact check: {why}")
        res.case(desc, len(set(assign)) >= 2 and (inst["cplx"] or dA != dB), f"symext/level{level}/{dA}x{dB}/{'c' if inst['cplx'] else 'r'}/{mj['kind']}")
        for i in range(k):
            mvars[i].save_value(meas[i].to_float())
            xvars[i].save_value(ext[i].to_float())
        w, rows = _residuals(P)
        bad = [[i, kd, r, t] for i, kd, r, t in rows if not (r <= SEMB_TOL)]
        obj = float(P.objective.expr.value)
        exact = Fraction(0)
        for i in range(k):
            pi = Fraction(float(probs[i]))
            rr, ri = rhos[i].re, rhos[i].im
            s = sum((Fraction(int(rr[a, b]), 1 << rhos[i].e) * meas[i].re[b, a] - Fraction(int(ri[a, b]), 1 << rhos[i].e) * meas[i].im[b, a]
                     for a in range(D) for b in range(D)), Fraction(0))
            exact += pi * s
        if bad:
            res.violation(
                f"symmetric_extension_hierarchy(level={level}) on {dA}x{dB}, {k} states: an exact separable measurement ({mj['kind']}, {len(povm)} product outcomes A (x) w w^H) "
                f"with the extension sum A (x) (w w^H)^(x){level} violates {len(bad)} of the {len(P.constraints)} constraints / variable declarations of the program the code builds, "
                f"e.g. {bad[0]}: the level-{level} value can drop below the separable value",
                {"function": "symmetric_extension_hierarchy (constraints)", "args": desc, "violated": bad[:6], "assign": assign, "identified_by": how, "theorem": "separable_meas_feasible"})
        else:
            worst = max(worst, w)
        if not abs(Fraction(obj) - exact) <= Fraction(1, 10 ** 10):
            res.violation(
                f"symmetric_extension_hierarchy(level={level}): the captured objective at an exact separable measurement is {obj!r}, its success probability "
                f"sum_i p_i tr(rho_i M_i) is {float(exact)!r}",
                {"function": "symmetric_extension_hierarchy (objective)", "args": desc, "impl": obj, "model": str(exact), "assign": assign, "identified_by": how,
                 "theorem": "separable_meas_feasible (objective = successProb)"})
        if n == 0:
            # negative controls: (a) a measurement that does not sum to the identity, (b) for level >= 2 an extension A (x) B (x) C with C != B
            mvars[0].save_value(meas[0].to_float() + 0.125 * np.eye(D))
            if not any(not (r <= SEMB_TOL) for _, _, r, _ in _residuals(P)[1]):
                raise InfraError("negative control: a measurement operator raised by 1/8 passed every captured constraint")
            mvars[0].save_value(meas[0].to_float())
            if level >= 2:
                c0 = next((c for c, (A, w_) in enumerate(povm) if (w_ @ w_.H()).trace() != 0 and A.trace() != 0), None)
                if c0 is not None:
                    A, w_ = povm[c0]
                    B = (w_ @ w_.H())
                    Cn = np.zeros((dB, dB))
                    Cn[0, 0] = 1.0
                    good = np.kron(np.kron(A.to_float(), B.to_float()), B.to_float() / float(B.trace()))
                    if level == 3:
                        good = np.kron(good, B.to_float() / float(B.trace()))
                    wrong = np.kron(np.kron(A.to_float(), B.to_float()), Cn)
                    if level == 3:
                        wrong = np.kron(wrong, Cn)
                    if np.max(np.abs(good - wrong)) > 1e-3:
                        xvars[assign[c0]].save_value(ext[assign[c0]].to_float() - good + wrong)
                        if any(not (r <= SEMB_TOL) for _, _, r, _ in _residuals(P)[1]):
                            res.count("symext/negative-control-nonsymmetric-extension-detected")
                        else:  # a weaker relaxation is still an upper bound: informational, never an alarm
                            res.count("symext/nonsymmetric-extension-accepted")
                            res.note(f"symmetric_extension_hierarchy(level={level}) on {dA}x{dB}: the captured program accepts the non-symmetric extension A (x) B (x) C "
                                     f"(the symmetric-projection constraint is absent or ineffective): weaker than documented, still an upper bound")
            res.count("symext/negative-control-detected")
    res.count(f"symext/max-residual-bucket/{_bucket(worst)}")


def symext_tasks(ctx, quick, prs=None):
    rng = ctx.rng
    tasks = []
    combos = [((2, 2), 1), ((2, 2), 2), ((2, 3), 1), ((2, 3), 2), ((3, 2), 1), ((3, 2), 2), ((2, 2), 3)] + ([] if quick else [((3, 3), 1), ((3, 3), 2), ((2, 3), 3)])
    n_inst = 4 if quick else 10
    n_meas = 6 if quick else 12
    for (dA, dB), level in combos:
        for j in range(n_inst):
            forms = ("dm", "col", "dm_mixed", "vec1d")
            inst = gen_instance(rng, quick, forms=(forms[j % len(forms)],), dims_pool=[(dA, dB)])
            if inst["form"] == "vec1d":
                inst["form"] = "col"
                inst["states"] = [np.asarray(s).reshape(-1, 1) for s in inst["states"]]
            while inst["k"] > 3:
                inst = gen_instance(rng, quick, forms=(inst["form"],), dims_pool=[(dA, dB)])
            inst["dim_default"] = bool(dA == dB and rng.integers(2))
            if prs is not None:
                vary_ensemble(prs, inst, zero_prior_one_in=8)
                _set_dim_form(prs, inst)
                if dA != dB and j == 0:
                    inst["dim_form"] = "scalar"   # every shape / level at least once in the scalar form
            ms = []
            for t in range(n_meas):
                kind = ["projective", "locc", "mixture"][t % 3]
                povm = rand_product_povm(rng, dA, dB, True if t % 2 == 0 else inst["cplx"], kind)
                assign = None if t % 3 != 1 else [int(a) for a in rng.integers(0, inst["k"], size=len(povm))]
                ms.append({"kind": kind, "povm": _povm_json(povm), "assign": assign})
            tasks.append({"inst": inst, "level": level, "measurements": ms, "pt_seed": int(rng.integers(1 << 31))})
    return tasks


def symext_embedding(ctx, quick, prs=None):
    import time as _t
    t0 = _t.time()
    run_pool(ctx, work_symext_embed, symext_tasks(ctx, quick, prs))
    h = ctx.hist
    bs = [kk.rsplit("/", 1)[1] for kk in h if kk.startswith("symext/max-residual-bucket/")]
    order = lambda b: -1e9 if b == "0" else (1e9 if b == "inf" else float(b[2:]))  # noqa: E731
    ctx.extra["symext_embedding"] = {"problems_captured": h.get("symext/problems-captured", 0), "constraints_captured": h.get("symext/constraints-captured", 0),
                                     "embeddings": sum(v for kk, v in h.items() if kk.startswith("symext/level") and not kk.endswith("/raise")),
                                     "max_residual_bucket": max(bs, key=order) if bs else None, "tolerance": SEMB_TOL,
                                     "wall_s": round(_t.time() - t0, 1)}


# ------------------------------------------------------------------------------------------------
# partial transpose: Lean model vs the two library functions the code under test relies on


def check_partial_transpose(ctx):
    import picos
    from toqito.channels import partial_transpose as toq_pt
    drv = ctx.lean()
    for (dA, dB) in [(2, 2), (2, 3), (3, 2)]:
        D = dA * dB
        X = np.arange(D * D).reshape(D, D)
        for sys in (0, 1):
            r = drv.ask("c12_ptranspose", {"dA": dA, "dB": dB, "sys": sys, "X": DM.from_int(X).json()})
            model = np.array([[e[0] for e in row] for row in r["rows"]])
            ref = pt_np(X, dA, dB, sys)
            pic = np.array(picos.partial_transpose(picos.Constant(X.astype(float)), subsystems=[sys], dimensions=[dA, dB]).value)
            toq = np.asarray(toq_pt(X.astype(float), [sys], [dA, dB]))
            desc = {"fn": "partial_transpose", "dA": dA, "dB": dB, "sys": sys}
            ctx.case(desc, True, "partial_transpose/model-vs-picos-vs-toqito")
            if not (np.array_equal(model, ref) and np.array_equal(model, np.round(np.real(pic)).astype(int)) and np.array_equal(model, np.round(np.real(toq)).astype(int))):
                ctx.violation(f"partial transpose conventions differ (dims [{dA},{dB}], party {sys}): Lean model vs picos.partial_transpose vs toqito.channels.partial_transpose",
                              {"function": "partial_transpose", "args": desc, "model": model, "picos": np.real(pic), "toqito": np.real(toq), "theorem": "pT_model_eq_spec / pTB_entry"})


# ------------------------------------------------------------------------------------------------
# argument handling: which program is built for (primal_dual, strategy); the dim forms of the hierarchy (Lean: pptDispatch, symExtDims,
# symExtSize; theorems pptDispatch_cases, symExtDims_pair / _scalar / _scalar_rejects / _omitted_square, symExt_shape)


def _fixed_states(D, k):
    """deterministic complex unit vectors (no random choice involved)"""
    out = []
    for i in range(k):
        v = np.array([(1 + ((3 * a + 5 * i) % 4)) + 1j * ((a * a + i) % 3 - 1) for a in range(D)], dtype=complex)
        out.append((v / np.linalg.norm(v)).reshape(-1, 1))
    return out


def check_args(ctx):
    from toqito.state_opt import ppt_distinguishability, symmetric_extension_hierarchy
    warnings.filterwarnings("ignore")
    drv = ctx.lean()
    # (a) dispatch of ppt_distinguishability
    vs = _fixed_states(4, 3)
    for pd in ("primal", "dual"):
        for strategy in ("min_error", "unambig"):
            desc = {"fn": "ppt_dispatch", "primal_dual": pd, "strategy": strategy}
            model = drv.ask("c12_dispatch", {"primal_dual": pd, "strategy": strategy})
            try:
                got = _capture_picos(lambda: ppt_distinguishability(vectors=[v.copy() for v in vs], subsystems=[1], dimensions=[2, 2], probs=[0.5, 0.25, 0.25],
                                                                    strategy=strategy, primal_dual=pd))
                if len(got) != 1:
                    raise CorrespondenceBroken(f"ppt_distinguishability({pd},{strategy}): expected one picos problem, captured {len(got)}")
                names = sorted(got[0][0].variables.keys())
                if "Y" in names:
                    impl = {"program": "dual"}
                else:
                    neq = sum(1 for c in got[0][0].constraints.values() if not hasattr(c, "psd"))
                    impl = {"program": "primal", "extra": len(names) == len(vs) + 1, "zero": neq > 1}
            except ValueError:
                impl = {"reject": "ValueError"}
            ctx.case(desc, True, f"args/ppt-dispatch/{pd}/{strategy}")
            if impl != model:
                raise CorrespondenceBroken(f"ppt_distinguishability(primal_dual={pd!r}, strategy={strategy!r}) builds {impl}, the modelled dispatch (pptDispatch) gives {model}")
    # (b) dim forms and sizes of the hierarchy
    combos = [(4, 1, None), (4, 2, None), (4, 2, 2), (6, 1, 2), (6, 2, 2), (6, 1, 3), (6, 2, [2, 3]), (6, 1, [3, 2]), (4, 3, [2, 2]), (6, 1, 4), (4, 1, 3)]
    for dim_xy, level, dim in combos:
        desc = {"fn": "symext_args", "dim_xy": dim_xy, "level": level, "dim": dim}
        model = drv.ask("c12_symext_args", {"dim_xy": dim_xy, "level": level, "dim": dim})
        st = _fixed_states(dim_xy, 2)
        try:
            got = _capture(lambda: symmetric_extension_hierarchy([v.copy() for v in st], probs=[0.5, 0.5], level=level, dim=dim))
            if len(got) != 1:
                raise CorrespondenceBroken(f"expected one cvxpy problem from symmetric_extension_hierarchy, captured {len(got)}")
            Pb = got[0]
            objv = Pb.objective.variables()
            rest = [v for v in Pb.variables() if all(v is not o for o in objv)]
            impl = {"meas": sorted({int(v.shape[0]) for v in objv}), "ext": sorted({int(v.shape[0]) for v in rest}), "n": [len(objv), len(rest)]}
        except ValueError as e:
            impl = {"reject": "ValueError", "msg": str(e)[:80]}
        ctx.case(desc, True, f"args/symext/{'reject' if 'reject' in model else 'ok'}/{'list' if isinstance(dim, list) else ('none' if dim is None else 'scalar')}")
        if "reject" in model:
            if "reject" not in impl:
                ctx.violation(f"symmetric_extension_hierarchy(dim={dim!r}) on states of length {dim_xy}: the model rejects ({model['reject']}: a scalar dim must divide the length), the code builds a program {impl}",
                              {"function": "symmetric_extension_hierarchy (arguments)", "args": desc, "impl": impl, "model": model, "theorem": "symExtDims_scalar_rejects"})
            continue
        want = {"meas": [dim_xy], "ext": [int(model["size"])], "n": [2, 2]}
        if impl != want:
            ctx.violation(f"symmetric_extension_hierarchy(level={level}, dim={dim!r}) on states of length {dim_xy}: the program has variables {impl}, the modelled cut [{model['dx']}, {model['dy']}] needs {want}",
                          {"function": "symmetric_extension_hierarchy (arguments)", "args": desc, "impl": impl, "model": model, "theorem": "symExtDims_scalar / symExtDims_omitted_square / symExt_shape"})


# ------------------------------------------------------------------------------------------------


def work_same_object(task, res: Result):
    """same-object and strict-fp streams (see RULE).  task = (kind, payload)"""
    from toqito.channels import partial_transpose as toq_pt
    from toqito.state_opt import ppt_distinguishability, symmetric_extension_hierarchy
    warnings.filterwarnings("ignore")
    kind, payload = task
    if kind == "pt":
        X, sys, dims = payload
        X = np.asarray(X)
        desc = {"fn": "same_object", "kind": kind, "X": X, "sys": sys, "dims": list(dims)}
        res.case(desc, True, "strict-fp/partial_transpose")
        try:
            v0 = ("ok", np.asarray(toq_pt(X.copy(), [sys], list(dims))))
        except Exception as e:  # noqa: BLE001
            v0 = ("raise", f"{type(e).__name__}: {str(e)[:200]}")
        v1 = strict_fp_call(lambda: np.asarray(toq_pt(X.copy(), [sys], list(dims))))
        if v0[0] != v1[0] or (v0[0] == "ok" and not (v0[1].shape == v1[1].shape and np.array_equal(v0[1], v1[1]))) or (v0[0] == "raise" and v0[1].split(":")[0] != v1[1].split(":")[0]):
            res.violation(f"partial_transpose: value depends on NumPy's floating-point error state: {str(v0[1])[:60]!r} in the default state, {str(v1[1])[:80]!r} under np.seterr(invalid/divide/over='raise')",
                          {"function": "partial_transpose", "args": desc, "stream": "strict-fp", "impl_default_state": repr(v0[1])[:300], "impl_strict_state": repr(v1[1])[:300]})
        return
    states, i, j, fname, sys, probs = payload
    states = [np.asarray(x) for x in states]
    desc = {"fn": "same_object", "kind": kind, "states": states, "i": i, "j": j, "function": fname, "sys": sys, "probs": probs}
    res.case(desc, True, f"same-object/{fname}")
    shared = [x.copy() for x in states]
    shared[j] = shared[i]                      # ONE object in slots i and j
    copies = [x.copy() for x in states]
    copies[j] = copies[i].copy()               # equal values, distinct objects
    if fname == "ppt_distinguishability":
        call, tol = (lambda L: float(np.real(ppt_distinguishability(vectors=L, subsystems=[sys], dimensions=[2, 2], probs=probs, primal_dual="dual")[0]))), 1e-7
    else:
        call, tol = (lambda L: float(np.real(symmetric_extension_hierarchy(L, probs=probs, level=1, dim=[2, 2])))), 1e-6
    outs = []
    for L in (shared, copies):
        try:
            outs.append(("ok", call(L)))
        except Exception as e:  # noqa: BLE001
            outs.append(("raise", f"{type(e).__name__}: {str(e)[:200]}"))
    (s0, v0), (s1, v1) = outs
    if s0 != s1 or (s0 == "ok" and not abs(v0 - v1) <= tol) or (s0 == "raise" and v0.split(":")[0] != v1.split(":")[0]):
        res.violation(f"{fname}: a list holding the same array object in slots {i} and {j} gives {str(v0)[:80]!r}, the same list with an equal copy in slot {j} gives {str(v1)[:80]!r}",
                      {"function": fname, "args": desc, "stream": "same-object", "impl_same_object": repr(v0)[:300], "impl_copies": repr(v1)[:300]})


def same_object_tasks(srng, quick):
    bell = [b.astype(float) for b in BELL]
    tasks = []
    e00 = np.zeros(4)
    e00[0] = 1.0
    for X in (np.outer(bell[0], bell[0]), np.outer(e00, e00), np.zeros((4, 4)), np.arange(16).reshape(4, 4), np.eye(4) / 4, np.outer(bell[1], bell[1]).astype(complex)):
        for sys in (0, 1):
            tasks.append(("pt", (X, sys, (2, 2))))
    tasks.append(("same", ([b.reshape(-1, 1) for b in bell[:3]], 0, 1, "symmetric_extension_hierarchy", 0, None)))
    tasks.append(("same", (bell[:3], 0, 2, "ppt_distinguishability", 0, None)))
    tasks.append(("same", ([np.outer(b, b) for b in bell], 1, 3, "ppt_distinguishability", 1, [0.25] * 4)))
    tasks.append(("same", ([b.reshape(-1, 1) for b in bell[:2]], 0, 1, "ppt_distinguishability", 0, [0.5, 0.5])))
    for t in range(6 if quick else 30):
        hier = (t == 0) if quick else (t % 6 == 0)
        inst = gen_instance(srng, True, forms=("col",) if hier else ("vec1d", "col", "dm", "dm_mixed"), dims_pool=[(2, 2)])
        i, j = (int(x) for x in srng.choice(inst["k"], size=2, replace=False))
        tasks.append(("same", (inst["states"], i, j, "symmetric_extension_hierarchy" if hier else "ppt_distinguishability", int(srng.integers(2)), list(inst["probs"]) if inst["probs_given"] else None)))
    return tasks


def run(ctx, model_ok=True):
    rng = ctx.rng
    quick = ctx.tier == "quick"
    # known finding / fixed defect: the hierarchy overwrote the caller's kets with density matrices
    ctx.matchers["symext_mutates_states_list"] = lambda info: (info.get("function") == "symmetric_extension_hierarchy" and info.get("mutation") is True
                                                               and info.get("form") == "col")
    check_partial_transpose(ctx)
    check_args(ctx)
    all_calls = [("dual", 0), ("dual", 1), ("primal", 0), ("primal", 1)]  # cheap and robust form first (per-task time limit)
    tasks = []
    prs = rng.spawn(1)[0]   # presentation stream: a child of the seeded generator (spawning does not consume the parent's draws)
    for i, form in enumerate(["vec1d", "col", "dm"]):
        inst = vary_ensemble(prs, bell_instance(form, rng))
        inst["sys_primal"] = i % 2
        tasks.append((inst, all_calls))
    n_inst = 72 if quick else 600
    for i in range(n_inst):
        inst = vary_ensemble(prs, gen_instance(rng, quick), zero_prior_one_in=8)
        inst["sys_primal"] = i % 2
        tasks.append((inst, all_calls))
    run_pool(ctx, work, tasks)
    inv = []
    for i in range(24 if quick else 160):
        inst = vary_ensemble(prs, gen_instance(rng, quick), zero_prior_one_in=8)
        inv.append((inst, "primal" if (i % 2 and inst["k"] == 4) else "dual", int(rng.integers(2))))
    run_pool(ctx, work_invariance, inv)
    hier = []
    for form in ("dm", "col"):  # level 2 on 2x3 (about 10 s each): two instances in the quick tier, scheduled first
        inst = vary_ensemble(prs, gen_instance(rng, quick, forms=(form,), dims_pool=[(2, 3)]))
        inst["dim_default"] = False
        inst["dim_form"] = "list" if form == "dm" else "scalar"   # dim=2 on a 2x3 system, levels 1 and 2
        hier.append((inst, [1, 2]))
    # the same state under two labels ([a, a, b, ..]): merging them would change the value (drawn from a spawned generator)
    rrng = rng.spawn(1)[0]
    for form, given in (("col", False), ("dm", True)):
        inst = gen_instance(rrng, quick, forms=(form,), dims_pool=[(2, 2)])
        while inst["k"] < 3 or "repeat" in inst["kind"]:
            inst = gen_instance(rrng, quick, forms=(form,), dims_pool=[(2, 2)])
        inst["states"][1] = np.array(inst["states"][0], copy=True)
        inst["kind"] += "+repeat"
        inst["probs_given"] = given or len(set(inst["probs"])) > 1
        inst = vary_ensemble(prs, inst)
        inst["dim_default"] = False
        inst["dim_form"] = "list"
        hier.append((inst, [1, 2]))
    hier.append((vary_ensemble(prs, bell_instance("col", rng)), [1, 2]))
    hier.append((vary_ensemble(prs, bell_instance("dm", rng)), [1, 2]))
    for i in range(28 if quick else 200):
        inst = vary_ensemble(prs, gen_instance(rng, quick, forms=("col", "col", "dm", "dm_mixed")), zero_prior_one_in=8)
        inst["dim_default"] = bool(rng.integers(2))
        _set_dim_form(prs, inst)
        small = inst["dA"] * inst["dB"] == 4
        levels = [1, 2] if (small or (not quick and i % 4 == 0)) else [1]
        hier.append((inst, levels))
    run_pool(ctx, work_hierarchy, hier)
    # feasibility embedding of exact separable measurements into the captured problems of the hierarchy
    symext_embedding(ctx, quick, prs)
    # same-object / strict-fp streams: seeded from a child generator, so the streams above do not shift
    run_pool(ctx, work_same_object, same_object_tasks(rng.spawn(1)[0], quick))
    nfail = sum(v for kk, v in ctx.hist.items() if kk.startswith("ppt/primal") and "solver-numerical-failure" in kk)
    nprim = sum(v for kk, v in ctx.hist.items() if kk.startswith("ppt/primal"))
    ndfail = sum(v for kk, v in ctx.hist.items() if kk.startswith("ppt/dual") and "solver-numerical-failure" in kk)
    ctx.extra["solver_numerical_failures"] = {"primal_form": [nfail, nprim], "dual_form": [ndfail, sum(v for kk, v in ctx.hist.items() if kk.startswith("ppt/dual"))]}
    if nprim and nfail:
        ctx.note(f"ppt_distinguishability(primal_dual='primal', solver='cvxopt') raised ArithmeticError (CVXOPT diverges: the equality sum(M)=I on Hermitian variables is passed "
                 f"as 2 d^2 real equations of rank d^2) on {nfail} of {nprim} primal calls; counted as solver-numerical-failure, the dual form solved every one of these instances")
    ctx.extra["tolerances"] = {"ppt_distinguishability (cvxopt)": TAU, "symmetric_extension_hierarchy (scs)": TAU_SCS}
    ctx.extra["certified_interval_width_bound"] = WIDTH_OK


def replay(ctx, rec):
    a = rec["args"]

    def arr(s):
        def cv(e):
            return complex(e["re"], e["im"]) if isinstance(e, dict) else e
        return np.array([[cv(e) for e in row] if isinstance(row, list) else cv(row) for row in s])

    if rec.get("function") == "partial_transpose":
        check_partial_transpose(ctx)
        return
    if a.get("fn") in ("symext_args", "ppt_dispatch"):
        check_args(ctx)
        return
    if a.get("fn") == "same_object":
        res = Result()
        if a["kind"] == "pt":
            work_same_object(("pt", (arr(a["X"]), a["sys"], a["dims"])), res)
        else:
            work_same_object(("same", ([arr(x) for x in a["states"]], a["i"], a["j"], a["function"], a["sys"], a["probs"])), res)
        fold(ctx, res)
        return
    inst = {"dA": a["dA"], "dB": a["dB"], "k": a["k"], "cplx": a["cplx"], "form": a["form"], "kind": a.get("kind", "random"), "probs": a["probs"],
            "probs_given": a.get("probs_given", True), "states": [arr(s) for s in a["states"]],
            "U": arr(a["U"]) if "U" in a else np.eye(a["dA"], dtype=complex), "V": arr(a["V"]) if "V" in a else np.eye(a["dB"], dtype=complex),
            "pres": a.get("pres"), "real_idx": a.get("real_idx") or [], "dim_form": a.get("dim_form")}
    res = Result()
    fn = a.get("fn", "ppt_distinguishability")
    if fn == "symext_embed":
        inst["probs_given"] = True
        inst["dim_default"] = False
        inst["dim_form"] = a.get("dim_form") or "list"
        work_symext_embed({"inst": inst, "level": a["level"], "measurements": [{"kind": a.get("kind_meas", "replay"), "povm": a["povm"], "assign": rec.get("assign")}]}, res)
    elif fn in ("symmetric_extension_hierarchy", "hier_monotone"):
        work_hierarchy((inst, [a["level"]] if "level" in a else [1, 2]), res)
    elif fn == "local_unitary_invariance":
        work_invariance((inst, a["primal_dual"], a["subsystems"][0]), res)
    else:
        calls = [(a["primal_dual"], a["subsystems"][0])] if "primal_dual" in a else [("primal", 0), ("primal", 1), ("dual", 0), ("dual", 1)]
        work((inst, calls), res)
    fold(ctx, res)
