"""C12: ppt_distinguishability / symmetric_extension_hierarchy against certified intervals.

Per instance the exact dyadic images of the float inputs handed to toqito define the ensemble; an exact PPT
measurement (lower bound) and an exact dual point (Y, Q_i) (upper bound) are built by untrusted means (independent
cvxpy/CLARABEL solve, rounding, exact repair) and accepted only by the verified Lean checkers `c12_ppt_primal` /
`c12_ppt_dual` (theorems checkPPTPrimal_sound / checkPPTDual_sound / ppt_lo_le_hi in lean/Toq/Properties/C12.lean).
toqito's values (primal and dual form, either party transposed) must lie in [lo - tau, hi + tau]; the order relations of the
property (<= global value, >= explicit product measurement, Bell states = 1/2, local-unitary and party invariance, hierarchy level 1 =
PPT, level 2 <= level 1, >= product measurement, no mutation of the caller's list) are checked on the same instances."""
from __future__ import annotations

import copy
import warnings

import numpy as np

from ..cert import DM, chol_factor, frac_json, repair_povm
from ..pool import Result, run_pool, worker_driver, fold
from .. import qgen

RULE = ("bipartite ensembles (2..4 states on 2x2 and 2x3 [thorough: also 3x2], real/complex integer amplitudes normalised in floating point, given as 1-D / column "
        "vectors, pure or mixed density matrices, dyadic priors; kinds: random, orthogonal entangled basis, product-vs-entangled, Bell corpus) x primal/dual form x "
        "transposed party; per instance the Lean checker certifies the PPT optimum [lo, hi] for the exact image of the inputs; non-trivial = certified interval narrower "
        "than 1e-4 and max prior + 1e-2 <= value <= 1 - 1e-2 ; distinct = hash of the instance and call form; hierarchy cases: level 1 and 2 (level 2 on 2x3 only in the thorough tier)")
ASSUMPTIONS = [
    "toqito computes with the float inputs it is given; the instance certified is their exact dyadic image (difference <= 1e-15 relative)",
    "tolerance 2e-5 on CVXOPT-solved values (ppt_distinguishability), 1e-3 on the SCS-solved hierarchy values (cvxpy default solver), as declared in DESIGN.md 4.4",
    "picos.partial_transpose / toqito.channels.partial_transpose are compared with the Lean model's partial transpose on labelled matrices on every run (op c12_ptranspose)",
    "hierarchy clauses (level 1 = PPT, monotone in the level, >= separable measurement) are checked numerically on toqito's outputs; the Lean side proves the PPT part only",
    "on 2x2 and 2x3 systems positive-partial-transpose operators are separable (Horodecki 1996; cited, not proved), so level 2 of the hierarchy must also be >= the certified PPT optimum",
]
TAU = 2e-5
TAU_SCS = 1e-3
WIDTH_OK = 1e-4


# ------------------------------------------------------------------------------------------------
# numerics helpers (untrusted)


def pt_np(X, dA, dB, sys):
    """partial transpose of a (dA dB) x (dA dB) array on party sys (0 = first, 1 = second); independent of toqito"""
    T = np.asarray(X).reshape(dA, dB, dA, dB)
    T = T.transpose(2, 1, 0, 3) if sys == 0 else T.transpose(0, 3, 2, 1)
    return T.reshape(dA * dB, dA * dB)


def pt_dm(X: DM, dA, dB, sys) -> DM:
    return DM(pt_np(X.re, dA, dB, sys), pt_np(X.im, dA, dB, sys), X.e)


def pt_cvx(X, dA, dB, sys):
    """partial transpose of a cvxpy expression as an explicit operator sum (no library partial transpose involved)"""
    D = dA * dB
    out = 0
    if sys == 1:
        for b in range(dB):
            for c in range(dB):
                E = np.zeros((dB, dB))
                E[b, c] = 1
                K = np.kron(np.eye(dA), E)
                out = out + K @ X @ K
    else:
        for a in range(dA):
            for c in range(dA):
                E = np.zeros((dA, dA))
                E[a, c] = 1
                K = np.kron(E, np.eye(dB))
                out = out + K @ X @ K
    return out


def _solve(prob):
    import cvxpy as cp
    last = None
    for kw in (dict(solver=cp.CLARABEL), dict(solver=cp.CVXOPT, abstol=1e-9, reltol=1e-9, feastol=1e-9), dict(solver=cp.SCS, eps=1e-9, max_iters=50000)):
        try:
            prob.solve(**kw)
            if prob.status in ("optimal", "optimal_inaccurate") and all(v.value is not None for v in prob.variables()):
                return
        except Exception as e:
            last = e
    raise RuntimeError(f"reference solve failed: {last}")


def solve_ref(rhos_f, probs, dA, dB, sys):
    """independent solve of the PPT primal and dual: returns (Ms, Y, Qs) as float arrays"""
    import cvxpy as cp
    D = dA * dB
    k = len(rhos_f)
    Ms = [cp.Variable((D, D), hermitian=True) for _ in range(k)]
    cons = [M >> 0 for M in Ms] + [sum(Ms) == np.eye(D)] + [pt_cvx(M, dA, dB, sys) >> 0 for M in Ms]
    pr = cp.Problem(cp.Maximize(cp.real(sum(probs[i] * cp.trace(rhos_f[i] @ Ms[i]) for i in range(k)))), cons)
    _solve(pr)
    Mv = [np.array(M.value) for M in Ms]
    Y = cp.Variable((D, D), hermitian=True)
    Qs = [cp.Variable((D, D), hermitian=True) for _ in range(k)]
    cons = [Q >> 0 for Q in Qs] + [Y - probs[i] * rhos_f[i] - pt_cvx(Qs[i], dA, dB, sys) >> 0 for i in range(k)]
    pd = cp.Problem(cp.Minimize(cp.real(cp.trace(Y))), cons)
    _solve(pd)
    return Mv, np.array(Y.value), [np.array(Q.value) for Q in Qs]


def _pj(probs):
    return [frac_json(DM.exact_float(np.array([[p]])).frac(0, 0)[0]) for p in probs]


def certify_primal(drv, rhos, probs, Ms_f, dA, dB, sys, eps_bits=20):
    """repair (shrink towards I/k, which is PPT with margin; slack into the first element) and ask the Lean checker.
    returns (lo or None, why)"""
    why = ""
    for eb in (eps_bits, eps_bits - 3, eps_bits - 6):
        P = repair_povm(Ms_f, eps_bits=eb)
        LM = [chol_factor(M.to_float()) for M in P]
        LT = [chol_factor(pt_dm(M, dA, dB, sys).to_float()) for M in P]
        if any(L is None for L in LM):
            why = "primal:cholesky_M"
            continue
        if any(L is None for L in LT):
            why = "primal:cholesky_pT_M"
            continue
        r = drv.ask("c12_ppt_primal", {"dA": dA, "dB": dB, "sys": sys, "rho": [r_.json() for r_ in rhos], "p": _pj(probs),
                                       "M": [M.json() for M in P], "LM": [L.json() for L in LM], "LT": [L.json() for L in LT]})
        if "ok" in r:
            return r["ok"][0] / r["ok"][1], ""
        why = "primal:" + r["reject"]
    return None, why


def certify_dual(drv, rhos, probs, Y_f, Qs_f, dA, dB, sys):
    """Q_i + 2^-qb I, Y + 2^-yb I, recompute the slack exactly (tight margins first, looser ones if the witnesses fail);
    returns (hi or None, why)"""
    D = dA * dB
    k = len(rhos)
    I = DM.eye(D)
    why = ""
    for (qb, yb) in ((24, 22), (21, 19), (18, 16)):
        Y = DM.from_float((Y_f + Y_f.conj().T) / 2, 40).herm_part() + I.scale_dy(1, yb)
        Qs = [DM.from_float((Q + Q.conj().T) / 2, 40).herm_part() + I.scale_dy(1, qb) for Q in Qs_f]
        LQ = [chol_factor(Q.to_float()) for Q in Qs]
        if any(L is None for L in LQ):
            why = "dual:cholesky_Q"
            continue
        LS = []
        for i in range(k):
            pi = DM.exact_float(np.array([[probs[i]]]))
            S = Y - rhos[i].scale_dy(int(pi.re[0, 0]), pi.e) - pt_dm(Qs[i], dA, dB, sys)
            LS.append(chol_factor(S.to_float()))
        if any(L is None for L in LS):
            why = "dual:cholesky_slack"
            continue
        r = drv.ask("c12_ppt_dual", {"dA": dA, "dB": dB, "sys": sys, "rho": [r_.json() for r_ in rhos], "p": _pj(probs), "Y": Y.json(),
                                     "Q": [Q.json() for Q in Qs], "LQ": [L.json() for L in LQ], "LS": [L.json() for L in LS]})
        if "ok" in r:
            return r["ok"][0] / r["ok"][1], ""
        why = "dual:" + r["reject"]
    return None, why


def certify_global_hi(drv, rhos, probs, rhos_f):
    """upper bound of the unrestricted min-error optimum through C10's verified checker (minerr_dual)"""
    import cvxpy as cp
    D = rhos_f[0].shape[0]
    k = len(rhos)
    Y = cp.Variable((D, D), hermitian=True)
    pd = cp.Problem(cp.Minimize(cp.real(cp.trace(Y))), [Y - probs[i] * rhos_f[i] >> 0 for i in range(k)])
    _solve(pd)
    Yd = DM.from_float((Y.value + Y.value.conj().T) / 2, 40).herm_part() + DM.eye(D).scale_dy(1, 24)
    Ls = []
    for i in range(k):
        pi = DM.exact_float(np.array([[probs[i]]]))
        Ls.append(chol_factor((Yd - rhos[i].scale_dy(int(pi.re[0, 0]), pi.e)).to_float()))
    if any(L is None for L in Ls):
        return None
    r = drv.ask("minerr_dual", {"d": D, "rho": [r_.json() for r_ in rhos], "p": _pj(probs), "Y": Yd.json(), "LY": [L.json() for L in Ls]})
    return r["ok"][0] / r["ok"][1] if "ok" in r else None


def product_measurement(rhos_f, probs, U, V):
    """explicit product measurement: local projective measurements in the bases U, V; outcome (a, b) is attributed to the
    state with the largest posterior weight.  Returns the k aggregated elements (float; each a sum of products of PSD factors)."""
    dA, dB = U.shape[0], V.shape[0]
    k = len(rhos_f)
    Ms = [np.zeros((dA * dB, dA * dB), dtype=complex) for _ in range(k)]
    for a in range(dA):
        Pa = np.outer(U[:, a], U[:, a].conj())
        for b in range(dB):
            Pb = np.outer(V[:, b], V[:, b].conj())
            E = np.kron(Pa, Pb)
            w = [probs[i] * np.real(np.trace(rhos_f[i] @ E)) for i in range(k)]
            Ms[int(np.argmax(w))] += E
    return Ms


# ------------------------------------------------------------------------------------------------
# instances (generated in the parent from the seeded generator)

BELL = [np.array([1, 0, 0, 1]) / np.sqrt(2), np.array([1, 0, 0, -1]) / np.sqrt(2), np.array([0, 1, 1, 0]) / np.sqrt(2), np.array([0, 1, -1, 0]) / np.sqrt(2)]


def _shape_states(vecs, form, rng, D, cplx):
    if form == "dm_mixed":
        states = [qgen.rand_density(rng, D, int(rng.integers(1, 3)), cplx) for _ in vecs]
    elif form == "dm":
        states = [np.outer(v, v.conj()) for v in vecs]
    elif form == "col":
        states = [v.reshape(-1, 1) for v in vecs]
    else:
        states = [v for v in vecs]
    if not cplx:
        states = [np.real(s) for s in states]
    return states


def gen_instance(rng, quick, forms=("vec1d", "col", "dm", "dm_mixed"), dims_pool=None):
    dims_pool = dims_pool or ([(2, 2), (2, 2), (2, 2), (2, 3)] if quick else [(2, 2), (2, 2), (2, 3), (2, 3), (3, 2)])
    dA, dB = dims_pool[int(rng.integers(len(dims_pool)))]
    D = dA * dB
    k = int(rng.choice([2, 3, 4, 4]))
    cplx = bool(rng.integers(2))
    form = str(rng.choice(list(forms)))
    kind = str(rng.choice(["random", "random", "random", "orthogonal", "prod_ent"]))
    if kind == "orthogonal" and form != "dm_mixed":
        W = qgen.cayley_unitary(rng, D, cplx)  # a generic (entangled) orthonormal basis of the bipartite space
        vecs = [W[:, i] for i in range(k)]
    elif kind == "prod_ent" and form != "dm_mixed":
        vecs = []
        for i in range(k):
            if i % 2 == 0:
                vecs.append(qgen.unit(np.kron(qgen.int_vector(rng, dA, cplx), qgen.int_vector(rng, dB, cplx))))
            else:
                vecs.append(qgen.unit(qgen.int_vector(rng, D, cplx)))
    else:
        kind = "random"
        vecs = [qgen.unit(qgen.int_vector(rng, D, cplx)) for _ in range(k)]
    probs = qgen.dyadic_probs(rng, k)
    states = _shape_states(vecs, form, rng, D, cplx)
    return {"dA": dA, "dB": dB, "k": k, "cplx": cplx, "form": form, "kind": kind, "states": states, "probs": probs,
            "probs_given": bool(rng.integers(4) > 0) or len(set(probs)) > 1,
            "U": qgen.cayley_unitary(rng, dA, cplx), "V": qgen.cayley_unitary(rng, dB, cplx)}


def bell_instance(form, rng):
    states = _shape_states([b.astype(complex) for b in BELL], form, rng, 4, False)
    return {"dA": 2, "dB": 2, "k": 4, "cplx": False, "form": form, "kind": "bell", "states": states, "probs": [0.25] * 4, "probs_given": True,
            "U": np.eye(2, dtype=complex), "V": np.eye(2, dtype=complex)}


def _dms_exact(states):
    out = []
    for s in states:
        a = np.asarray(s)
        if a.ndim == 1 or 1 in a.shape:
            v = DM.exact_float(a.reshape(-1, 1))
            out.append(v @ v.H())
        else:
            out.append(DM.exact_float(a).herm_part())
    return out


def _base(inst):
    b = {kk: inst[kk] for kk in ("dA", "dB", "k", "cplx", "form", "kind", "probs")}
    b["states"] = [np.asarray(s) for s in inst["states"]]
    return b


def certified_interval(drv, inst, res, sys_primal=1, sys_dual=0):
    """(lo, hi, rhos, rhos_f): the primal certificate transposes `sys_primal`, the dual one `sys_dual` (ppt_lo_le_hi allows that)"""
    dA, dB, probs = inst["dA"], inst["dB"], inst["probs"]
    rhos = _dms_exact(inst["states"])
    rhos_f = [r.to_float() for r in rhos]
    try:
        Ms, Y, Qs = solve_ref(rhos_f, probs, dA, dB, sys_dual)
    except Exception:
        res.count("uncertified/ref-solve-failed")
        return None, None, rhos, rhos_f
    # the same measurement is PPT for either party; the dual variables Q_i belong to party sys_dual
    lo, w1 = certify_primal(drv, rhos, probs, Ms, dA, dB, sys_primal)
    hi, w2 = certify_dual(drv, rhos, probs, Y, Qs, dA, dB, sys_dual)
    if lo is None or hi is None or hi - lo > WIDTH_OK:
        res.count(("uncertified/" + (w1 or w2 or "wide"))[:70])
    return lo, hi, rhos, rhos_f


# ------------------------------------------------------------------------------------------------
# workers


def work(task, res: Result):
    """PPT value of toqito (primal/dual, either party) inside the certified interval; order relations"""
    from toqito.state_opt import ppt_distinguishability, state_distinguishability
    warnings.filterwarnings("ignore")
    inst, calls = task
    drv = worker_driver()
    dA, dB, k, probs, states = inst["dA"], inst["dB"], inst["k"], inst["probs"], inst["states"]
    sp = int(inst.get("sys_primal", 1))
    lo, hi, rhos, rhos_f = certified_interval(drv, inst, res, sys_primal=sp, sys_dual=1 - sp)
    ok_iv = lo is not None and hi is not None and hi - lo <= WIDTH_OK
    base = _base(inst)
    maxp = max(probs)
    nontriv = ok_iv and maxp + 1e-2 <= lo and hi <= 1 - 1e-2
    vals = {}
    for (pd, sys) in calls:
        desc = dict(base, fn="ppt_distinguishability", primal_dual=pd, subsystems=[sys], probs_given=inst["probs_given"])
        before = copy.deepcopy(states)
        arg_states = [np.asarray(s) for s in states]
        try:
            val, _ = ppt_distinguishability(vectors=arg_states, subsystems=[sys], dimensions=[dA, dB], probs=(list(probs) if inst["probs_given"] else None),
                                            strategy="min_error", solver="cvxopt", primal_dual=pd)
        except (ArithmeticError, ZeroDivisionError):
            res.case(desc, False, f"ppt/{pd}/sys{sys}/solver-numerical-failure")
            continue
        except Exception as e:
            res.case(desc, True, f"ppt/{pd}/sys{sys}/raise")
            res.violation(f"ppt_distinguishability({pd}, subsystems=[{sys}]) raises {type(e).__name__}: {str(e)[:120]} on a valid ensemble",
                          {"function": "ppt_distinguishability", "args": desc, "exception": f"{type(e).__name__}: {str(e)[:300]}"})
            continue
        val = float(np.real(val))
        vals[(pd, sys)] = val
        res.case(desc, nontriv, f"ppt/{pd}/sys{sys}/{dA}x{dB}/{inst['form']}/{'c' if inst['cplx'] else 'r'}/{inst['kind']}")
        if len(arg_states) != len(before) or any(not np.array_equal(a, b) for a, b in zip(arg_states, before)):
            res.violation("ppt_distinguishability modified the caller's list of states", {"function": "ppt_distinguishability", "args": desc, "mutation": True})
        if ok_iv and not (lo - TAU <= val <= hi + TAU):
            res.violation(f"ppt_distinguishability({pd}, subsystems=[{sys}], dimensions=[{dA},{dB}]) = {val:.8f} outside the certified PPT optimum [{lo:.8f}, {hi:.8f}]",
                          {"function": "ppt_distinguishability", "args": desc, "impl": val, "certified": [lo, hi], "tau": TAU,
                           "theorem": "checkPPTPrimal_sound / checkPPTDual_sound / ppt_lo_le_hi"})
    if not vals:
        return
    # primal = dual, party irrelevant (also when the interval could not be certified)
    vs = list(vals.values())
    if max(vs) - min(vs) > 2 * TAU:
        res.violation(f"ppt_distinguishability values differ between forms/parties: { {f'{a}/sys{b}': round(v, 8) for (a, b), v in vals.items()} }",
                      {"function": "ppt_distinguishability", "args": dict(base, fn="ppt_forms"), "values": {f"{a}/sys{b}": v for (a, b), v in vals.items()},
                       "theorem": "ppt_weak_duality / isPPTPOVM_party_irrelevant"})
    vmax, vmin = max(vs), min(vs)
    # <= global optimum: certified (C10 checker) and toqito's own state_distinguishability
    ghi = certify_global_hi(drv, rhos, probs, rhos_f)
    if ghi is not None:
        res.count("order/le-global-certified")
        if vmax > ghi + TAU:
            res.violation(f"PPT value {vmax:.8f} exceeds the certified global min-error bound {ghi:.8f}",
                          {"function": "ppt_distinguishability", "args": dict(base, fn="ppt_le_global"), "impl": vmax, "global_hi": ghi, "theorem": "ppt_le_global / ppt_lo_le_global_hi"})
    try:
        g, _ = state_distinguishability([np.asarray(s) for s in states], list(probs))
        res.count("order/le-global-toqito")
        if vmax > float(g) + 2 * TAU:
            res.violation(f"PPT value {vmax:.8f} exceeds toqito's global min-error value {float(g):.8f}",
                          {"function": "ppt_distinguishability", "args": dict(base, fn="ppt_le_global_toqito"), "impl": vmax, "global": float(g), "theorem": "ppt_le_global"})
        if ok_iv and float(g) - hi >= 1e-2:
            res.count("order/ppt-strictly-below-global")
    except (ArithmeticError, ZeroDivisionError):
        res.count("order/global-solver-numerical-failure")
    # >= explicit product measurement (certified by the PPT primal checker: it IS a PPT measurement with that value)
    Mp = product_measurement(rhos_f, probs, inst["U"], inst["V"])
    plo, why = certify_primal(drv, rhos, probs, Mp, dA, dB, 1, eps_bits=24)
    if plo is not None:
        res.count("order/ge-product-certified")
        if vmin < plo - TAU:
            res.violation(f"PPT value {vmin:.8f} is below the value {plo:.8f} of an explicit product measurement",
                          {"function": "ppt_distinguishability", "args": dict(base, fn="ppt_ge_product", U=inst["U"], V=inst["V"]), "impl": vmin, "product_lo": plo,
                           "theorem": "product_povm_is_ppt / product_meas_le_ppt_bound / checkPPTPrimal_sound"})
    else:
        res.count("uncertified/product:" + why[:40])
    if inst["kind"] == "bell" and ok_iv:
        res.count("corpus/bell")
        if not (lo - 1e-9 <= 0.5 <= hi + 1e-9):
            res.violation(f"certified PPT optimum [{lo}, {hi}] of the Bell ensemble does not contain 1/2 (harness error or theorem bell_ppt_value_eq_half contradicted)",
                          {"function": "bell", "args": base, "certified": [lo, hi], "theorem": "bell_ppt_value_eq_half"})
        for key, v in vals.items():
            if abs(v - 0.5) > TAU:
                res.violation(f"ppt_distinguishability on the four Bell states = {v:.8f}, expected 1/2", {"function": "ppt_distinguishability", "args": dict(base, fn="bell", call=list(key)), "impl": v,
                                                                                                    "theorem": "bell_ppt_value_eq_half"})


def _rot(s, W):
    a = np.asarray(s)
    if a.ndim == 1 or a.shape[1] == 1:
        return W @ a
    return W @ a @ W.conj().T


def work_invariance(task, res: Result):
    """invariance of toqito's PPT value under local unitaries U (x) V (and the certified interval of the rotated ensemble)"""
    from toqito.state_opt import ppt_distinguishability
    warnings.filterwarnings("ignore")
    inst, pd, sys = task
    dA, dB, probs = inst["dA"], inst["dB"], inst["probs"]
    W = np.kron(inst["U"], inst["V"])
    if not inst["cplx"]:
        W = np.real(W)
    st0 = [np.asarray(s) for s in inst["states"]]
    st1 = [_rot(s, W) for s in st0]
    desc = dict(_base(inst), fn="local_unitary_invariance", primal_dual=pd, subsystems=[sys], U=inst["U"], V=inst["V"])
    try:
        v0, _ = ppt_distinguishability(vectors=st0, subsystems=[sys], dimensions=[dA, dB], probs=list(probs), primal_dual=pd)
        v1, _ = ppt_distinguishability(vectors=st1, subsystems=[sys], dimensions=[dA, dB], probs=list(probs), primal_dual=pd)
    except (ArithmeticError, ZeroDivisionError):
        res.case(desc, False, "invariance/solver-numerical-failure")
        return
    except Exception as e:
        res.case(desc, True, "invariance/raise")
        res.violation(f"ppt_distinguishability raises {type(e).__name__}: {str(e)[:120]} on a valid ensemble", {"function": "ppt_distinguishability", "args": desc, "exception": f"{type(e).__name__}: {str(e)[:300]}"})
        return
    v0, v1 = float(np.real(v0)), float(np.real(v1))
    res.case(desc, max(probs) + 1e-2 <= v0 <= 1 - 1e-2, f"invariance/{pd}/sys{sys}/{dA}x{dB}")
    if abs(v0 - v1) > 2 * TAU:
        res.violation(f"PPT value not invariant under a local unitary: {v0:.8f} vs {v1:.8f}", {"function": "ppt_distinguishability", "args": desc, "values": [v0, v1], "theorem": "ppt_local_unitary_invariant"})


def work_hierarchy(task, res: Result):
    """symmetric_extension_hierarchy: level 1 = PPT value, non-increasing in the level, >= explicit separable measurement, caller's list untouched"""
    from toqito.state_opt import symmetric_extension_hierarchy
    warnings.filterwarnings("ignore")
    inst, levels = task
    drv = worker_driver()
    dA, dB, k, probs = inst["dA"], inst["dB"], inst["k"], inst["probs"]
    lo, hi, rhos, rhos_f = certified_interval(drv, inst, res)
    ok_iv = lo is not None and hi is not None and hi - lo <= WIDTH_OK
    base = _base(inst)
    Mp = product_measurement(rhos_f, probs, inst["U"], inst["V"])
    plo, _ = certify_primal(drv, rhos, probs, Mp, dA, dB, 1, eps_bits=24)
    nontriv = ok_iv and max(probs) + 1e-2 <= lo and hi <= 1 - 1e-2
    vals = {}
    for level in levels:
        desc = dict(base, fn="symmetric_extension_hierarchy", level=level, dim=[dA, dB])
        states = [np.array(s, copy=True) for s in inst["states"]]
        before = copy.deepcopy(states)
        ids = [id(s) for s in states]
        dim = None if (dA == dB and inst.get("dim_default", False)) else [dA, dB]
        try:
            v = symmetric_extension_hierarchy(states, probs=(list(probs) if inst["probs_given"] else None), level=level, dim=dim)
        except Exception as e:
            res.case(desc, True, f"hier/level{level}/raise")
            res.violation(f"symmetric_extension_hierarchy(level={level}) raises {type(e).__name__}: {str(e)[:120]} on a valid ensemble",
                          {"function": "symmetric_extension_hierarchy", "args": desc, "exception": f"{type(e).__name__}: {str(e)[:300]}"})
            continue
        v = float(np.real(v))
        vals[level] = v
        res.case(desc, nontriv, f"hier/level{level}/{dA}x{dB}/{inst['form']}/{'c' if inst['cplx'] else 'r'}/{inst['kind']}")
        changed = [i for i in range(min(len(states), len(before)))
                   if id(states[i]) != ids[i] or np.shape(states[i]) != np.shape(before[i]) or not np.array_equal(states[i], before[i])]
        if len(states) != len(before) or changed:
            res.violation(f"symmetric_extension_hierarchy modified the caller's list of states (entries {changed}: shape {np.shape(before[changed[0]]) if changed else None} -> {np.shape(states[changed[0]]) if changed else None})",
                          {"function": "symmetric_extension_hierarchy", "args": desc, "mutation": True, "form": inst["form"], "changed": changed,
                           "shape_before": list(np.shape(before[0])), "shape_after": list(np.shape(states[0]))})
        if level == 1 and ok_iv and not (lo - TAU_SCS <= v <= hi + TAU_SCS):
            res.violation(f"symmetric_extension_hierarchy(level=1) = {v:.6f} differs from the certified PPT optimum [{lo:.6f}, {hi:.6f}]",
                          {"function": "symmetric_extension_hierarchy", "args": desc, "impl": v, "certified": [lo, hi], "tau": TAU_SCS, "theorem": "checkPPTPrimal_sound / checkPPTDual_sound"})
        if level >= 2 and ok_iv and v > hi + TAU_SCS:
            res.violation(f"symmetric_extension_hierarchy(level={level}) = {v:.6f} exceeds the certified PPT optimum (level 1) {hi:.6f}",
                          {"function": "symmetric_extension_hierarchy", "args": desc, "impl": v, "certified": [lo, hi], "tau": TAU_SCS, "theorem": "checkPPTDual_sound"})
        if plo is not None and v < plo - TAU_SCS:
            res.violation(f"symmetric_extension_hierarchy(level={level}) = {v:.6f} is below the value {plo:.6f} of an explicit separable (product) measurement",
                          {"function": "symmetric_extension_hierarchy", "args": dict(desc, U=inst["U"], V=inst["V"]), "impl": v, "product_lo": plo, "tau": TAU_SCS,
                           "theorem": "product_povm_is_ppt / checkPPTPrimal_sound (value of the explicit measurement)"})
    if 2 in vals and ok_iv:
        # on 2x2 and 2x3 every PPT operator is separable (Horodecki 1996, cited), hence extendible at every level: level 2 >= PPT optimum
        res.count("hier/level2-ge-ppt-checked")
        if vals[2] < lo - TAU_SCS:
            res.violation(f"symmetric_extension_hierarchy(level=2) = {vals[2]:.6f} is below the certified PPT optimum {lo:.6f} on a {dA}x{dB} system (where PPT = separable)",
                          {"function": "symmetric_extension_hierarchy", "args": dict(base, fn="symmetric_extension_hierarchy", level=2, dim=[dA, dB]), "impl": vals[2], "certified": [lo, hi], "tau": TAU_SCS,
                           "theorem": "checkPPTPrimal_sound + PPT = separable in 2x2, 2x3 (cited)"})
    if 1 in vals and 2 in vals:
        res.count("hier/monotone-checked")
        if vals[2] > vals[1] + TAU_SCS:
            res.violation(f"symmetric_extension_hierarchy increases with the level: level 1 {vals[1]:.6f}, level 2 {vals[2]:.6f}",
                          {"function": "symmetric_extension_hierarchy", "args": dict(base, fn="hier_monotone"), "values": vals})
        if ok_iv and vals[1] - vals[2] >= 1e-2:
            res.count("hier/level2-strictly-below-level1")


# ------------------------------------------------------------------------------------------------
# partial transpose: Lean model vs the two library functions the code under test relies on


def check_partial_transpose(ctx):
    import picos
    from toqito.channels import partial_transpose as toq_pt
    drv = ctx.lean()
    for (dA, dB) in [(2, 2), (2, 3), (3, 2)]:
        D = dA * dB
        X = np.arange(D * D).reshape(D, D)
        for sys in (0, 1):
            r = drv.ask("c12_ptranspose", {"dA": dA, "dB": dB, "sys": sys, "X": DM.from_int(X).json()})
            model = np.array([[e[0] for e in row] for row in r["rows"]])
            ref = pt_np(X, dA, dB, sys)
            pic = np.array(picos.partial_transpose(picos.Constant(X.astype(float)), subsystems=[sys], dimensions=[dA, dB]).value)
            toq = np.asarray(toq_pt(X.astype(float), [sys], [dA, dB]))
            desc = {"fn": "partial_transpose", "dA": dA, "dB": dB, "sys": sys}
            ctx.case(desc, True, "partial_transpose/model-vs-picos-vs-toqito")
            if not (np.array_equal(model, ref) and np.array_equal(model, np.round(np.real(pic)).astype(int)) and np.array_equal(model, np.round(np.real(toq)).astype(int))):
                ctx.violation(f"partial transpose conventions differ (dims [{dA},{dB}], party {sys}): Lean model vs picos.partial_transpose vs toqito.channels.partial_transpose",
                              {"function": "partial_transpose", "args": desc, "model": model, "picos": np.real(pic), "toqito": np.real(toq), "theorem": "pT_model_eq_spec / pTB_entry"})


# ------------------------------------------------------------------------------------------------


def run(ctx, model_ok=True):
    rng = ctx.rng
    quick = ctx.tier == "quick"
    # known finding / fixed defect: the hierarchy overwrote the caller's kets with density matrices
    ctx.matchers["symext_mutates_states_list"] = lambda info: (info.get("function") == "symmetric_extension_hierarchy" and info.get("mutation") is True
                                                               and info.get("form") == "col")
    check_partial_transpose(ctx)
    all_calls = [("dual", 0), ("dual", 1), ("primal", 0), ("primal", 1)]  # cheap and robust form first (per-task time limit)
    tasks = []
    for i, form in enumerate(["vec1d", "col", "dm"]):
        inst = bell_instance(form, rng)
        inst["sys_primal"] = i % 2
        tasks.append((inst, all_calls))
    n_inst = 72 if quick else 600
    for i in range(n_inst):
        inst = gen_instance(rng, quick)
        inst["sys_primal"] = i % 2
        tasks.append((inst, all_calls))
    run_pool(ctx, work, tasks)
    inv = []
    for i in range(24 if quick else 160):
        inst = gen_instance(rng, quick)
        inv.append((inst, "primal" if (i % 2 and inst["k"] == 4) else "dual", int(rng.integers(2))))
    run_pool(ctx, work_invariance, inv)
    hier = []
    for form in ("dm", "col"):  # level 2 on 2x3 (about 10 s each): two instances in the quick tier, scheduled first
        inst = gen_instance(rng, quick, forms=(form,), dims_pool=[(2, 3)])
        inst["dim_default"] = False
        hier.append((inst, [1, 2]))
    hier.append((bell_instance("col", rng), [1, 2]))
    hier.append((bell_instance("dm", rng), [1, 2]))
    for i in range(28 if quick else 200):
        inst = gen_instance(rng, quick, forms=("col", "col", "dm", "dm_mixed"))
        inst["dim_default"] = bool(rng.integers(2))
        small = inst["dA"] * inst["dB"] == 4
        levels = [1, 2] if (small or (not quick and i % 4 == 0)) else [1]
        hier.append((inst, levels))
    run_pool(ctx, work_hierarchy, hier)
    nfail = sum(v for kk, v in ctx.hist.items() if kk.startswith("ppt/primal") and "solver-numerical-failure" in kk)
    nprim = sum(v for kk, v in ctx.hist.items() if kk.startswith("ppt/primal"))
    ndfail = sum(v for kk, v in ctx.hist.items() if kk.startswith("ppt/dual") and "solver-numerical-failure" in kk)
    ctx.extra["solver_numerical_failures"] = {"primal_form": [nfail, nprim], "dual_form": [ndfail, sum(v for kk, v in ctx.hist.items() if kk.startswith("ppt/dual"))]}
    if nprim and nfail:
        ctx.note(f"ppt_distinguishability(primal_dual='primal', solver='cvxopt') raised ArithmeticError (CVXOPT diverges: the equality sum(M)=I on Hermitian variables is passed "
                 f"as 2 d^2 real equations of rank d^2) on {nfail} of {nprim} primal calls; counted as solver-numerical-failure, the dual form solved every one of these instances")
    ctx.extra["tolerances"] = {"ppt_distinguishability (cvxopt)": TAU, "symmetric_extension_hierarchy (scs)": TAU_SCS}
    ctx.extra["certified_interval_width_bound"] = WIDTH_OK


def replay(ctx, rec):
    a = rec["args"]

    def arr(s):
        def cv(e):
            return complex(e["re"], e["im"]) if isinstance(e, dict) else e
        return np.array([[cv(e) for e in row] if isinstance(row, list) else cv(row) for row in s])

    if rec.get("function") == "partial_transpose":
        check_partial_transpose(ctx)
        return
    inst = {"dA": a["dA"], "dB": a["dB"], "k": a["k"], "cplx": a["cplx"], "form": a["form"], "kind": a.get("kind", "random"), "probs": a["probs"],
            "probs_given": a.get("probs_given", True), "states": [arr(s) for s in a["states"]],
            "U": arr(a["U"]) if "U" in a else np.eye(a["dA"], dtype=complex), "V": arr(a["V"]) if "V" in a else np.eye(a["dB"], dtype=complex)}
    res = Result()
    fn = a.get("fn", "ppt_distinguishability")
    if fn in ("symmetric_extension_hierarchy", "hier_monotone"):
        work_hierarchy((inst, [a["level"]] if "level" in a else [1, 2]), res)
    elif fn == "local_unitary_invariance":
        work_invariance((inst, a["primal_dual"], a["subsystems"][0]), res)
    else:
        calls = [(a["primal_dual"], a["subsystems"][0])] if "primal_dual" in a else [("primal", 0), ("primal", 1), ("dual", 0), ("dual", 1)]
        work((inst, calls), res)
    fold(ctx, res)
