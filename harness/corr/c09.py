"""C09: extended nonlocal games (unentangled value, ordering of the bounds), quantum hedging and optimal cloning
(primal/dual programs) against verified certificate checkers (lean/Toq/Model/ExtGames.lean, theorems in
lean/Toq/Properties/C09.lean).

Part 1.  For every game the exact dyadic image of the float arrays handed to toqito is the instance.  All pairs of
answer functions are enumerated; the best pair with the top eigenvector (untrusted, float) gives a lower
certificate (Rayleigh quotient, `checkUnentLower_sound`), a constant c slightly above the best float eigenvalue with
one Cholesky witness per function pair gives the upper certificate (`checkUnentUpper_sound`); the same over constant
answer pairs encloses the number the code's loop computes (`checkUnentConst*_sound`, mirror of the code as it is).
`unentangled_value()` must lie in the mirror interval (implementation = mirror) AND in the spec interval (property).
Ordering on returned floats: certified unentangled lower bound <= NPA(k) <= non-signalling value, see-saw lower bound
<= NPA(k), NPA(2) <= NPA(1), non-signalling value <= sum_xy pi(x,y) max_ab ||P_abxy||.

Part 2/3.  Hedging (Q 4x4 / 16x16) and cloning (Q built by the code from real qubit ensembles): toqito's primal and dual
values against [lo, hi] certified by an exactly feasible primal point and an exactly feasible (complex Hermitian) dual
point (`checkHedgeMaxPrimal_sound`, `checkHedgeMaxDual_sound`, `checkHedgeMinDual_sound`, two repetitions through
`checkHedge*_reindex_sound` with the verified permutations `hedgeSigma2`, `cloneSigma2`); min <= max; closed forms
cos^2(pi/8), 0 (perfect hedging), 3/4, 9/16.

Stream `ext_embedding` (scheme B, feasibility-embedding check; Lean: `ext_embed_psd`, `ext_embed_blocks`, `ext_embed_normalised`,
`ext_embed_objective`, `ext_npa_sound_det`, `unent_le_ns`): the cvxpy problems built by `commuting_measurement_value_upper_bound(k)`
(`npa_constraints(mat, k, referee_dim = d)`, d = 2..3) and by `nonsignaling_value()` are recorded in-process; unentangled strategies
(all / sampled pairs of answer functions x exact rational pure and mixed referee states rho) are written into the captured variables as
R = rho (x) z z^T (z from the Lean model), K(.,.|x,y) = E_(f x, g y) (x) rho; every captured constraint and every declared variable
attribute must hold to 1e-10 and the captured objective must equal Re tr(M_fg rho) (Lean `avgOperator`, recomputed with Fractions).
Numerically (1e-9) the same for random commuting projective measurements on an entangled tripartite state.

Stream `ext_reps` (scheme A, exact): the arrays stored by `ExtendedNonlocalGame(prob_mat, pred_mat, reps)` for reps = 2, 3 (branch `reps > 1` of
`__init__`: tensor of prob_mat, odometer over question tuples, np.kron of the 4-axis predicate slices) against the Lean mirror `repGame` / `tensorGame`
(`c09_rep_game`), entry by entry and exactly (dyadic data, real and complex; the dtype of the stored predicate must keep the imaginary parts);
unentangled_value(reps) >= unentangled_value(1)^reps on small alphabets (`ext_reps_product_strategy`).

Stream `prog_embedding` (module c09_prog, scheme B feasibility embedding): the cvxpy problems built by the four QuantumHedging programs and by
optimal_clone's primal_problem / dual_problem (n = 1, 2) are captured; points accepted by the verified Lean checkers (and tensor products of two
single-shot points: `hedging_reps_product_feasible`, `hedging_reps_dual_product`) must satisfy every captured constraint and reproduce the Lean value as
the captured objective; negative controls.

Product brackets: for Q = kron(Q1, Q2) with exactly factorised PSD factors (hedging) and for the cloning operator with two repetitions the two-fold
maximum is bracketed by [v1 v2, w1 w2] from single-shot certificates only (`c09_product2`; theorems `hedge2_product_bracket`, `clone2_product_bracket`);
toqito's two-repetition values must lie in the bracket.

Tie checks (exact, integer data): toqito's `partial_trace` with the sys/dim arguments the programs use, the code's
permutation operators, the index lists (`_sys`, `_dim`, `_pperm`, `perm`, `sys`) the code builds for n = 1..3 against `hedgeSys` / `hedgePerm` /
`cloneSys` / `clonePerm` (`pperm_is_interleaving`), the code's formula for the cloning operator and `avgOperator` against the Lean model."""
from __future__ import annotations

import itertools
import warnings
from fractions import Fraction

import numpy as np

from ..cert import DM, chol_factor, frac_json
from ..common import CorrespondenceBroken, InfraError
from ..exact import Pure, call_rng, describe, present_list, present_nd, strict_fp_call
from ..pool import Result, fold, run_pool, worker_driver
from .. import qgen

RULE = ("extended games: referee dimension 2..3, |A|,|B|,|X|,|Y| in 1..3 (at most 256 pairs of answer functions), real and complex PSD "
        "predicate operators V V^H / 2^k from random integer matrices (not symmetric under exchanging the players), dyadic question "
        "distributions with occasional zeros; corpus: the 'echo' game (constant answers lose), BB84 game; hedging: Q = exact dyadic image "
        "of random real/complex PSD 4x4 operators of rank 1..4 (n=1) and of Q1 (x) Q2 or generic 16x16 PSD operators (n=2), corpus "
        "Molina-Watrous operators; ext_embedding: fixed list of shapes (d, A, B, X, Y) with d in 2..3 and alphabets 1..3 (unequal, both orders, one trivial player), "
        "per shape one generic complex game (all operators non-zero with complex off-diagonal entries, all probabilities positive) and one random real game, levels 1, 2 "
        "(small alphabets) and '1+ab', all or 36 (thorough 200) sampled pairs of answer functions, referee states pure / mixed / real rational; non-trivial = both "
        "players have a choice or unequal alphabets and the game is complex or asymmetric; cloning: 2..4 real qubit states as column vectors with dyadic priors, reps 1..2, corpus Wiesner. "
        "non-trivial (games) = certified interval narrower than 1e-4 and best function pair beats the best constant pair by >= 1e-2 "
        "or players have unequal alphabets; (hedging/cloning) = certified interval narrower than 1e-4 and optimum >= 1e-2 away from "
        "the trivial bounds tr(Q)/a and b*lambda_max(Q) (max) resp. 0 and tr(Q)/a (min); distinct = hash of the exact inputs and the function called; "
        "presentation: every ExtendedNonlocalGame / QuantumHedging object and every optimal_clone call receives the same values in a freshly drawn presentation "
        "(C / Fortran / strided / permuted-axes memory layout of the 2-D and 6-D arrays; real-valued data as float64, integer-valued data as int64; the cloning states "
        "independently per list element); the objects handed over must be untouched after every method call; unentangled_value and (one in three, n = 1) the hedging "
        "programs are called a second time on the same object and must return the same value; "
        "ext_reps: fixed list of (shape, reps) with reps 2..3, unequal alphabets, d in 2..3, one generic complex and one random real game per shape plus the Pauli-Y projector game "
        "(reproducer of the float-buffer defect of the reps branch); non-trivial = complex or unequal alphabets; hedge-product: Q = kron(V1 V1^H / 4^k1, V2 V2^H / 4^k2) from random "
        "integer 4 x r matrices (r in 1..4, real / complex alternating), non-trivial = bracket narrower than 1e-4 and >= 1e-2 away from the trivial bounds; prog_embedding: see c09_prog.py; "
        "strict_fp (in-process, no solver): ExtendedNonlocalGame(prob, pred, reps) for reps 1..2 followed by unentangled_value() (reps 2 only below 1024 pairs of answer functions) on the corpus games, "
        "the all-zero predicate, games with zero operators and zero-probability questions (a whole row / column of questions never asked), rank-one operators, one-element alphabets and a few random games "
        "from a fresh child of the seeded generator (spawned after all other streams), evaluated once in NumPy's default floating-point error state and once with invalid / divide / overflow set to "
        "raise (harness.exact.strict_fp_call): stored arrays bitwise equal (same dtype), same value (1e-12), value of the all-zero game exactly 0; non-trivial = not all-zero and more than one pair of answer functions")
ASSUMPTIONS = [
    "toqito computes with the float inputs it is given; the instance certified is their exact dyadic image (difference <= 1e-15 relative)",
    "all programs are solved by cvxpy's default solver (SCS, eps 1e-4): tolerance 1e-3 on returned values (DESIGN.md 4.4), 2e-3 on primal/dual agreement",
    "the optima of the NPA level-k relaxation and of the non-signalling program are compared as returned floats; their constraint systems are tied to the Lean theorems by "
    "the feasibility embedding (every unentangled strategy is a feasible point of the captured problem with the right objective), which shows that the value cannot drop "
    "below the unentangled value for a reason other than the solver; the see-saw lower bound is an achieved value of a quantum strategy by construction of the two SDPs",
    "ext_embedding: cvxpy evaluates the captured constraint/objective expressions faithfully (Constraint.violation(), Expression.value, Variable.project); PSD constraints are "
    "evaluated by the harness as 'Hermitian and smallest eigenvalue >= -1e-10'; declared variable attributes (hermitian=True, real) are treated as constraints; the float image of a "
    "rational rho differs from rho by <= 1e-16 per entry, hence the tolerance 1e-10 (observed residuals <= 1e-14); the quantum embedding is float linear algebra (tolerance 1e-9)",
    "the cloning operator Q for two repetitions is Q1 (x) Q1 as computed in floating point by the code; the certified instance is the exact image of that float array",
    "the see-saw start unitaries are made reproducible by seeding toqito.rand.random_unitary inside the harness process",
    "product bracket for cloning with two repetitions: the bracket [v1^2, w1^2] is certified for the exact operator cloneQ(exact dyadic images of states and priors) and its exact "
    "Kronecker square; the float operator toqito builds differs from it by <= 1e-12 per entry (checked), far below the tolerance 1e-3 on the returned value",
    "ext_reps: entries of the product game are products of at most three dyadic numbers with numerators below 2^7, hence exact in float64; equality is demanded",
]
TAU = 1e-3  # SCS
WIDTH_OK = 1e-4
MAX_PAIRS = 256


# ------------------------------------------------------------------------------------------------
# exact helpers


def _fr(x) -> Fraction:
    return Fraction(float(x))


def _lean_mat(r, n, m):
    """matrix returned by the driver ({"re":[[num,den]…],"im":[…]}) as arrays of Fractions"""
    re = np.array([Fraction(a, b) for a, b in r["mat"]["re"]], dtype=object).reshape(n, m)
    im = np.array([Fraction(a, b) for a, b in r["mat"]["im"]], dtype=object).reshape(n, m)
    return re, im


def _frac_arr(a):
    a = np.asarray(a, dtype=complex)
    f = np.vectorize(lambda x: Fraction(float(x)), otypes=[object])
    return f(a.real), f(a.imag)


def _same(re1, im1, re2, im2):
    return bool(np.all(re1 == re2) and np.all(im1 == im2))


def _dm_perm(M: DM, idx):
    """M[np.ix_(idx, idx)] exactly"""
    return DM(M.re[np.ix_(idx, idx)], M.im[np.ix_(idx, idx)], M.e)


def _ri(a):
    a = np.asarray(a, dtype=complex)
    return {"re": a.real.tolist(), "im": a.imag.tolist()}


def _from_ri(d):
    re = np.array(d["re"], dtype=float)
    im = np.array(d["im"], dtype=float)
    return re + 1j * im if np.any(im != 0) else re


def _dy_ceil(x, bits=30):
    return Fraction(int(np.ceil(x * (1 << bits))), 1 << bits)


# order (outputs, inputs) -> toqito's order, replicas of hedgeSigma2 / cloneSigma2 (tied to the Lean functions by tie_checks)
def _bits(p, w):
    return [(p >> (w - 1 - k)) & 1 for k in range(w)]


SIG_H2 = np.array([8 * b[0] + 4 * b[2] + 2 * b[1] + b[3] for b in (_bits(p, 4) for p in range(16))])
SIG_C2 = np.array([32 * b[0] + 16 * b[2] + 8 * b[4] + 4 * b[1] + 2 * b[3] + b[5] for b in (_bits(p, 6) for p in range(64))])


# ------------------------------------------------------------------------------------------------
# Part 1: extended games


def gen_game(rng, quick):
    while True:
        d = int(rng.choice([2, 2, 3]))
        A, B = int(rng.integers(1, 4)), int(rng.integers(1, 4))
        X, Y = int(rng.integers(1, 4)), int(rng.integers(1, 4))
        if A ** X * B ** Y <= (64 if quick else MAX_PAIRS) and A * B * X * Y >= 2:
            break
    # one game in five: a predicate that is invariant under exchanging the players, V(a,b|x,y) = V(b,a|y,x), with a question distribution
    # that is NOT symmetric (the optimum may then sit at a pair (f, g) whose mirror image (g, f) is worse)
    sym = A == B and X == Y and X >= 2 and rng.integers(2) == 0
    cplx = bool(rng.integers(2))
    pred = np.zeros((d, d, A, B, X, Y), dtype=complex if cplx else float)
    for a, b, x, y in itertools.product(range(A), range(B), range(X), range(Y)):
        r = int(rng.integers(1, d + 1))
        V = rng.integers(-3, 4, size=(d, r)).astype(complex)
        if cplx:
            V = V + 1j * rng.integers(-3, 4, size=(d, r))
        if rng.integers(6) == 0:
            V = V * 0
        P = V @ V.conj().T
        t = max(1.0, float(np.trace(P).real))
        k = int(np.ceil(np.log2(t)))
        P = P / float(1 << k)  # exact dyadic, operator norm <= 1
        pred[:, :, a, b, x, y] = P if cplx else P.real
    if sym:
        for a, b, x, y in itertools.product(range(A), range(B), range(X), range(Y)):
            if (a, x) < (b, y):
                pred[:, :, b, a, y, x] = pred[:, :, a, b, x, y]
    cells = X * Y
    if cells == 1:
        prob = np.array([[1.0]])
    else:
        pr = qgen.dyadic_probs(rng, cells, bits=5)
        if cells >= 3 and rng.integers(4) == 0:
            pr[0], pr[1] = pr[0] + pr[1], 0.0
        prob = np.array(pr).reshape(X, Y)
        if sym and np.array_equal(prob, prob.T):
            prob[0, 1], prob[1, 0] = prob[0, 1] + prob[1, 0], 0.0
    return {"kind": "exchange-symmetric" if sym else "random", "prob": prob, "pred": pred, "cplx": cplx}


def corpus_games():
    out = []
    # echo game: Alice must answer her question (the reproducer of the constant-answer defect)
    pred = np.zeros((2, 2, 2, 2, 2, 1))
    for x in range(2):
        for b in range(2):
            pred[:, :, x, b, x, 0] = np.eye(2)
    out.append({"kind": "echo", "prob": np.array([[0.5], [0.5]]), "pred": pred, "cplx": False})
    # BB84 extended game (symmetric, constant answers optimal, value cos^2(pi/8))
    e0, e1 = np.array([[1.0], [0.0]]), np.array([[0.0], [1.0]])
    ep, em = (e0 + e1) / 2.0, (e0 - e1) / 2.0  # |+><+| = 2 ep ep^T
    bb = np.zeros((2, 2, 2, 2, 2, 2))
    bb[:, :, 0, 0, 0, 0] = e0 @ e0.T
    bb[:, :, 1, 1, 0, 0] = e1 @ e1.T
    bb[:, :, 0, 0, 1, 1] = 2 * ep @ ep.T
    bb[:, :, 1, 1, 1, 1] = 2 * em @ em.T
    out.append({"kind": "bb84", "prob": np.array([[0.5, 0.0], [0.0, 0.5]]), "pred": bb, "cplx": False, "closed": float(np.cos(np.pi / 8) ** 2)})
    # echo game with a complex referee operator and unequal alphabets: Bob must echo, Alice free
    pc = np.zeros((2, 2, 1, 3, 1, 3), dtype=complex)
    Pc = np.array([[0.5, 0.25j], [-0.25j, 0.5]])
    for y in range(3):
        pc[:, :, 0, y, 0, y] = Pc
    out.append({"kind": "echo-bob-complex", "prob": np.array([[0.25, 0.25, 0.5]]), "pred": pc, "cplx": True})
    return out


def game_json(prob, pred):
    d, _, A, B, X, Y = pred.shape
    return {"d": d, "nA": A, "nB": B, "nX": X, "nY": Y,
            "prob": [frac_json(_fr(prob[x, y])) for x in range(X) for y in range(Y)],
            "pred": [DM.exact_float(pred[:, :, a, b, x, y]).json() for a in range(A) for b in range(B) for x in range(X) for y in range(Y)]}


def avg_op(prob, pred, f, g):
    d, _, A, B, X, Y = pred.shape
    M = np.zeros((d, d), dtype=complex)
    for x in range(X):
        for y in range(Y):
            M = M + prob[x, y] * pred[:, :, f[x], g[y], x, y]
    return M


def certify_unent(drv, gj, prob, pred, const: bool):
    """certified interval of max over answer functions (const=False) or over constant answers (const=True)"""
    d, _, A, B, X, Y = pred.shape
    if const:
        pairs = [((a,) * X, (b,) * Y) for a in range(A) for b in range(B)]
    else:
        pairs = [(f, g) for f in itertools.product(range(A), repeat=X) for g in itertools.product(range(B), repeat=Y)]
    ops = [avg_op(prob, pred, f, g) for f, g in pairs]
    eig = [np.linalg.eigh((M + M.conj().T) / 2) for M in ops]
    tops = [float(w[-1]) for w, _ in eig]
    ib = int(np.argmax(tops))
    f, g = pairs[ib]
    v = DM.from_float(eig[ib][1][:, -1].reshape(-1, 1), 30)
    if const:
        r = drv.ask("c09_unent_const_lower", dict(gj, a=int(f[0]) if X else 0, b=int(g[0]) if Y else 0, v=v.json()))
    else:
        r = drv.ask("c09_unent_lower", dict(gj, f=[int(t) for t in f], g=[int(t) for t in g], v=v.json()))
    lo = r["ok"][0] / r["ok"][1] if "ok" in r else None
    why = [] if lo is not None else ["lower:" + r.get("reject", "?")]
    c = _dy_ceil(tops[ib] + 2.0 ** -20)
    Ls = []
    for M in ops:
        L = chol_factor(float(c) * np.eye(d) - M, bits=40)
        if L is None:
            why.append("upper:cholesky")
            return lo, None, why, (f, g), tops[ib]
        Ls.append(L.json())
    r = drv.ask("c09_unent_const_upper" if const else "c09_unent_upper", dict(gj, c=frac_json(c), Ls=Ls))
    hi = float(c) if r.get("ok") is True else None
    if hi is None:
        why.append("upper:" + r.get("reject", "?"))
    return lo, hi, why, (f, g), tops[ib]


def _seed_seesaw(seed):
    import toqito.nonlocal_games.extended_nonlocal_game as eng
    from toqito.rand import random_unitary
    cnt = {"n": 0}

    def ru(dim, *a, **k):
        cnt["n"] += 1
        return random_unitary(dim, *a, seed=seed * 1000 + cnt["n"], **k)
    eng.random_unitary = ru


def work_game(task, res: Result):
    from toqito.nonlocal_games.extended_nonlocal_game import ExtendedNonlocalGame
    warnings.filterwarnings("ignore")
    inst, calls, seed = task
    drv = worker_driver()
    prob, pred = np.asarray(inst["prob"], dtype=float), np.asarray(inst["pred"])
    d, _, A, B, X, Y = pred.shape
    gj = game_json(prob, pred)
    base = {"part": "game", "kind": inst["kind"], "shape": [d, A, B, X, Y], "cplx": inst["cplx"], "prob": prob.tolist(), "pred": _ri(pred)}
    # ---- tie of the model's operator to the code's indexing pred_mat[:, :, a, b, x, y]
    lo, hi, why, (f, g), top = certify_unent(drv, gj, prob, pred, const=False)
    r = drv.ask("c09_avgop", dict(gj, f=[int(t) for t in f], g=[int(t) for t in g]))
    lre, lim = _lean_mat(r, d, d)
    M = avg_op(prob, pred, f, g)
    Mx = sum((DM.exact_float(pred[:, :, f[x], g[y], x, y]).scale_dy(*(lambda q: (q.numerator, q.denominator.bit_length() - 1))(_fr(prob[x, y]))) for x in range(X) for y in range(Y)), DM.eye(d).scale_dy(0, 0))
    xre = np.vectorize(lambda t: Fraction(int(t), 1 << Mx.e), otypes=[object])(Mx.re)
    xim = np.vectorize(lambda t: Fraction(int(t), 1 << Mx.e), otypes=[object])(Mx.im)
    res.case(dict(base, fn="avgOperator", f=list(f), g=list(g)), A * B > 1 and X * Y > 1, "game/avgop")
    if not _same(lre, lim, xre, xim) or float(np.max(np.abs(M - (lre.astype(float) + 1j * lim.astype(float))))) > 1e-12:
        res.violation("avgOperator (Lean model) differs from sum_xy prob[x,y]*pred[:,:,f[x],g[y],x,y] (harness/model indexing error)",
                      {"function": "avgOperator", "args": dict(base, f=list(f), g=list(g)), "theorem": "toM_avgOperator"})
        return
    lo_c, hi_c, why_c, (fc, gc), top_c = certify_unent(drv, gj, prob, pred, const=True)
    cert = lo is not None and hi is not None and hi - lo <= WIDTH_OK
    cert_c = lo_c is not None and hi_c is not None and hi_c - lo_c <= WIDTH_OK
    if not cert:
        res.count("uncertified/unent:" + ";".join(why)[:60])
    if not cert_c:
        res.count("uncertified/unent-const:" + ";".join(why_c)[:60])
    if cert and cert_c and lo_c > hi + 1e-9:
        res.violation("certified constant-answer value exceeds the certified unentangled value (harness error)", {"function": "harness", "args": base, "certified": [lo, hi], "mirror_const": [lo_c, hi_c]})
        return
    if "closed" in inst and cert and not (lo - 1e-6 <= inst["closed"] <= hi + 1e-6):
        res.violation("certified unentangled value disagrees with the known closed form (harness or cited value wrong)", {"function": "closed-form", "args": base, "closed": inst["closed"], "certified": [lo, hi]})
    gap = (lo - hi_c) if (cert and cert_c) else 0.0
    unequal = (A != B) or (X != Y)
    # the same values in a presentation drawn for this task; the game object keeps references to the arrays handed over
    prng = call_rng(inst.get("pres"), "game")
    a_prob, a_pred = present_nd(prng, prob.copy()), present_nd(prng, pred.copy())
    guard = Pure(a_prob, a_pred)
    base["pres"] = inst.get("pres")
    game = ExtendedNonlocalGame(a_prob, a_pred)
    vals = {}
    ns_bound = float(sum(prob[x, y] * max(np.linalg.eigvalsh((pred[:, :, a, b, x, y] + pred[:, :, a, b, x, y].conj().T) / 2)[-1] for a in range(A) for b in range(B)) for x in range(X) for y in range(Y)))
    for name in calls:
        desc = dict(base, fn=name)
        try:
            if name == "unentangled":
                v = game.unentangled_value()
            elif name == "nonsignaling":
                v = game.nonsignaling_value()
            elif name == "npa1":
                v = game.commuting_measurement_value_upper_bound(1)
            elif name == "npa2":
                v = game.commuting_measurement_value_upper_bound(2)
            elif name == "seesaw":
                _seed_seesaw(seed)
                v = game.quantum_value_lower_bound(iters=2)
            else:
                continue
            v = float(v)
            if guard is not None and guard.modified() is not None:
                res.violation(f"ExtendedNonlocalGame.{name}: caller's arguments were modified ({guard.modified()}; arg0 = prob_mat, arg1 = pred_mat)",
                              {"function": name, "args": desc, "modified": guard.modified(), "presentation": describe([a_prob, a_pred]), "check": "purity"})
                guard = None
        except (ArithmeticError, ZeroDivisionError):
            res.case(desc, False, f"game/{name}/solver-numerical-failure")
            continue
        except Exception as e:
            res.case(desc, True, f"game/{name}/raise")
            res.violation(f"ExtendedNonlocalGame.{name} raises {type(e).__name__}: {str(e)[:100]} on a valid game of shape (d,A,B,X,Y)={d, A, B, X, Y}",
                          {"function": name, "args": desc, "exception": f"{type(e).__name__}: {str(e)[:300]}", "shape": [d, A, B, X, Y], "presentation": describe([a_prob, a_pred])})
            continue
        if not np.isfinite(v):
            res.case(desc, False, f"game/{name}/solver-nonfinite")
            continue
        vals[name] = v
        res.case(desc, cert and (gap >= 1e-2 or unequal), f"game/{name}/{'c' if inst['cplx'] else 'r'}/{'gap' if gap >= 1e-2 else 'nogap'}")
        if name == "unentangled":
            # the mirror interval (max over constant answers = what the loop of the unchanged code computes) is diagnostic only:
            # it classifies a failure of the property, it is not a requirement of the property
            in_mirror = bool(cert_c and lo_c - TAU <= v <= hi_c + TAU)
            res.count("game/unentangled/" + ("equals-constant-answer-optimum" if in_mirror else "differs-from-constant-answer-optimum"))
            if cert and not (lo - TAU <= v <= hi + TAU):
                res.violation(f"unentangled_value = {v:.6f} but the unentangled value (max over answer functions of lambda_max) is certified in [{lo:.6f}, {hi:.6f}]; best functions f={list(f)}, g={list(g)}",
                              {"function": "unentangled_value", "kind": "spec", "args": desc, "impl": v, "certified": [lo, hi], "mirror_const": [lo_c, hi_c] if cert_c else None, "best_functions": [list(f), list(g)], "tau": TAU,
                               "theorem": "unentangled_eq_max_over_functions / checkUnentLower_sound / checkUnentUpper_sound"})
        elif name in ("npa1", "npa2"):
            if cert and v < lo - TAU:
                res.violation(f"commuting_measurement_value_upper_bound({name[-1]}) = {v:.6f} is below the certified unentangled value >= {lo:.6f} (an achievable value): not an upper bound",
                              {"function": "commuting_measurement_value_upper_bound", "k": int(name[-1]), "args": desc, "impl": v, "certified_unentangled": [lo, hi], "mirror_const": [lo_c, hi_c] if cert_c else None, "tau": TAU,
                               "theorem": "checkUnentLower_sound (achieved value)"})
        elif name == "nonsignaling":
            if cert and v < lo - TAU:
                res.violation(f"nonsignaling_value = {v:.6f} is below the certified unentangled value >= {lo:.6f}", {"function": "nonsignaling_value", "args": desc, "impl": v, "certified_unentangled": [lo, hi], "tau": TAU, "theorem": "checkUnentLower_sound"})
            if v > ns_bound + TAU:
                res.violation(f"nonsignaling_value = {v:.6f} exceeds sum_xy pi(x,y) max_ab ||P_abxy|| = {ns_bound:.6f}", {"function": "nonsignaling_value", "args": desc, "impl": v, "bound": ns_bound, "tau": TAU})
    # ---- the same object again, after every other method has run on it
    if "unentangled" in vals:
        try:
            v2 = float(game.unentangled_value())
            res.count("repeat-call/unentangled")
            if abs(v2 - vals["unentangled"]) > 1e-9:
                res.violation(f"unentangled_value: a second call on the same game (after {calls}) returns {v2!r}, the first returned {vals['unentangled']!r}",
                              {"function": "unentangled_value", "kind": "repeat", "args": dict(base, fn="unentangled"), "values": [vals["unentangled"], v2], "presentation": describe([a_prob, a_pred]), "check": "repeat"})
        except Exception as e:  # noqa: BLE001
            res.violation(f"unentangled_value raises {type(e).__name__} on a second call", {"function": "unentangled_value", "kind": "repeat", "args": dict(base, fn="unentangled"), "exception": str(e)[:300]})
    # ---- ordering of the returned floats
    for k in ("npa1", "npa2"):
        if k in vals and "nonsignaling" in vals and vals[k] > vals["nonsignaling"] + 2 * TAU:
            res.violation(f"NPA bound {k} = {vals[k]:.6f} exceeds the non-signalling value {vals['nonsignaling']:.6f}", {"function": "ordering-npa-ns", "args": base, "values": vals, "tau": TAU})
        if k in vals and "seesaw" in vals and vals["seesaw"] > vals[k] + 2 * TAU:
            res.violation(f"quantum_value_lower_bound = {vals['seesaw']:.6f} (an achieved value) exceeds commuting_measurement_value_upper_bound({k[-1]}) = {vals[k]:.6f}",
                          {"function": "commuting_measurement_value_upper_bound", "k": int(k[-1]), "via": "seesaw", "args": base, "values": vals, "impl": vals[k], "certified_unentangled": [lo, hi] if cert else None, "tau": TAU})
    if "npa1" in vals and "npa2" in vals and vals["npa2"] > vals["npa1"] + 2 * TAU:
        res.violation(f"NPA level 2 = {vals['npa2']:.6f} exceeds level 1 = {vals['npa1']:.6f}", {"function": "ordering-npa-levels", "args": base, "values": vals, "tau": TAU})
    if "seesaw" in vals and "nonsignaling" in vals and vals["seesaw"] > vals["nonsignaling"] + 2 * TAU:
        res.violation(f"quantum_value_lower_bound = {vals['seesaw']:.6f} exceeds the non-signalling value {vals['nonsignaling']:.6f}", {"function": "ordering-seesaw-ns", "args": base, "values": vals, "tau": TAU})


# ------------------------------------------------------------------------------------------------
# Parts 2 and 3: hedging / cloning programs on C^a (x) C^b


def _ref_solve(prob):
    import cvxpy as cp
    last = None
    for kw in (dict(solver=cp.CLARABEL), dict(solver=cp.SCS, eps=1e-9, max_iters=50000)):
        try:
            prob.solve(**kw)
            if prob.status in ("optimal", "optimal_inaccurate") and all(v.value is not None for v in prob.variables()):
                return
        except Exception as e:
            last = e
    raise RuntimeError(f"reference solve failed: {last}")


def _ptr1_expr(Xv, a, b):
    return sum(Xv[i * b:(i + 1) * b, i * b:(i + 1) * b] for i in range(a))


def ref_points(Qs, a, b, want_min, real_dual=False):
    """untrusted reference solves in the order (outputs, inputs): returns dict of float arrays"""
    import cvxpy as cp
    n = a * b
    out = {}
    Xv = cp.Variable((n, n), hermitian=True)
    cons = [Xv >> 0, _ptr1_expr(Xv, a, b) == np.eye(b)]
    obj = cp.real(cp.trace(Qs @ Xv))
    p = cp.Problem(cp.Maximize(obj), cons)
    _ref_solve(p)
    out["Xmax"] = np.array(Xv.value)
    Yv = cp.Variable((b, b), symmetric=True) if real_dual else cp.Variable((b, b), hermitian=True)
    p = cp.Problem(cp.Minimize(cp.real(cp.trace(Yv))), [cp.kron(np.eye(a), Yv) - Qs >> 0])
    _ref_solve(p)
    out["Ymax"] = np.array(Yv.value)
    out["dmax"] = float(p.value)
    if want_min:
        p = cp.Problem(cp.Minimize(obj), cons)
        _ref_solve(p)
        out["Xmin"] = np.array(Xv.value)
        p = cp.Problem(cp.Maximize(cp.real(cp.trace(Yv))), [Qs - cp.kron(np.eye(a), Yv) >> 0])
        _ref_solve(p)
        out["Ymin"] = np.array(Yv.value)
        out["dmin"] = float(p.value)
    return out


def repair_primal(Xf, a, b, eps_bits=22):
    """exact dyadic X with X > 0 and Tr_1 X = 1 from an approximately feasible float X (order: outputs, inputs)"""
    n = a * b
    la = a.bit_length() - 1
    assert 1 << la == a
    Xh = DM.from_float((Xf + Xf.conj().T) / 2, 40).herm_part()
    I = DM.eye(n)
    X1 = Xh.scale_dy((1 << eps_bits) - 1, eps_bits) + I.scale_dy(1, eps_bits + la)  # (1-eps) X + eps I/a
    # partial trace over the first factor, exactly
    T = DM(np.zeros((b, b), dtype=object), np.zeros((b, b), dtype=object), X1.e)
    for i in range(a):
        T = T + DM(X1.re[i * b:(i + 1) * b, i * b:(i + 1) * b], X1.im[i * b:(i + 1) * b, i * b:(i + 1) * b], X1.e)
    D = DM.eye(b) - T
    Dk = DM(np.kron(np.eye(a, dtype=object).astype(object), D.re), np.kron(np.eye(a, dtype=object).astype(object), D.im), D.e).scale_dy(1, la)
    return X1 + Dk


def kron_I(a, Y: DM):
    return DM(np.kron(np.eye(a, dtype=object).astype(object), Y.re), np.kron(np.eye(a, dtype=object).astype(object), Y.im), Y.e)


def certify_programs(drv, Q0: DM, a, b, mode, want_min, refs):
    """mode: 'n1' (operators already in the order outputs, inputs), 'hedge2', 'clone2' (toqito's order, Lean reindexes).
    returns dict max=(lo,hi) min=(lo,hi) why=[...]"""
    n = a * b
    sig = {"n1": np.arange(n), "hedge2": SIG_H2, "clone2": SIG_C2}[mode]
    inv = np.argsort(sig)
    Qs = _dm_perm(Q0, sig)  # (reindex sigma Q)[p,q] = Q[sigma p, sigma q]
    pre = {"n1": "c09_hedge", "hedge2": "c09_hedge2", "clone2": "c09_clone2"}[mode]
    ab = {"a": a, "b": b} if mode == "n1" else {}
    why = []
    out = {"max": [None, None], "min": [None, None]}

    def primal(Xf):
        Xs = repair_primal(Xf, a, b)
        L = chol_factor(Xs.to_float(), bits=44)
        if L is None:
            why.append("primal:cholesky")
            return None
        r = drv.ask(pre + "_primal", dict(ab, Q=Q0.json(), X=_dm_perm(Xs, inv).json(), L=L.json()))
        if "ok" in r:
            return r["ok"][0] / r["ok"][1]
        why.append("primal:" + r.get("reject", "?"))
        return None

    def dual(Yf, is_max):
        Y = DM.from_float((Yf + Yf.conj().T) / 2, 40).herm_part()
        Y = Y + DM.eye(b).scale_dy(1, 23) if is_max else Y - DM.eye(b).scale_dy(1, 23)
        S = (kron_I(a, Y) - Qs) if is_max else (Qs - kron_I(a, Y))
        L = chol_factor(S.to_float(), bits=44)
        if L is None:
            why.append("dual:cholesky")
            return None
        r = drv.ask(pre + ("_max_dual" if is_max else "_min_dual"), dict(ab, Q=Q0.json(), Y=Y.json(), L=L.json()))
        if "ok" in r:
            return r["ok"][0] / r["ok"][1]
        why.append("dual:" + r.get("reject", "?"))
        return None

    out["max"] = [primal(refs["Xmax"]), dual(refs["Ymax"], True)]
    if want_min:
        out["min"] = [dual(refs["Ymin"], False), primal(refs["Xmin"])]
    out["why"] = why
    return out


def gen_q4(rng, cplx, rank):
    V = rng.integers(-4, 5, size=(4, rank)).astype(complex)
    if cplx:
        V = V + 1j * rng.integers(-4, 5, size=(4, rank))
    w = rng.integers(1, 5, size=rank)
    Q = (V * w) @ V.conj().T
    t = max(1.0, float(np.trace(Q).real))
    Q = Q / float(1 << int(np.ceil(np.log2(t))))
    return Q if cplx else Q.real


def mw_ops():
    """the operators of the class docstring (Molina-Watrous example): q1 = w w^T, q0 = 1 - ... as built there"""
    e = np.eye(4)
    al, th = 1 / np.sqrt(2), np.pi / 8
    w = al * np.cos(th) * e[:, [0]] + np.sqrt(1 - al ** 2) * np.sin(th) * e[:, [3]]
    l1 = -al * np.sin(th) * e[:, [0]] + np.sqrt(1 - al ** 2) * np.cos(th) * e[:, [3]]
    l2 = al * np.sin(th) * e[:, [2]]
    l3 = np.sqrt(1 - al ** 2) * np.cos(th) * e[:, [1]]
    q1 = w @ w.conj().T
    q0 = l1 @ l1.conj().T + l2 @ l2.conj().T + l3 @ l3.conj().T
    return q0, q1


def work_hedge(task, res: Result):
    from toqito.nonlocal_games.quantum_hedging import QuantumHedging
    warnings.filterwarnings("ignore")
    inst = task
    drv = worker_driver()
    Q, n, cplx = np.asarray(inst["Q"]), inst["n"], inst["cplx"]
    a = b = 2 ** n
    mode = "n1" if n == 1 else "hedge2"
    Q0 = DM.exact_float(Q)
    if not Q0.is_herm():
        Q0 = Q0.herm_part()
        Q = Q0.to_float() if cplx else Q0.to_float().real
    Qf = Q0.to_float()
    sig = np.arange(a * b) if n == 1 else SIG_H2
    Qs = Qf[np.ix_(sig, sig)]
    base = {"part": "hedge", "kind": inst["kind"], "n": n, "cplx": cplx, "Q": _ri(Q)}
    try:
        refs = ref_points(Qs, a, b, True)
        cert = certify_programs(drv, Q0, a, b, mode, True, refs)
    except RuntimeError:
        res.count("uncertified/hedge-ref-solve")
        cert = {"max": [None, None], "min": [None, None], "why": ["ref"]}
        refs = {}
    (mlo, mhi), (nlo, nhi) = cert["max"], cert["min"]
    okmax = mlo is not None and mhi is not None and mhi - mlo <= WIDTH_OK
    okmin = nlo is not None and nhi is not None and nhi - nlo <= WIDTH_OK
    if not okmax or not okmin:
        res.count("uncertified/hedge:" + ";".join(cert.get("why", []))[:60])
    if okmax and okmin and nlo > mhi + 1e-9:
        res.violation("certified minimum exceeds certified maximum (harness error)", {"function": "harness", "args": base, "max": [mlo, mhi], "min": [nlo, nhi]})
        return
    for key, val, tol in inst.get("closed", []):
        L, H = (mlo, mhi) if key == "max" else (nlo, nhi)
        if L is not None and H is not None and not (L - tol <= val <= H + tol):
            res.violation(f"certified {key} [{L:.8f},{H:.8f}] disagrees with the closed form {val:.8f} (harness or cited value wrong)", {"function": "closed-form", "args": base, "closed": val, "certified": [L, H]})
    realdual = {}
    if cplx and refs:
        try:
            rr = ref_points(Qs, a, b, True, real_dual=True)
            realdual = {"max": rr["dmax"], "min": rr["dmin"]}
        except RuntimeError:
            pass
    lam = float(np.linalg.eigvalsh(Qf)[-1])
    trq = float(np.trace(Qf).real) / a
    prng = call_rng(inst.get("pres"), "hedge")
    a_Q = present_nd(prng, np.array(Q, copy=True))
    guard = Pure(a_Q)
    base["pres"] = inst.get("pres")
    again = n == 1 and prng is not None and int(prng.integers(3)) == 0
    h = QuantumHedging(a_Q, n)
    vals = {}
    for name, fn, which in (("max_prob_outcome_a_primal", h.max_prob_outcome_a_primal, "max"), ("max_prob_outcome_a_dual", h.max_prob_outcome_a_dual, "max"),
                            ("min_prob_outcome_a_primal", h.min_prob_outcome_a_primal, "min"), ("min_prob_outcome_a_dual", h.min_prob_outcome_a_dual, "min")):
        desc = dict(base, fn=name)
        try:
            v = float(fn())
            if guard is not None and guard.modified() is not None:
                res.violation(f"QuantumHedging.{name}: caller's arguments were modified ({guard.modified()})",
                              {"function": name, "args": desc, "modified": guard.modified(), "presentation": describe(a_Q), "cplx": cplx, "check": "purity"})
                guard = None
            if again:
                v2 = float(fn())   # the SAME object again
                res.count("repeat-call/hedge")
                if np.isfinite(v) and np.isfinite(v2) and abs(v2 - v) > 2 * TAU:
                    res.violation(f"QuantumHedging.{name}: a second call on the same object returns {v2:.6f}, the first returned {v:.6f}",
                                  {"function": name, "args": desc, "values": [v, v2], "presentation": describe(a_Q), "cplx": cplx, "check": "repeat"})
        except (ArithmeticError, ZeroDivisionError):
            res.case(desc, False, f"hedge/{name}/solver-numerical-failure")
            continue
        except Exception as e:
            res.case(desc, True, f"hedge/{name}/raise")
            res.violation(f"QuantumHedging.{name} raises {type(e).__name__}: {str(e)[:120]}", {"function": name, "args": desc, "exception": f"{type(e).__name__}: {str(e)[:300]}", "cplx": cplx, "presentation": describe(a_Q)})
            continue
        if not np.isfinite(v):
            res.case(desc, False, f"hedge/{name}/solver-nonfinite")
            continue
        vals[name] = v
        L, H = (mlo, mhi) if which == "max" else (nlo, nhi)
        ok = okmax if which == "max" else okmin
        if which == "max":
            nontriv = ok and trq + 1e-2 <= L and H <= b * lam - 1e-2
        else:
            nontriv = ok and 1e-2 <= L and H <= trq - 1e-2
        res.case(desc, nontriv, f"hedge/n{n}/{name}/{'c' if cplx else 'r'}")
        if ok and not (L - TAU <= v <= H + TAU):
            res.violation(f"QuantumHedging.{name} (n={n}) = {v:.6f} outside the certified optimum [{L:.6f}, {H:.6f}]",
                          {"function": name, "args": desc, "impl": v, "certified": [L, H], "which": which, "cplx": cplx, "real_restricted_dual": realdual.get(which), "tau": TAU,
                           "theorem": ("checkHedgeMaxPrimal_sound / checkHedgeMaxDual_sound" if which == "max" else "checkHedgeMinPrimal_sound / checkHedgeMinDual_sound") + ("" if n == 1 else " via checkHedge*_reindex_sound")})
    for which in ("max", "min"):
        p, dl = vals.get(f"{which}_prob_outcome_a_primal"), vals.get(f"{which}_prob_outcome_a_dual")
        ok = okmax if which == "max" else okmin
        if p is not None and dl is not None and not ok and abs(p - dl) > 2 * TAU:
            res.violation(f"QuantumHedging {which}: primal {p:.6f} and dual {dl:.6f} disagree (n={n})",
                          {"function": f"{which}_prob_outcome_a_dual", "args": dict(base, fn="primal-dual"), "impl": dl, "primal": p, "which": which, "cplx": cplx, "real_restricted_dual": realdual.get(which), "uncertified": True, "tau": TAU})
    pm, pn = vals.get("max_prob_outcome_a_primal"), vals.get("min_prob_outcome_a_primal")
    if pm is not None and pn is not None and pn > pm + 2 * TAU:
        res.violation(f"QuantumHedging: minimal probability {pn:.6f} exceeds maximal probability {pm:.6f}", {"function": "min_le_max", "args": base, "values": vals, "theorem": "hedging_min_le_max"})


def clone_q_float(states, probs):
    """the code's formula (optimal_clone): Q = sum p_k |psi psi conj(psi)><psi psi conj(psi)|"""
    d3 = len(states[0]) ** 3
    q = np.zeros((d3, d3), dtype=complex)
    for p, s in zip(probs, states):
        t = np.kron(np.kron(s, s), s.conj())
        q = q + p * t @ t.conj().T
    return q


def gen_ensemble(rng):
    k = int(rng.integers(2, 5))
    states = []
    for _ in range(k):
        v = qgen.int_vector(rng, 2, False, lim=5).real
        states.append((v / np.linalg.norm(v)).reshape(2, 1))
    return states, qgen.dyadic_probs(rng, k)


def work_clone(task, res: Result):
    import importlib
    oc = importlib.import_module("toqito.state_opt.optimal_clone")
    warnings.filterwarnings("ignore")
    inst = task
    drv = worker_driver()
    states = [np.asarray(s, dtype=float).reshape(2, 1) for s in inst["states"]]
    probs = [float(p) for p in inst["probs"]]
    n = inst["n"]
    base = {"part": "clone", "kind": inst["kind"], "n": n, "states": [s.reshape(-1).tolist() for s in states], "probs": probs}
    # ---- the operator the code builds (captured) against the Lean model's cloneQ on the exact image of the inputs
    captured = {}
    orig_dual, orig_primal = oc.dual_problem, oc.primal_problem

    def cap_dual(q_a, pperm, num_reps):
        captured["q"], captured["pperm"] = np.array(q_a), np.array(pperm)
        return orig_dual(q_a, pperm, num_reps)

    def cap_primal(q_a, pperm, num_reps):
        captured["q"], captured["pperm"] = np.array(q_a), np.array(pperm)
        return orig_primal(q_a, pperm, num_reps)
    oc.dual_problem, oc.primal_problem = cap_dual, cap_primal
    vals = {}
    try:
        for name, strat in (("dual", False), ("primal", True)):
            desc = dict(base, fn="optimal_clone", strategy=strat, pres=inst.get("pres"))
            a_states, a_probs = present_list(call_rng(inst.get("pres"), "clone", name), states), list(probs)
            guard = Pure(a_states, a_probs)
            try:
                vals[name] = float(oc.optimal_clone(a_states, a_probs, n, strat))
                if guard.modified() is not None:
                    res.violation(f"optimal_clone(strategy={strat}, num_reps={n}): caller's arguments were modified ({guard.modified()})",
                                  {"function": "optimal_clone", "kind": "purity", "args": desc, "modified": guard.modified(), "presentation": describe(a_states), "check": "purity"})
            except (ArithmeticError, ZeroDivisionError):
                res.case(desc, False, f"clone/n{n}/{name}/solver-numerical-failure")
            except Exception as e:
                res.case(desc, True, f"clone/n{n}/{name}/raise")
                res.violation(f"optimal_clone(strategy={strat}, num_reps={n}) raises {type(e).__name__}: {str(e)[:120]}", {"function": "optimal_clone", "args": desc, "exception": f"{type(e).__name__}: {str(e)[:300]}", "presentation": describe(a_states)})
    finally:
        oc.dual_problem, oc.primal_problem = orig_dual, orig_primal
    r = drv.ask("c09_clone_q", {"m": 2, "states": [DM.exact_float(s).json() for s in states], "probs": [frac_json(_fr(p)) for p in probs]})
    lre, lim = _lean_mat(r, 8, 8)
    Q1 = lre.astype(float) + 1j * lim.astype(float)
    if "q" in captured:
        qc = captured["q"]
        want = Q1.real if n == 1 else np.kron(Q1.real, Q1.real)
        if qc.shape != want.shape or float(np.max(np.abs(qc - want))) > 1e-12:
            res.violation("the operator Q built by optimal_clone differs from the model's cloneQ (sum_k p_k |psi psi conj psi><psi psi conj psi|)", {"function": "optimal_clone", "kind": "Q", "args": base, "max_abs_diff": float(np.max(np.abs(qc - want))) if qc.shape == want.shape else None, "theorem": "cloning_weak_duality (Q = cloneQ)"})
            return
        Qarr = qc
    else:
        Qarr = Q1.real if n == 1 else np.kron(Q1.real, Q1.real)
    a, b = (4, 2) if n == 1 else (16, 4)
    mode = "n1" if n == 1 else "clone2"
    Q0 = DM.exact_float(Qarr)
    if not Q0.is_herm():
        Q0 = Q0.herm_part()
    Qf = Q0.to_float()
    sig = np.arange(8) if n == 1 else SIG_C2
    lo = hi = None
    why = []
    if inst.get("certify", True):
        try:
            Q1s = DM.exact_float(Q1.real).to_float()
            refs = ref_points(Q1s, 4, 2, False)
            if n == 2:
                # Q >= 0: X1 (x) X1 and Y1 (x) Y1 are feasible for two repetitions (A >= B >= 0 implies A (x) A >= B (x) B), so the
                # optimum is multiplicative; candidates in toqito's order Y1 Z1 X1 Y2 Z2 X2, brought to (outputs, inputs) by sigma
                X2 = np.kron(refs["Xmax"], refs["Xmax"])
                refs = {"Xmax": X2[np.ix_(SIG_C2, SIG_C2)], "Ymax": np.kron(refs["Ymax"], refs["Ymax"])}
            cert = certify_programs(drv, Q0, a, b, mode, False, refs)
            lo, hi = cert["max"]
            why = cert["why"]
        except RuntimeError:
            why = ["ref"]
    ok = lo is not None and hi is not None and hi - lo <= WIDTH_OK
    if inst.get("certify", True) and not ok:
        res.count("uncertified/clone:" + ";".join(why)[:60])
    for val, tol in inst.get("closed", []):
        if ok and not (lo - tol <= val <= hi + tol):
            res.violation(f"certified cloning optimum [{lo:.8f},{hi:.8f}] disagrees with the closed form {val:.8f} (harness or cited value wrong)", {"function": "closed-form", "args": base, "closed": val, "certified": [lo, hi]})
    trq = float(np.trace(Qf).real) / a
    lam = float(np.linalg.eigvalsh(Qf)[-1])
    # two repetitions through the product theorem: both factors certified by the single-shot checkers (no 64 x 64 certificates)
    plo = phi = None
    if n == 2:
        whyp = []
        plo, phi, Q1x = clone_product_bracket(drv, states, probs, whyp)
        okp = plo is not None and phi - plo <= WIDTH_OK
        if not okp:
            res.count("uncertified/clone-product:" + ";".join(whyp)[:60])
            plo = phi = None
        else:
            res.count("clone/n2/product-certified")
            q1f = Q1x.to_float().real
            if float(np.max(np.abs(Qarr - np.kron(q1f, q1f)))) > 1e-12:
                res.violation("the operator Q (x) Q built by optimal_clone(num_reps=2) differs from the Kronecker square of the exact single-shot operator by more than 1e-12",
                              {"function": "optimal_clone", "kind": "Q2", "args": base, "theorem": "clone2_product_bracket (Q = kronE Q1 Q1)"})
                return
            if ok and (plo > hi + 1e-9 or phi < lo - 1e-9):
                res.violation("product bracket and directly certified interval of the two-fold optimum are disjoint (harness error)", {"function": "harness", "args": base, "product": [plo, phi], "certified": [lo, hi]})
                return
    for name, v in vals.items():
        desc = dict(base, fn="optimal_clone", strategy=(name == "primal"))
        cl, ch = (lo, hi) if ok else (plo, phi)
        res.case(desc, cl is not None and trq + 1e-2 <= cl and ch <= min(1.0, b * lam) - 1e-2, f"clone/n{n}/{name}")
        if plo is not None and not (plo - TAU <= v <= phi + TAU):
            res.violation(f"optimal_clone(strategy={name == 'primal'}, num_reps=2) = {v:.6f} outside the product bracket [{plo:.6f}, {phi:.6f}] = [v1^2, w1^2] of the certified single-shot optimum",
                          {"function": "optimal_clone", "args": desc, "impl": v, "certified": [plo, phi], "tau": TAU, "via": "product", "theorem": "clone2_product_bracket / cloning_reps_multiplicative"})
            continue
        if ok and not (lo - TAU <= v <= hi + TAU):
            res.violation(f"optimal_clone(strategy={name == 'primal'}, num_reps={n}) = {v:.6f} outside the certified optimum [{lo:.6f}, {hi:.6f}]",
                          {"function": "optimal_clone", "args": desc, "impl": v, "certified": [lo, hi], "tau": TAU, "theorem": "cloning_weak_duality / checkHedgeMaxPrimal_sound / checkHedgeMaxDual_sound" + ("" if n == 1 else " via checkHedge*_reindex_sound")})
    if "primal" in vals and "dual" in vals and abs(vals["primal"] - vals["dual"]) > 2 * TAU:
        res.violation(f"optimal_clone: primal {vals['primal']:.6f} and dual {vals['dual']:.6f} disagree (num_reps={n})", {"function": "optimal_clone", "kind": "primal-dual", "args": base, "values": vals, "tau": TAU, "theorem": "cloning_weak_duality"})
    if "single" in inst and "dual" in vals:
        s1 = inst["single"]
        if vals["dual"] < s1 ** 2 - 2 * TAU or vals["dual"] > s1 + 2 * TAU:
            res.violation(f"optimal_clone: two-repetition value {vals['dual']:.6f} inconsistent with the single-shot optimum {s1:.6f} (must lie in [s^2, s])", {"function": "optimal_clone", "kind": "reps", "args": base, "values": vals, "single": s1})



# ------------------------------------------------------------------------------------------------
# two repetitions through the product theorems (hedge2_product_bracket / clone2_product_bracket): both factors certified by the
# single-shot checkers, bracket [v1 v2, w1 w2] of the two-fold maximum from the driver op c09_product2


def _four_squares(m):
    """(s1, s2, s3, s4) with s1^2 + s2^2 + s3^2 + s4^2 = m (Lagrange; brute force, m small)"""
    r = int(np.floor(np.sqrt(m)))
    for s1 in range(r, -1, -1):
        for s2 in range(0, s1 + 1):
            t = m - s1 * s1 - s2 * s2
            if t < 0:
                break
            for s3 in range(0, s2 + 1):
                u = t - s3 * s3
                if u < 0:
                    break
                s4 = int(round(np.sqrt(u)))
                if s4 * s4 == u:
                    return s1, s2, s3, s4
    raise InfraError(f"no four-square decomposition found for {m}")


def _pad_cols(M: DM, n):
    re = np.zeros((M.re.shape[0], n), dtype=object)
    im = np.zeros((M.re.shape[0], n), dtype=object)
    re[...] = 0
    im[...] = 0
    k = M.re.shape[1]
    re[:, :k], im[:, :k] = M.re, M.im
    return DM(re, im, M.e)


def _factor_json(Q: DM, LQ: DM, a, b, why):
    """single-shot certificate candidates for the exact operator Q (order outputs, inputs): dict for c09_product2, or None"""
    Qf = Q.to_float()
    try:
        refs = ref_points(Qf, a, b, False)
    except RuntimeError:
        why.append("ref")
        return None
    Xs = repair_primal(refs["Xmax"], a, b)
    L = chol_factor(Xs.to_float(), bits=44)
    Yf = refs["Ymax"]
    Y = DM.from_float((Yf + Yf.conj().T) / 2, 40).herm_part() + DM.eye(b).scale_dy(1, 23)
    Ld = chol_factor((kron_I(a, Y) - Q).to_float(), bits=44)
    if L is None or Ld is None:
        why.append("cholesky")
        return None
    return {"Q": Q.json(), "X": Xs.json(), "L": L.json(), "Y": Y.json(), "Ld": Ld.json(), "LQ": LQ.json()}


def product_bracket(drv, a, b, Q: DM, f1, f2, why):
    if f1 is None or f2 is None:
        return None, None
    r = drv.ask("c09_product2", {"a": a, "b": b, "Q": Q.json(), "f1": f1, "f2": f2})
    if "lo" in r:
        return r["lo"][0] / r["lo"][1], r["hi"][0] / r["hi"][1]
    why.append("product2:" + r.get("reject", "?"))
    return None, None


def gen_sq_factor(rng, cplx):
    """PSD 4x4 operator V V^H / 4^k from a random integer matrix V (rank 1..4) with the exact factor V / 2^k"""
    r = int(rng.integers(1, 5))
    while True:
        V = rng.integers(-4, 5, size=(4, r)).astype(complex)
        if cplx:
            V = V + 1j * rng.integers(-4, 5, size=(4, r))
        t = float(np.trace(V @ V.conj().T).real)
        if t > 0:
            break
    k = max(0, int(np.ceil(np.log2(t) / 2)))
    return {"V": V, "k": k}


def _sq_factor_dm(f):
    V = DM.from_int(f["V"])
    Q = (V @ V.H()).scale_dy(1, 2 * f["k"])
    return Q, _pad_cols(V.scale_dy(1, f["k"]), 4)


def work_hedge_product(task, res: Result):
    """QuantumHedging(np.kron(Q1, Q2), 2).max_prob_outcome_a_primal/dual against the bracket of hedge2_product_bracket"""
    from toqito.nonlocal_games.quantum_hedging import QuantumHedging
    warnings.filterwarnings("ignore")
    drv = worker_driver()
    cplx = task["cplx"]
    (Q1, LQ1), (Q2, LQ2) = _sq_factor_dm(task["f1"]), _sq_factor_dm(task["f2"])
    Q1f, Q2f = Q1.to_float(), Q2.to_float()
    Qf = np.kron(Q1f, Q2f)
    Qf = Qf if cplx else Qf.real
    Q0 = DM.exact_float(Qf)
    base = {"part": "hedge_product", "cplx": cplx, "n": 2, "f1": {"V": _ri(task["f1"]["V"]), "k": task["f1"]["k"]}, "f2": {"V": _ri(task["f2"]["V"]), "k": task["f2"]["k"]}, "pres": task.get("pres")}
    why = []
    lo, hi = product_bracket(drv, 2, 2, Q0, _factor_json(Q1, LQ1, 2, 2, why), _factor_json(Q2, LQ2, 2, 2, why), why)
    ok = lo is not None and hi - lo <= WIDTH_OK
    if not ok:
        res.count("uncertified/hedge-product:" + ";".join(why)[:60])
    prng = call_rng(task.get("pres"), "hedge_product")
    a_Q = present_nd(prng, np.array(Qf, copy=True))
    guard = Pure(a_Q)
    h = QuantumHedging(a_Q, 2)
    trq = float(np.trace(Qf).real) / 4
    lam = float(np.linalg.eigvalsh(Q0.to_float())[-1])
    for name, fn in (("max_prob_outcome_a_primal", h.max_prob_outcome_a_primal), ("max_prob_outcome_a_dual", h.max_prob_outcome_a_dual)):
        desc = dict(base, fn=name)
        try:
            v = float(fn())
        except (ArithmeticError, ZeroDivisionError):
            res.case(desc, False, f"hedge-product/{name}/solver-numerical-failure")
            continue
        except Exception as e:  # noqa: BLE001
            res.case(desc, True, f"hedge-product/{name}/raise")
            res.violation(f"QuantumHedging.{name} (n=2, Q = kron(Q1, Q2)) raises {type(e).__name__}: {str(e)[:120]}", {"function": name, "args": desc, "exception": f"{type(e).__name__}: {str(e)[:300]}"})
            continue
        if guard is not None and guard.modified() is not None:
            res.violation(f"QuantumHedging.{name}: caller's arguments were modified ({guard.modified()})", {"function": name, "args": desc, "modified": guard.modified(), "check": "purity"})
            guard = None
        if not np.isfinite(v):
            res.case(desc, False, f"hedge-product/{name}/solver-nonfinite")
            continue
        res.case(desc, bool(ok and trq + 1e-2 <= lo and hi <= 4 * lam - 1e-2), f"hedge-product/{name}/{'c' if cplx else 'r'}")
        if ok and not (lo - TAU <= v <= hi + TAU):
            res.violation(f"QuantumHedging.{name} (n=2, Q = kron(Q1, Q2)) = {v:.6f} outside the product bracket [{lo:.6f}, {hi:.6f}] = [v1 v2, w1 w2] of the certified single-shot optima",
                          {"function": name, "args": desc, "impl": v, "certified": [lo, hi], "tau": TAU, "theorem": "hedge2_product_bracket (hedging_reps_multiplicative)"})


def clone_product_bracket(drv, states, probs, why):
    """bracket of the two-fold counterfeiting optimum for the exact operator Q1 = cloneQ(exact images of the inputs), by clone2_product_bracket"""
    S = [DM.exact_float(np.asarray(s, dtype=float).reshape(2, 1)) for s in states]
    cols, Q1 = [], None
    for s, p in zip(S, probs):
        t = DM(np.kron(np.kron(s.re, s.re), s.re), np.kron(np.kron(s.im, s.im), s.im) * 0, 3 * s.e)   # real states: t = s (x) s (x) s
        fp = Fraction(float(p))
        bb = fp.denominator.bit_length() - 1
        m = fp.numerator
        if bb % 2:
            m, bb = 2 * m, bb + 1
        if m == 0:
            continue
        s1, s2, s3, s4 = _four_squares(m)
        for (cr, ci) in ((s1, s2), (s3, s4)):
            if cr == 0 and ci == 0:
                continue
            cols.append(DM(t.re * cr, t.re * ci, t.e + bb // 2))
        term = (t @ t.H()).scale_dy(fp.numerator, fp.denominator.bit_length() - 1)
        Q1 = term if Q1 is None else Q1 + term
    if Q1 is None or len(cols) > 8:
        why.append("factor")
        return None, None, None
    e = max(c.e for c in cols)
    LQ = DM(np.concatenate([c.at(e).re for c in cols], axis=1), np.concatenate([c.at(e).im for c in cols], axis=1), e)
    LQ = _pad_cols(LQ, 8)
    f = _factor_json(Q1, LQ, 4, 2, why)
    Q2 = DM(np.kron(Q1.re, Q1.re), np.kron(Q1.re, Q1.im) * 0, 2 * Q1.e)
    lo, hi = product_bracket(drv, 4, 2, Q2, f, f, why)
    return lo, hi, Q1

# ------------------------------------------------------------------------------------------------
# tie checks of the index conventions (exact integer data, in the parent)


def tie_checks(ctx):
    from toqito.channels import partial_trace
    from toqito.nonlocal_games.quantum_hedging import QuantumHedging
    from toqito.perms import permutation_operator
    drv = ctx.lean()
    rng = ctx.rng

    def rint(nn):
        return rng.integers(-9, 10, size=(nn, nn)) + 1j * rng.integers(-9, 10, size=(nn, nn))

    def cmp(what, lean_r, want, shape):
        lre, lim = _lean_mat(lean_r, *shape)
        wre, wim = _frac_arr(want)
        ctx.case({"tie": what}, True, "tie/" + what)
        if not _same(lre, lim, wre, wim):
            ctx.violation(f"index convention: {what}: Lean model and the toqito helper call used by the program disagree", {"function": "tie:" + what, "args": {"tie": what}, "theorem": "toM_ptr1 / unflat_kronIY / toM_reindex"})

    # partial traces exactly as the programs call them
    for what, op, n, sys, dims, extra, shape in (
            ("hedge-n1 partial_trace(X,[0],[2,2])", "c09_ptr1", 4, [0], [2, 2], {"a": 2, "b": 2}, (2, 2)),
            ("clone-n1 partial_trace(X,[0,1],[2,2,2])", "c09_ptr1", 8, [0, 1], [2, 2, 2], {"a": 4, "b": 2}, (2, 2)),
            ("hedge-n2 partial_trace(X,[0,2],[2]*4)", "c09_hedge2_ptr1", 16, [0, 2], [2] * 4, {}, (4, 4)),
            ("clone-n2 partial_trace(X,[0,1,3,4],[2]*6)", "c09_clone2_ptr1", 64, [0, 1, 3, 4], [2] * 6, {}, (4, 4))):
        Xi = rint(n)
        cmp(what, drv.ask(op, dict(extra, X=DM.from_int(Xi).json())), partial_trace(Xi, sys, dims), shape)
    # dual constraints: the code's pi (1 (x) Y) pi^H read through sigma is 1 (x) Y; the code's pi Q pi^H is reindex sigma Q
    Yi = rint(4)
    hp = QuantumHedging(np.eye(16), 2)._pperm
    C = hp @ np.kron(np.eye(4), Yi) @ hp.conj().T
    k1 = drv.ask("c09_kron_iy", {"a": 4, "b": 4, "Y": DM.from_int(Yi).json()})
    cmp("hedge-n2 pperm (1 (x) Y) pperm^H", drv.ask("c09_hedge2_reindex", {"M": DM.from_int(np.round(C)).json()}), np.array(_lean_mat(k1, 16, 16)[0].astype(float) + 1j * _lean_mat(k1, 16, 16)[1].astype(float)), (16, 16))
    cmp("kron(eye(4), Y)", k1, np.kron(np.eye(4), Yi), (16, 16))
    cp_ = permutation_operator(2, [0, 3, 1, 4, 2, 5])
    Qi = rint(64)
    cmp("clone-n2 pperm Q pperm^H", drv.ask("c09_clone2_reindex", {"M": DM.from_int(Qi).json()}), np.round(cp_ @ Qi @ cp_.conj().T), (64, 64))
    # the index lists the code builds for n repetitions (QuantumHedging.__init__: _sys, _dim, _pperm; optimal_clone: perm, sys, dim)
    # against the Lean mirrors hedgeSys / hedgeDim / hedgePerm / cloneSys / clonePerm (theorem pperm_is_interleaving)
    import importlib
    oc = importlib.import_module("toqito.state_opt.optimal_clone")
    for n in (1, 2, 3):
        lst = drv.ask("c09_index_lists", {"n": n})
        h = QuantumHedging(np.eye(4 ** n), n)
        ctx.case({"tie": f"hedge index lists n={n}"}, True, "tie/index-lists")
        # private attributes: a mismatch means that the implementation no longer has the modelled structure (correspondence break, not a verdict);
        # the semantic consequences of a wrong list are caught by prog_embedding and by the certified values.  For n = 1 `_pperm` is not modelled.
        try:
            want_pp = None if n == 1 else permutation_operator(2, lst["hedge_perm"])
            same = list(h._sys) == lst["hedge_sys"] and list(h._dim) == lst["hedge_dim"] and (want_pp is None or (np.shape(h._pperm) == np.shape(want_pp) and np.array_equal(np.asarray(h._pperm), want_pp)))
        except Exception as e:  # noqa: BLE001
            same = False
            ctx.broken.append(f"QuantumHedging(., {n}): attributes _sys / _dim / _pperm not available as modelled ({type(e).__name__}: {str(e)[:100]})")
        if not same:
            ctx.broken.append(f"QuantumHedging(., {n}): _sys / _dim / _pperm differ from the Lean mirror hedgeSys / hedgeDim / permutation_operator(2, hedgePerm) = {lst['hedge_sys']} / {lst['hedge_perm']}")
        rec = {}
        o_pt, o_po = oc.partial_trace, oc.permutation_operator

        def r_pt(x, sys=None, dim=None, *a, **k):
            rec["sys"], rec["dim"] = list(sys), list(dim)
            return o_pt(x, sys, dim, *a, **k)

        def r_po(dim, perm, *a, **k):
            rec["perm"] = [int(t) for t in perm]
            return o_po(dim, perm, *a, **k)
        oc.partial_trace, oc.permutation_operator = r_pt, r_po
        try:
            e0c, e1c = np.array([[1.0], [0.0]]), np.array([[0.0], [1.0]])
            for strat in ((True, False) if n <= 2 else (False,)):
                try:
                    caps = _capture(lambda: oc.optimal_clone([e0c, e1c], [0.5, 0.5], n, strat))
                except Exception as e:  # noqa: BLE001  (a raise on valid input is reported by work_clone / prog_embedding)
                    caps = None
                    ctx.broken.append(f"optimal_clone(num_reps={n}, strategy={strat}) raises {type(e).__name__} while building its program: {str(e)[:120]}")
                if caps is not None and len(caps) != 1:
                    ctx.broken.append(f"optimal_clone(num_reps={n}, strategy={strat}) built {len(caps)} problems")
        finally:
            oc.partial_trace, oc.permutation_operator = o_pt, o_po
        ctx.case({"tie": f"clone index lists n={n}"}, True, "tie/index-lists")
        bad = (n >= 2 and rec.get("perm") != lst["clone_perm"]) or (n <= 2 and (rec.get("sys") != lst["clone_sys"] or rec.get("dim") != [2] * (3 * n)))
        if bad:
            ctx.broken.append(f"optimal_clone(num_reps={n}): perm / sys / dim {rec} differ from the Lean mirror clonePerm / cloneSys {lst['clone_perm']} / {lst['clone_sys']}")
    # the code's formula for the cloning operator on complex integer 'states' (the function itself accepts real states only)
    sts = [(rng.integers(-3, 4, size=(2, 1)) + 1j * rng.integers(-3, 4, size=(2, 1))) for _ in range(3)]
    pr = [0.5, 0.25, 0.25]
    r = drv.ask("c09_clone_q", {"m": 2, "states": [DM.from_int(s).json() for s in sts], "probs": [frac_json(_fr(p)) for p in pr]})
    cmp("cloneQ formula", r, clone_q_float(sts, pr), (8, 8))


# ------------------------------------------------------------------------------------------------
# Part 4: stream ext_embedding — feasibility embedding into the problems that toqito builds (scheme B, last paragraph)
#
# The cvxpy `Problem` of `commuting_measurement_value_upper_bound(k)` / `nonsignaling_value()` is recorded inside the worker process
# (cvxpy.Problem.solve replaced by a recorder that aborts the call; restored in `finally`).  An unentangled strategy — answer
# functions (f, g) and a referee state rho — is the point
#     R = rho (x) z z^T   (code layout: R[p*dim + i, q*dim + j] = rho[p, q] z_i z_j;  block (i, j) = R[i::dim, j::dim] = z_i z_j rho),
#     K(.,.|x, y) = E_{f x, g y} (x) rho,
# with z = values of the words under (f, g) from the Lean model (`c07_npa_embed`; theorems `ext_embed_psd`, `ext_embed_blocks`,
# `ext_embed_normalised`, `ext_embed_objective`).  Every captured constraint must hold at that point and the captured objective
# must equal Re tr(M_{f,g} rho) (Lean `c09_avgop`, recomputed independently with Fractions from prob_mat/pred_mat).

EMB_TOL = 1e-10   # deterministic embeddings: 0/1 word values and the float image of a rational rho
QEMB_TOL = 1e-9   # moments of random commuting projective measurements on a random tripartite state (float algebra)
# (d, A, B, X, Y)
EXT_SHAPES_QUICK = [(2, 2, 2, 2, 2), (2, 2, 3, 2, 1), (2, 3, 2, 1, 2), (3, 2, 2, 2, 2), (2, 2, 3, 2, 2), (2, 3, 2, 2, 3), (3, 2, 3, 3, 2),
                    (2, 3, 3, 2, 2), (2, 2, 2, 3, 3), (3, 3, 2, 2, 3), (2, 1, 3, 1, 2), (3, 3, 1, 2, 1)]
EXT_SHAPES_MORE = [(3, 3, 3, 2, 2), (2, 3, 3, 3, 3), (3, 2, 3, 2, 3), (3, 3, 2, 3, 1), (2, 2, 2, 1, 3), (3, 1, 2, 3, 3)]


class _Captured(Exception):
    pass


def _capture(fn):
    """runs fn() with cvxpy.Problem.solve replaced (this process only, restored afterwards) by a recorder that keeps the Problem
    object and aborts the call; returns the recorded problems"""
    import cvxpy

    captured = []
    orig = cvxpy.Problem.solve

    def fake(self, *a, **kw):
        captured.append(self)
        raise _Captured()

    cvxpy.Problem.solve = fake
    try:
        try:
            fn()
        except _Captured:
            pass
    finally:
        cvxpy.Problem.solve = orig
    return captured


def _psd_residual(M):
    """residual of `M >> 0` read as: M Hermitian and positive semidefinite (cvxpy's own PSD.residual symmetrises with the plain
    transpose, which is blind to the imaginary part)"""
    M = np.asarray(M, dtype=complex)
    if M.ndim != 2 or M.shape[0] != M.shape[1]:
        return float("inf")
    herm = float(np.max(np.abs(M - M.conj().T))) if M.size else 0.0
    lam = float(np.linalg.eigvalsh((M + M.conj().T) / 2)[0]) if M.size else 0.0
    return max(herm, -lam, 0.0)


def _attr_residual(v):
    """distance of the value of a cvxpy variable from the set its declaration allows (hermitian=True, real, symmetric, ...):
    declared attributes are constraints of the program although they are not members of `Problem.constraints`"""
    val = np.asarray(v.value)
    r = float(np.max(np.abs(np.asarray(v.project(val)) - val))) if val.size else 0.0
    if not v.is_complex() and np.iscomplexobj(val):
        r = max(r, float(np.max(np.abs(val.imag))))
    return r


def _residuals(P):
    """(max residual, [(index, kind, residual, text) ...]) of the current variable values in the captured problem: every member of
    P.constraints and the declared attributes of every variable"""
    out = []
    worst = 0.0
    for idx, c in enumerate(P.constraints):
        kind = type(c).__name__
        if kind == "PSD":
            r = _psd_residual(c.args[0].value)
        else:
            v = c.violation()
            r = float(np.max(np.abs(v))) if np.size(v) else 0.0
        if not np.isfinite(r):
            r = float("inf")
        worst = max(worst, r)
        out.append((idx, kind, r, str(c)[:160]))
    for v in P.variables():
        r = _attr_residual(v)
        worst = max(worst, r)
        out.append((-1, "attributes:" + (v.name() or "var")[:30], r, f"declared attributes {[k for k, a in v.attributes.items() if a]} of variable {v.name()} {v.shape}"))
    return worst, out


def _bad(rows, tol):
    return [[i, k, r, t] for i, k, r, t in rows if not (r <= tol)]


def _bucket(r):
    if r == 0:
        return "0"
    if not np.isfinite(r):
        return "inf"
    return f"1e{int(np.ceil(np.log10(r)))}"


def _qfr(x):
    fr = Fraction(x)
    return [fr.numerator, fr.denominator]


def rand_rho(rng, d, kind):
    """exact rational density operator: sum_k w_k v_k v_k^H / trace with small complex integer vectors; kind 'pure' | 'mixed' | 'real'"""
    rank = 1 if kind == "pure" else int(rng.integers(2, d + 1))
    while True:
        re = np.zeros((d, d), dtype=object)
        im = np.zeros((d, d), dtype=object)
        for _ in range(rank):
            vr = [int(t) for t in rng.integers(-3, 4, size=d)]
            vi = [0] * d if kind == "real" else [int(t) for t in rng.integers(-3, 4, size=d)]
            w = int(rng.integers(1, 4))
            for p in range(d):
                for q in range(d):  # v_p conj(v_q)
                    re[p, q] += w * (vr[p] * vr[q] + vi[p] * vi[q])
                    im[p, q] += w * (vi[p] * vr[q] - vr[p] * vi[q])
        tr = sum(re[p, p] for p in range(d))
        offdiag_im = any(im[p, q] != 0 for p in range(d) for q in range(d))
        if tr > 0 and (kind == "real" or offdiag_im):
            break
    return {"kind": kind, "re": [[_qfr(Fraction(int(re[p, q]), int(tr))) for q in range(d)] for p in range(d)],
            "im": [[_qfr(Fraction(int(im[p, q]), int(tr))) for q in range(d)] for p in range(d)]}


def _rho_arrays(rj):
    fre = np.array([[Fraction(*e) for e in row] for row in rj["re"]], dtype=object)
    fim = np.array([[Fraction(*e) for e in row] for row in rj["im"]], dtype=object)
    return fre, fim, fre.astype(float) + 1j * fim.astype(float)


def gen_game_shape(rng, shape, cplx, generic=False):
    """game of a given shape (d, A, B, X, Y): PSD referee operators V V^H / 2^k from random integer matrices (rank 1..d, complex ones with
    genuinely complex off-diagonal entries), dyadic question distribution; generic: no zero operator, no zero probability"""
    d, A, B, X, Y = shape
    pred = np.zeros((d, d, A, B, X, Y), dtype=complex if cplx else float)
    for a, b, x, y in itertools.product(range(A), range(B), range(X), range(Y)):
        while True:
            r = int(rng.integers(1, d + 1))
            V = rng.integers(-3, 4, size=(d, r)).astype(complex)
            if cplx:
                V = V + 1j * rng.integers(-3, 4, size=(d, r))
            if not generic and rng.integers(8) == 0:
                V = V * 0
            Pm = V @ V.conj().T
            if not generic or (np.trace(Pm).real > 0 and (not cplx or np.max(np.abs(Pm.imag)) > 0)):
                break
        t = max(1.0, float(np.trace(Pm).real))
        Pm = Pm / float(1 << int(np.ceil(np.log2(t))))
        pred[:, :, a, b, x, y] = Pm if cplx else Pm.real
    cells = X * Y
    if cells == 1:
        prob = np.array([[1.0]])
    else:
        while True:
            pr = qgen.dyadic_probs(rng, cells, bits=5)
            if not generic or min(pr) > 0:
                break
        if not generic and cells >= 3 and rng.integers(4) == 0:
            pr[0], pr[1] = pr[0] + pr[1], 0.0
        prob = np.array(pr).reshape(X, Y)
    return {"kind": "generic" if generic else "random", "prob": prob, "pred": pred, "cplx": cplx}


def _exact_value(prob, pred, f, g, fre, fim):
    """sum_xy pi(x,y) Re tr(P[f x, g y, x, y] rho), exactly, from the arrays handed to toqito (independent of Lean and of cvxpy)"""
    d = pred.shape[0]
    tot = Fraction(0)
    for x in range(prob.shape[0]):
        for y in range(prob.shape[1]):
            Pm = pred[:, :, f[x], g[y], x, y]
            s = Fraction(0)
            for p in range(d):
                for q in range(d):  # Re(P[p,q] rho[q,p])
                    s += Fraction(float(np.real(Pm[p, q]))) * fre[q, p] - Fraction(float(np.imag(Pm[p, q]))) * fim[q, p]
            tot += Fraction(float(prob[x, y])) * s
    return tot


def _lean_value(drv, gj, d, f, g, fre, fim):
    """Re tr(avgOperator G f g * rho) with the Lean model's exact operator (theorem ext_embed_objective / avgOperator_eq_avgMat)"""
    r = drv.ask("c09_avgop", dict(gj, f=[int(t) for t in f], g=[int(t) for t in g]))
    mre, mim = _lean_mat(r, d, d)
    return sum((mre[p, q] * fre[q, p] - mim[p, q] * fim[q, p] for p in range(d) for q in range(d)), Fraction(0))


def _word_values(words, f, g):
    out = []
    for w in words:
        v = 1
        for s in w:
            if s.player == "Alice":
                v *= int(f[s.question] == s.answer)
            elif s.player == "Bob":
                v *= int(g[s.question] == s.answer)
        out.append(v)
    return out


def _level_args(k, A, X, B, Y):
    from toqito.helper import npa_hierarchy as nh
    args = {"ao": A, "ai": X, "bo": B, "bi": Y, "k": k}
    if isinstance(k, str):
        args["conf_order"] = [list(c) for c in nh._parse(k)[1]]
    return args


def _ext_npa_vars(P, shape):
    """(R, {(x, y): K_xy}, how) of the captured problem of ExtendedNonlocalGame.commuting_measurement_value_upper_bound"""
    import re
    d, A, B, X, Y = shape
    named, rvar = {}, None
    for v in P.variables():
        nm = v.name()
        mm = re.search(r"\|\s*(\d+)\s*,\s*(\d+)\s*\)", nm)
        if nm == "R":
            rvar = v
        elif mm and tuple(v.shape) == (A * d, B * d):
            named[(int(mm.group(1)), int(mm.group(2)))] = v
    if rvar is not None and sorted(named) == [(x, y) for x in range(X) for y in range(Y)] and len(P.variables()) == X * Y + 1:
        return rvar, named, "names"
    objv = sorted(P.objective.variables(), key=lambda v: v.id)
    rest = [v for v in P.variables() if all(v is not o for o in objv)]
    if len(objv) == X * Y and len(rest) == 1 and all(tuple(v.shape) == (A * d, B * d) for v in objv):
        return rest[0], {(x, y): objv[x * Y + y] for x in range(X) for y in range(Y)}, "creation-order"
    raise CorrespondenceBroken(f"cannot identify the variables of the captured extended NPA problem: {[(v.name(), v.shape) for v in P.variables()]}")


def _ext_desc(fn, inst, k, f, g, rho):
    prob, pred = np.asarray(inst["prob"], dtype=float), np.asarray(inst["pred"])
    d, _, A, B, X, Y = pred.shape
    return {"part": "ext_embed", "fn": fn, "kind": inst["kind"], "shape": [d, A, B, X, Y], "cplx": inst["cplx"], "k": k, "prob": prob.tolist(), "pred": _ri(pred),
            "f": [int(t) for t in f], "g": [int(t) for t in g], "rho": rho, "pres": inst.get("pres")}


def _ext_nontrivial(shape, cplx, f, g):
    d, A, B, X, Y = shape
    return bool(A * B >= 2 and X * Y >= 2 and (A != B or X != Y or cplx) and (len(set(f)) > 1 or len(set(g)) > 1 or A != B or X == 1 or Y == 1))


def _rand_unitary(rng, d):
    q, r = np.linalg.qr(rng.normal(size=(d, d)) + 1j * rng.normal(size=(d, d)))
    return q * (np.diag(r) / np.abs(np.diag(r)))


def _rand_projective(rng, d, n_out):
    cuts = np.sort(rng.integers(0, d + 1, size=n_out - 1))
    ranks = np.diff(np.concatenate([[0], cuts, [d]]))
    u = _rand_unitary(rng, d)
    out, pos = [], 0
    for r in ranks:
        cols = u[:, pos:pos + int(r)]
        out.append(cols @ cols.conj().T)
        pos += int(r)
    return out


def _quantum_strategy(shape, seed):
    """random commuting-measurement strategy: tripartite pure state u in C^d (x) C^dA (x) C^dB, projective measurements A_x (x) 1, 1 (x) B_y.
    returns (psi[p] = <p|u> as vectors of H, a_ops, b_ops)"""
    d, A, B, X, Y = shape
    rng = np.random.default_rng([9, seed])
    dA, dB = int(rng.integers(max(2, A), A + 2)), int(rng.integers(max(2, B), B + 2))
    a_ops = [[np.kron(p, np.eye(dB)) for p in _rand_projective(rng, dA, A)] for _ in range(X)]
    b_ops = [[np.kron(np.eye(dA), p) for p in _rand_projective(rng, dB, B)] for _ in range(Y)]
    u = rng.normal(size=(d, dA * dB)) + 1j * rng.normal(size=(d, dA * dB))
    u /= np.linalg.norm(u)
    return u, a_ops, b_ops, (dA, dB)


def _quantum_blocks(shape, u, a_ops, b_ops):
    """K(a,b|x,y)[p, q] = <p| Tr_H((1 (x) A_a^x B_b^y) |u><u|) |q> = <psi_q| A B |psi_p>"""
    d, A, B, X, Y = shape
    return {(a, b, x, y): np.array([[np.vdot(u[q], a_ops[x][a] @ (b_ops[y][b] @ u[p])) for q in range(d)] for p in range(d)])
            for a in range(A) for b in range(B) for x in range(X) for y in range(Y)}


def _quantum_value(shape, prob, pred, u, a_ops, b_ops):
    """sum pi(x,y) <u| P_abxy (x) A_a^x B_b^y |u>, directly on the tripartite vector"""
    d, A, B, X, Y = shape
    uv = u.reshape(-1)
    tot = 0.0
    for a in range(A):
        for b in range(B):
            for x in range(X):
                for y in range(Y):
                    if prob[x, y] != 0:
                        tot += float(prob[x, y]) * float(np.real(np.vdot(uv, np.kron(pred[:, :, a, b, x, y], a_ops[x][a] @ b_ops[y][b]) @ uv)))
    return float(tot)


def work_ext_npa(task, res: Result):
    """capture the problem of commuting_measurement_value_upper_bound(k) (referee dimension d > 1) and embed unentangled strategies"""
    from toqito.nonlocal_games.extended_nonlocal_game import ExtendedNonlocalGame
    from toqito.helper import npa_hierarchy as nh
    warnings.filterwarnings("ignore")
    inst, k = task["inst"], task["k"]
    drv = worker_driver()
    prob, pred = np.asarray(inst["prob"], dtype=float), np.asarray(inst["pred"])
    d, _, A, B, X, Y = pred.shape
    shape = (d, A, B, X, Y)
    base = _ext_desc("ext_npa_embed", inst, k, [], [], None)
    try:
        prng = call_rng(inst.get("pres"), "ext_npa", k)
        game = ExtendedNonlocalGame(present_nd(prng, prob.copy()), present_nd(prng, pred.copy()))
        probs = _capture(lambda: game.commuting_measurement_value_upper_bound(k))
    except Exception as e:  # noqa: BLE001
        res.case(base, True, "ext/npa/raise")
        res.violation(f"ExtendedNonlocalGame.commuting_measurement_value_upper_bound({k!r}) raises {type(e).__name__}: {str(e)[:160]} while building its problem for a valid game of shape (d,A,B,X,Y)={shape}",
                      {"function": "commuting_measurement_value_upper_bound", "args": base, "exception": f"{type(e).__name__}: {str(e)[:300]}", "shape": list(shape), "theorem": "ext_embed_blocks"})
        return
    if len(probs) != 1:
        raise CorrespondenceBroken(f"expected one cvxpy problem from commuting_measurement_value_upper_bound, captured {len(probs)}")
    P = probs[0]
    res.count("ext/npa/problems-captured")
    res.count("ext/npa/constraints-captured", len(P.constraints))
    rvar, kvars, how = _ext_npa_vars(P, shape)
    res.count(f"ext/npa/variables-identified-by-{how}")
    words = nh._gen_words(k, A, X, B, Y)
    dim = len(words)
    if tuple(rvar.shape) != (d * dim, d * dim):
        res.case(base, True, "ext/npa/moment-matrix-size")
        res.violation(f"moment matrix of the captured problem has shape {tuple(rvar.shape)}, expected d*|words| = {d}*{dim} (k={k!r}, shape {shape})",
                      {"function": "npa_constraints(referee_dim)", "args": base, "impl": list(rvar.shape), "model": [d * dim, d * dim], "theorem": "ext_embed_blocks"})
        return
    gj = game_json(prob, pred)
    largs = _level_args(k, A, X, B, Y)
    worst = 0.0
    first = True
    for f, g, ri in task["strategies"]:
        rj = task["rhos"][ri]
        fre, fim, rho = _rho_arrays(rj)
        desc = _ext_desc("ext_npa_embed", inst, k, f, g, rj)
        res.case(desc, _ext_nontrivial(shape, inst["cplx"], f, g), f"ext/npa/k={k}/d{d}/{'c' if inst['cplx'] else 'r'}/{rj['kind']}")
        m = drv.ask("c07_npa_embed", {**largs, "f": list(f), "g": list(g), "self_check": first})
        if "reject" in m:
            raise InfraError(f"driver rejected {largs} f={f} g={g}: {m}")
        if first and m["model_violated"]:
            raise InfraError(f"Lean model: the embedded scalar point violates model constraints {m['model_violated'][:3]} (contradicts npa_sound_det)")
        z = [Fraction(*v) for v in m["z"]]
        zc = _word_values(words, f, g)
        if len(z) != dim or any(a != b for a, b in zip(z, zc)):
            res.violation(f"word values of (f, g) = ({f}, {g}) over toqito's _gen_words({k!r}, {A}, {X}, {B}, {Y}) differ from the Lean model's detZ (word lists differ)",
                          {"function": "npa_hierarchy._gen_words", "args": desc, "impl": [int(t) for t in zc], "model": [str(t) for t in z], "theorem": "ext_embed_blocks (genWords)"})
            return
        zf = np.array([float(t) for t in z])
        rvar.save_value(np.kron(rho, np.outer(zf, zf)))
        for (x, y), v in kvars.items():
            E = np.zeros((A, B))
            E[f[x], g[y]] = 1.0
            v.save_value(np.kron(E, rho))
        w, rows = _residuals(P)
        bad = _bad(rows, EMB_TOL)
        worst = max(worst, w if not bad else 0.0)
        obj = float(P.objective.expr.value)
        exact = _exact_value(prob, pred, f, g, fre, fim)
        lean = _lean_value(drv, gj, d, f, g, fre, fim)
        if lean != exact:
            raise InfraError(f"Lean avgOperator value {lean} differs from the harness' exact Re tr(M rho) = {exact} on {desc['shape']} f={f} g={g}")
        if bad:
            res.violation(
                f"commuting_measurement_value_upper_bound({k!r}), game (d,A,B,X,Y)={shape}: the unentangled strategy f={list(f)}, g={list(g)}, rho ({rj['kind']}) — moment matrix "
                f"rho (x) z z^T, K(.,.|x,y) = E_(f x, g y) (x) rho — violates {len(bad)} of the {len(P.constraints)} constraints / variable declarations of the program the code "
                f"builds, e.g. {bad[0]}: the relaxation excludes a real strategy, its optimum is not an upper bound",
                {"function": "commuting_measurement_value_upper_bound / npa_constraints(referee_dim>1)", "args": desc, "violated": bad[:6], "z": [int(t) for t in z],
                 "theorem": "ext_embed_psd, ext_embed_blocks, ext_embed_normalised"})
        if not abs(Fraction(obj) - exact) <= Fraction(1, 10 ** 10):
            res.violation(
                f"commuting_measurement_value_upper_bound({k!r}): the captured objective at the strategy f={list(f)}, g={list(g)}, rho is {obj!r}; the strategy's value "
                f"Re tr(M_fg rho) is {float(exact)!r}",
                {"function": "commuting_measurement_value_upper_bound (objective)", "args": desc, "impl": obj, "model": str(exact), "theorem": "ext_embed_objective"})
        if first:
            # negative controls: the evaluation machinery must reject points that are not feasible
            r2 = np.kron(rho, np.outer(zf, zf))
            r2[0, 0] += 1.0
            rvar.save_value(r2)
            if not _bad(_residuals(P)[1], EMB_TOL):
                raise InfraError("negative control: a moment matrix with R[0,0] raised by 1 passed every captured constraint")
            rvar.save_value(np.kron(rho, np.outer(zf, zf)))
            if np.max(np.abs(rho.imag)) > 0:
                for (x, y), v in kvars.items():
                    E = np.zeros((A, B))
                    E[f[x], g[y]] = 1.0
                    v.save_value(np.kron(E, rho.T))
                if not _bad(_residuals(P)[1], EMB_TOL):
                    # legitimately possible when no word links a K block to an R block for this strategy (a player with a single
                    # answer has no measurement words): counted, not an error
                    res.count("ext/npa/negative-control-transposed-blocks-not-linked")
                else:
                    res.count("ext/npa/negative-control-transposed-blocks-detected")
            res.count("ext/npa/negative-control-detected")
        first = False
    res.count(f"ext/npa/max-residual-bucket/{_bucket(worst)}")
    # numerically: a random commuting-measurement strategy with an entangled tripartite state
    for seed in task.get("quantum_seeds", []):
        u, a_ops, b_ops, dims = _quantum_strategy(shape, seed)
        vecs = []
        for p in range(d):
            for w_ in words:
                v = u[p]
                for s in reversed(w_):
                    if s.player == "Alice":
                        v = a_ops[s.question][s.answer] @ v
                    elif s.player == "Bob":
                        v = b_ops[s.question][s.answer] @ v
                vecs.append(v)
        vm = np.array(vecs).T  # column p*dim + i = W_i psi_p
        rvar.save_value((vm.conj().T @ vm).conj())  # R[(p,i),(q,j)] = <W_j psi_q, W_i psi_p>
        blocks = _quantum_blocks(shape, u, a_ops, b_ops)
        for (x, y), v in kvars.items():
            v.save_value(np.block([[blocks[a, b, x, y] for b in range(B)] for a in range(A)]))
        value = _quantum_value(shape, prob, pred, u, a_ops, b_ops)
        desc = dict(_ext_desc("ext_npa_quantum", inst, k, [], [], None), seed=int(seed), dims=list(dims))
        res.case(desc, A * B >= 2 and X * Y >= 2, f"ext/npa-quantum/k={k}/d{d}")
        w, rows = _residuals(P)
        bad = _bad(rows, QEMB_TOL)
        obj = float(P.objective.expr.value)
        if bad:
            res.violation(
                f"commuting_measurement_value_upper_bound({k!r}), game {shape}: the moments of random commuting projective measurements on an entangled tripartite state "
                f"(local dims {dims}, seed {seed}) violate {len(bad)} constraints beyond {QEMB_TOL}, e.g. {bad[0]} — a commuting-measurement strategy is cut off",
                {"function": "commuting_measurement_value_upper_bound / npa_constraints(referee_dim>1) (quantum strategy)", "args": desc, "violated": bad[:6],
                 "theorem": "soundness for commuting-measurement strategies (numerical check; Johnston-Mittal-Russo-Watrous 2016, Sec. 5)"})
        else:
            res.count(f"ext/npa-quantum/max-residual-bucket/{_bucket(w)}")
        if not abs(obj - value) <= QEMB_TOL:
            res.violation(f"commuting_measurement_value_upper_bound({k!r}): captured objective {obj!r} differs from the value {value!r} of the commuting-measurement strategy (seed {seed})",
                          {"function": "commuting_measurement_value_upper_bound (objective, quantum strategy)", "args": desc, "impl": obj, "model": value, "theorem": "objective = <u| P (x) A B |u>"})


def _probe(d):
    """a fixed generic Hermitian d x d matrix (entries without arithmetic relations to the dyadic game data)"""
    r = np.random.default_rng(20240917)
    m = r.normal(size=(d, d)) + 1j * r.normal(size=(d, d))
    return (m + m.conj().T) / 2


def _probe_targets(shape, prob, pred):
    d, A, B, X, Y = shape
    T = _probe(d)
    return {(a, b, x, y): float(prob[x, y] * np.real(np.trace(pred[:, :, a, b, x, y].conj().T @ T)))
            for a in range(A) for b in range(B) for x in range(X) for y in range(Y)}


def _targets_distinct(target, sep=1e-7):
    vals = sorted(target.values())
    return not (any(abs(v) < sep for v in vals) or any(b - a < sep for a, b in zip(vals, vals[1:])))


def _ext_ns_identify(P, shape, prob, pred):
    """{(a, b, x, y): K-block variable} of the captured nonsignaling_value problem.  The variables carry no names: the blocks are the
    variables of the objective; block v belongs to (a, b, x, y) when the objective at "v = T, every other variable 0" equals
    prob[x, y] * Re tr(pred[:, :, a, b, x, y] T) for a fixed generic Hermitian T.  When this does not single out one index per block
    (ties, zero operators, or an objective that is wrong) the creation order of the variables (loops a, b, x, y) is used."""
    d, A, B, X, Y = shape
    objv = sorted(P.objective.variables(), key=lambda v: v.id)
    idx = [(a, b, x, y) for a in range(A) for b in range(B) for x in range(X) for y in range(Y)]
    if len(objv) != len(idx) or any(tuple(v.shape) != (d, d) for v in objv):
        raise CorrespondenceBroken(f"nonsignaling_value: expected {len(idx)} blocks {d}x{d} in the objective, found {[v.shape for v in objv][:5]}... ({len(objv)})")
    by_order = dict(zip(idx, objv))
    T = _probe(d)
    target = _probe_targets(shape, prob, pred)
    if not _targets_distinct(target):
        return by_order, "creation-order"
    zero = np.zeros((d, d), dtype=complex)
    for v in P.variables():
        v.save_value(zero)
    found = {}
    for v in objv:
        v.save_value(T)
        c = float(P.objective.expr.value)
        v.save_value(zero)
        hit = [t for t, q in target.items() if abs(q - c) <= 1e-12]
        if len(hit) != 1 or hit[0] in found:
            return by_order, "creation-order"
        found[hit[0]] = v
    return found, "objective-probing"


def _propagate(P):
    """give a value to every variable that an equality constraint `expression == variable` determines (sigma, rho, tau)"""
    import cvxpy

    changed = True
    while changed:
        changed = False
        for c in P.constraints:
            if type(c).__name__ != "Equality":
                continue
            lhs, rhs = c.args
            for u, w in ((lhs, rhs), (rhs, lhs)):
                if isinstance(w, cvxpy.Variable) and w.value is None and u.value is not None:
                    w.save_value(np.array(u.value, dtype=complex))
                    changed = True
    return [v for v in P.variables() if v.value is None]


def _ns_set(P, kvars, blocks):
    kset = {id(v) for v in kvars.values()}
    for v in P.variables():
        if id(v) not in kset:
            v.value = None
    for t, v in kvars.items():
        v.save_value(np.array(blocks[t], dtype=complex))
    unset = _propagate(P)
    for v in unset:
        v.save_value(np.zeros(v.shape, dtype=complex))
    return len(unset)


def work_ext_ns(task, res: Result):
    """capture the problem of ExtendedNonlocalGame.nonsignaling_value and embed unentangled strategies (deterministic behaviour times rho)"""
    from toqito.nonlocal_games.extended_nonlocal_game import ExtendedNonlocalGame
    warnings.filterwarnings("ignore")
    inst = task["inst"]
    drv = worker_driver()
    prob, pred = np.asarray(inst["prob"], dtype=float), np.asarray(inst["pred"])
    d, _, A, B, X, Y = pred.shape
    shape = (d, A, B, X, Y)
    base = _ext_desc("ext_ns_embed", inst, None, [], [], None)
    try:
        prng = call_rng(inst.get("pres"), "ext_ns")
        game = ExtendedNonlocalGame(present_nd(prng, prob.copy()), present_nd(prng, pred.copy()))
        probs = _capture(lambda: game.nonsignaling_value())
    except Exception as e:  # noqa: BLE001
        res.case(base, True, "ext/ns/raise")
        res.violation(f"ExtendedNonlocalGame.nonsignaling_value raises {type(e).__name__}: {str(e)[:160]} while building its problem for a valid game of shape {shape}",
                      {"function": "nonsignaling_value", "args": base, "exception": f"{type(e).__name__}: {str(e)[:300]}", "shape": list(shape), "theorem": "unent_le_ns"})
        return
    if len(probs) != 1:
        raise CorrespondenceBroken(f"expected one cvxpy problem from nonsignaling_value, captured {len(probs)}")
    P = probs[0]
    res.count("ext/ns/problems-captured")
    res.count("ext/ns/constraints-captured", len(P.constraints))
    kvars, how = _ext_ns_identify(P, shape, prob, pred)
    res.count(f"ext/ns/blocks-identified-by-{how}")
    gj = game_json(prob, pred)
    idx = list(kvars)
    worst = 0.0
    first = True
    for f, g, ri in task["strategies"]:
        rj = task["rhos"][ri]
        fre, fim, rho = _rho_arrays(rj)
        desc = _ext_desc("ext_ns_embed", inst, None, f, g, rj)
        res.case(desc, _ext_nontrivial(shape, inst["cplx"], f, g), f"ext/ns/d{d}/{'c' if inst['cplx'] else 'r'}/{rj['kind']}")
        unset = _ns_set(P, kvars, {t: rho * (1.0 if (f[t[2]] == t[0] and g[t[3]] == t[1]) else 0.0) for t in idx})
        if unset:
            res.count("ext/ns/variables-not-determined-by-equalities", unset)
        w, rows = _residuals(P)
        bad = _bad(rows, EMB_TOL)
        worst = max(worst, w if not bad else 0.0)
        obj = float(P.objective.expr.value)
        exact = _exact_value(prob, pred, f, g, fre, fim)
        lean = _lean_value(drv, gj, d, f, g, fre, fim)
        if lean != exact:
            raise InfraError(f"Lean avgOperator value {lean} differs from the harness' exact Re tr(M rho) = {exact}")
        if bad:
            res.violation(
                f"nonsignaling_value, game (d,A,B,X,Y)={shape}: the unentangled strategy f={list(f)}, g={list(g)}, rho ({rj['kind']}) — K(a,b|x,y) = [a=f x][b=g y] rho, marginal "
                f"operators from the equality constraints — violates {len(bad)} of the {len(P.constraints)} constraints / variable declarations, e.g. {bad[0]}: the program excludes a real strategy",
                {"function": "ExtendedNonlocalGame.nonsignaling_value", "args": desc, "violated": bad[:6], "identified_by": how, "theorem": "unent_le_ns"})
        if not abs(Fraction(obj) - exact) <= Fraction(1, 10 ** 10):
            res.violation(
                f"nonsignaling_value: the captured objective at the strategy f={list(f)}, g={list(g)}, rho is {obj!r}; the strategy's value Re tr(M_fg rho) is {float(exact)!r}",
                {"function": "ExtendedNonlocalGame.nonsignaling_value (objective)", "args": desc, "impl": obj, "model": str(exact), "identified_by": how, "theorem": "unent_le_ns (nsValue = unentValue)"})
        if first:
            t0 = idx[0]
            kvars[t0].save_value(-np.eye(d, dtype=complex))
            if not _bad(_residuals(P)[1], EMB_TOL):
                raise InfraError("negative control: a block K = -1 passed every captured constraint of nonsignaling_value")
            res.count("ext/ns/negative-control-detected")
        first = False
    res.count(f"ext/ns/max-residual-bucket/{_bucket(worst)}")
    for seed in task.get("quantum_seeds", []):
        u, a_ops, b_ops, dims = _quantum_strategy(shape, seed)
        _ns_set(P, kvars, _quantum_blocks(shape, u, a_ops, b_ops))
        value = _quantum_value(shape, prob, pred, u, a_ops, b_ops)
        desc = dict(_ext_desc("ext_ns_quantum", inst, None, [], [], None), seed=int(seed), dims=list(dims))
        res.case(desc, A * B >= 2 and X * Y >= 2, f"ext/ns-quantum/d{d}")
        w, rows = _residuals(P)
        bad = _bad(rows, QEMB_TOL)
        obj = float(P.objective.expr.value)
        if bad:
            res.violation(f"nonsignaling_value, game {shape}: the assemblage of a commuting-measurement strategy (local dims {dims}, seed {seed}) violates {len(bad)} constraints beyond {QEMB_TOL}, e.g. {bad[0]}",
                          {"function": "ExtendedNonlocalGame.nonsignaling_value (quantum strategy)", "args": desc, "violated": bad[:6], "identified_by": how, "theorem": "commuting-measurement assemblages are non-signalling (numerical check)"})
        else:
            res.count(f"ext/ns-quantum/max-residual-bucket/{_bucket(w)}")
        if not abs(obj - value) <= QEMB_TOL:
            res.violation(f"nonsignaling_value: captured objective {obj!r} differs from the value {value!r} of the commuting-measurement strategy (seed {seed})",
                          {"function": "ExtendedNonlocalGame.nonsignaling_value (objective, quantum strategy)", "args": desc, "impl": obj, "model": value, "identified_by": how, "theorem": "objective = <u| P (x) A B |u>"})


def _pick_strategies(rng, shape, cap):
    d, A, B, X, Y = shape
    total = A ** X * B ** Y
    if total <= cap:
        return [(list(f), list(g)) for f in itertools.product(range(A), repeat=X) for g in itertools.product(range(B), repeat=Y)]
    out, seen = [], set()
    while len(out) < cap:
        f = [int(t) for t in rng.integers(0, A, size=X)]
        g = [int(t) for t in rng.integers(0, B, size=Y)]
        if (tuple(f), tuple(g)) not in seen:
            seen.add((tuple(f), tuple(g)))
            out.append((f, g))
    return out


def ext_tasks(ctx, quick):
    rng = ctx.rng
    cap = 36 if quick else 200
    k2_budget = 4 if quick else 7  # (A-1) X + (B-1) Y: size of the alphabet of projector symbols
    shapes = EXT_SHAPES_QUICK + ([] if quick else EXT_SHAPES_MORE)
    npa, ns = [], []
    for shape in shapes:
        d, A, B, X, Y = shape
        for cplx, generic in ((True, True), (False, False)) + (() if quick else ((True, False),)):
            inst = gen_game_shape(rng, shape, cplx, generic)
            while generic and not _targets_distinct(_probe_targets(shape, inst["prob"], inst["pred"])):
                inst = gen_game_shape(rng, shape, cplx, generic)  # generic games identify the unnamed blocks of nonsignaling_value through its objective
            rhos = [rand_rho(rng, d, "pure"), rand_rho(rng, d, "mixed"), rand_rho(rng, d, "real")]
            if d == 2:
                rhos.append({"kind": "mixed", "re": [[[3, 4], [1, 4]], [[1, 4], [1, 4]]], "im": [[[0, 1], [-1, 4]], [[1, 4], [0, 1]]]})
            nsym = (A - 1) * X + (B - 1) * Y
            levels = [1] + ([2] if nsym <= k2_budget else []) + (["1+ab"] if (not quick or 4 < nsym <= 6) else [])
            for k in levels:
                strat = [(f, g, int(rng.integers(len(rhos)))) for f, g in _pick_strategies(rng, shape, cap)]
                for n in range(0, max(1, len(strat)), 40):
                    npa.append({"inst": inst, "k": k, "rhos": rhos, "strategies": strat[n:n + 40],
                                "quantum_seeds": [int(t) for t in rng.integers(0, 2 ** 31, size=(2 if quick else 5))] if n == 0 else []})
            strat = [(f, g, int(rng.integers(len(rhos)))) for f, g in _pick_strategies(rng, shape, cap)]
            ns.append({"inst": inst, "rhos": rhos, "strategies": strat, "quantum_seeds": [int(t) for t in rng.integers(0, 2 ** 31, size=(2 if quick else 5))]})
    return npa, ns


def ext_embedding(ctx, quick, prs=None):
    import time as _t
    t0 = _t.time()
    npa, ns = ext_tasks(ctx, quick)
    if prs is not None:
        for t in npa + ns:
            t["inst"].setdefault("pres", int(prs.integers(1, 2 ** 31)))
    run_pool(ctx, work_ext_npa, npa)
    run_pool(ctx, work_ext_ns, ns)
    h = ctx.hist

    def _mx(prefix):
        bs = [kk[len(prefix):] for kk in h if kk.startswith(prefix)]
        order = lambda b: -1e9 if b == "0" else (1e9 if b == "inf" else float(b[2:]))  # noqa: E731
        return max(bs, key=order) if bs else None
    ctx.extra["ext_embedding"] = {
        "npa_problems_captured": h.get("ext/npa/problems-captured", 0), "npa_constraints_captured": h.get("ext/npa/constraints-captured", 0),
        "npa_embeddings": sum(v for kk, v in h.items() if kk.startswith("ext/npa/k=")), "npa_quantum_embeddings": sum(v for kk, v in h.items() if kk.startswith("ext/npa-quantum/k=")),
        "npa_max_residual_bucket": _mx("ext/npa/max-residual-bucket/"), "npa_quantum_max_residual_bucket": _mx("ext/npa-quantum/max-residual-bucket/"),
        "ns_problems_captured": h.get("ext/ns/problems-captured", 0), "ns_embeddings": sum(v for kk, v in h.items() if kk.startswith("ext/ns/d")),
        "ns_quantum_embeddings": sum(v for kk, v in h.items() if kk.startswith("ext/ns-quantum/d")), "ns_max_residual_bucket": _mx("ext/ns/max-residual-bucket/"),
        "tolerances": {"deterministic": EMB_TOL, "quantum": QEMB_TOL}}
    ctx.extra.setdefault("phase_wall_s", {})["ext_embedding"] = round(_t.time() - t0, 1)



# ------------------------------------------------------------------------------------------------
# Part 5: stream ext_reps — the product game stored by ExtendedNonlocalGame(prob_mat, pred_mat, reps) (branch reps > 1 of __init__)
# against the Lean mirror `repGame` / `tensorGame` (exact: dyadic data, products of at most three entries are exact in float64)

REPS_SHAPES = [((2, 2, 2, 2, 2), 2), ((2, 1, 2, 1, 2), 3), ((2, 2, 1, 2, 1), 3), ((3, 2, 2, 1, 2), 2), ((2, 2, 3, 2, 1), 2), ((2, 3, 2, 1, 1), 3),
               ((3, 1, 2, 2, 2), 2), ((2, 2, 2, 1, 2), 2)]
REPS_SHAPES_MORE = [((3, 2, 3, 2, 2), 2), ((2, 3, 2, 2, 2), 2), ((2, 2, 2, 1, 1), 3), ((3, 2, 1, 1, 2), 3), ((2, 1, 3, 2, 2), 2), ((3, 3, 3, 1, 1), 2)]


def work_reps(task, res: Result):
    from toqito.nonlocal_games.extended_nonlocal_game import ExtendedNonlocalGame
    warnings.filterwarnings("ignore")
    inst, reps = task["inst"], task["reps"]
    drv = worker_driver()
    prob, pred = np.asarray(inst["prob"], dtype=float), np.asarray(inst["pred"])
    d, _, A, B, X, Y = pred.shape
    base = {"part": "reps", "kind": inst["kind"], "shape": [d, A, B, X, Y], "cplx": inst["cplx"], "reps": reps, "prob": prob.tolist(), "pred": _ri(pred), "pres": inst.get("pres")}
    prng = call_rng(inst.get("pres"), "reps", reps)
    a_prob, a_pred = present_nd(prng, prob.copy()), present_nd(prng, pred.copy())
    guard = Pure(a_prob, a_pred)
    nontriv = bool(A * B * X * Y >= 2 and (inst["cplx"] or A != B or X != Y))
    res.case(dict(base, fn="__init__"), nontriv, f"reps/n{reps}/d{d}/{'c' if inst['cplx'] else 'r'}")
    try:
        with warnings.catch_warnings(record=True) as wlist:
            warnings.simplefilter("always")
            game = ExtendedNonlocalGame(a_prob, a_pred, reps)
        cast = [str(w.message)[:120] for w in wlist if "discards the imaginary part" in str(w.message)]
    except Exception as e:  # noqa: BLE001
        res.violation(f"ExtendedNonlocalGame(prob, pred, reps={reps}) raises {type(e).__name__}: {str(e)[:120]} on a valid game of shape (d,A,B,X,Y)={d, A, B, X, Y}",
                      {"function": "ExtendedNonlocalGame.__init__(reps)", "args": base, "exception": f"{type(e).__name__}: {str(e)[:300]}", "presentation": describe([a_prob, a_pred])})
        return
    if guard.modified() is not None:
        res.violation(f"ExtendedNonlocalGame.__init__(reps={reps}): caller's arguments were modified ({guard.modified()})",
                      {"function": "ExtendedNonlocalGame.__init__(reps)", "args": base, "modified": guard.modified(), "presentation": describe([a_prob, a_pred]), "check": "purity"})
    r = drv.ask("c09_rep_game", dict(game_json(prob, pred), reps=reps))
    if "reject" in r:
        raise InfraError(f"driver rejected c09_rep_game: {r}")
    D, A2, B2, X2, Y2 = r["d"], r["nA"], r["nB"], r["nX"], r["nY"]
    gp, gq = np.asarray(game.prob_mat), np.asarray(game.pred_mat)
    if tuple(gq.shape) != (D, D, A2, B2, X2, Y2) or tuple(gp.shape) != (X2, Y2):
        res.violation(f"ExtendedNonlocalGame(reps={reps}): stored arrays have shapes prob {gp.shape}, pred {gq.shape}; the product game has pred shape {(D, D, A2, B2, X2, Y2)}",
                      {"function": "ExtendedNonlocalGame.__init__(reps)", "args": base, "impl": [list(gp.shape), list(gq.shape)], "model": [D, D, A2, B2, X2, Y2], "theorem": "repGame / tensorGame"})
        return
    lp = np.array([Fraction(a, b) for a, b in r["prob"]], dtype=object).reshape(X2, Y2)
    fp = np.vectorize(lambda t: Fraction(float(t)), otypes=[object])(gp.real if np.iscomplexobj(gp) else gp)
    if not np.all(lp == fp):
        bad = [int(t) for t in np.argwhere(lp != fp)[0]]
        res.violation(f"ExtendedNonlocalGame(reps={reps}).prob_mat differs from the {reps}-fold Kronecker power of prob_mat at {bad}: {float(fp[tuple(bad)])!r} vs {float(lp[tuple(bad)])!r}",
                      {"function": "ExtendedNonlocalGame.__init__(reps)", "args": base, "where": bad, "theorem": "repGame (prob)"})
        return
    k = 0
    for a in range(A2):
        for b in range(B2):
            for x in range(X2):
                for y in range(Y2):
                    lre, lim = _lean_mat({"mat": r["pred"][k]}, D, D)
                    k += 1
                    wre, wim = _frac_arr(gq[:, :, a, b, x, y])
                    if not _same(lre, lim, wre, wim):
                        res.violation(
                            f"ExtendedNonlocalGame(reps={reps}).pred_mat[:, :, {a}, {b}, {x}, {y}] differs from the Kronecker product of the single-shot operators with the big-endian digits "
                            f"of the labels (stored dtype {gq.dtype}; max abs difference {float(np.max(np.abs(gq[:, :, a, b, x, y] - (lre.astype(float) + 1j * lim.astype(float))))):.3g}"
                            + (f"; numpy warned: {cast[0]}" if cast else "") + ")",
                            {"function": "ExtendedNonlocalGame.__init__(reps)", "args": base, "where": [a, b, x, y], "stored_dtype": str(gq.dtype), "cast_warnings": cast[:2], "theorem": "repGame / tensorGame (pred)"})
                        return
    res.count("reps/arrays-equal")
    # consistency of the values: product strategies (unentangled value is super-multiplicative)
    if task.get("values"):
        try:
            v1 = float(ExtendedNonlocalGame(prob.copy(), pred.copy()).unentangled_value())
            vn = float(game.unentangled_value())
        except Exception as e:  # noqa: BLE001
            res.violation(f"unentangled_value raises {type(e).__name__} on the {reps}-fold game", {"function": "unentangled_value", "kind": "reps", "args": base, "exception": str(e)[:300]})
            return
        res.case(dict(base, fn="unentangled"), nontriv, f"reps/n{reps}/unentangled")
        if vn < v1 ** reps - 1e-9 or vn > 1 + 1e-9 and v1 <= 1:
            res.violation(f"unentangled_value of the {reps}-fold game = {vn!r} is below the {reps}-th power {v1 ** reps!r} of the single-shot value {v1!r} (product strategies achieve the power)",
                          {"function": "unentangled_value", "kind": "reps", "args": base, "values": [v1, vn], "theorem": "avgOperator_tensorGame / unent_tensor_ge_mul"})


def reps_tasks(rng, quick):
    out = []
    for shape, reps in REPS_SHAPES + ([] if quick else REPS_SHAPES_MORE):
        d, A, B, X, Y = shape
        for cplx in (True, False):
            inst = gen_game_shape(rng, shape, cplx, generic=cplx)
            pairs = (A ** reps) ** (X ** reps) * (B ** reps) ** (Y ** reps)
            out.append({"inst": inst, "reps": reps, "values": pairs <= 1024})
    # the reproducer of the float-buffer defect (fixed upstream): the projector on the +1 eigenvector of Pauli-Y, one question, one answer
    pc = np.zeros((2, 2, 1, 1, 1, 1), dtype=complex)
    pc[:, :, 0, 0, 0, 0] = np.array([[0.5, -0.5j], [0.5j, 0.5]])
    out.insert(0, {"inst": {"kind": "pauli-y-projector", "prob": np.array([[1.0]]), "pred": pc, "cplx": True}, "reps": 2, "values": True})
    return out


def ext_reps(ctx, quick, prs):
    import time as _t
    t0 = _t.time()
    tasks = reps_tasks(prs, quick)
    for t in tasks:
        t["inst"].setdefault("pres", int(prs.integers(1, 2 ** 31)))
    run_pool(ctx, work_reps, tasks)
    ctx.extra.setdefault("phase_wall_s", {})["ext_reps"] = round(_t.time() - t0, 1)


# ------------------------------------------------------------------------------------------------
# strict-fp stream: the value must not depend on NumPy's global floating-point error state (no solver is called here)


def strict_fp_games(rng):
    out = [dict(g) for g in corpus_games()]
    z = np.zeros((2, 2, 2, 2, 2, 2))
    out.append({"kind": "all-zero", "prob": np.array([[0.25, 0.25], [0.25, 0.25]]), "pred": z, "cplx": False})
    out.append({"kind": "all-zero-complex", "prob": np.array([[0.5, 0.5]]), "pred": np.zeros((3, 3, 1, 2, 1, 2), dtype=complex), "cplx": True})
    # a row of questions that is never asked (zero probability) while its operators are non-zero, and zero operators on asked questions
    r1 = np.zeros((2, 2, 2, 2, 2, 2), dtype=complex)
    v = np.array([[1.0], [1j]]) / 2.0
    r1[:, :, 0, 1, 0, 0] = 2 * v @ v.conj().T        # rank one
    r1[:, :, 1, 0, 0, 1] = np.array([[1.0, 0.0], [0.0, 0.0]])
    r1[:, :, 0, 0, 1, 0] = np.eye(2)
    r1[:, :, 1, 1, 1, 1] = np.eye(2)
    out.append({"kind": "zero-prob-row", "prob": np.array([[0.75, 0.25], [0.0, 0.0]]), "pred": r1, "cplx": True})
    out.append({"kind": "zero-prob-column", "prob": np.array([[0.0, 0.5], [0.0, 0.5]]), "pred": r1.real.copy(), "cplx": False})
    out.append({"kind": "zero-prob-all-but-one", "prob": np.array([[0.0, 0.0, 1.0]]), "pred": gen_game_shape(rng, (2, 1, 3, 1, 3), True)["pred"], "cplx": True})
    out.append({"kind": "single-cell", "prob": np.array([[1.0]]), "pred": r1[:, :, 0:1, 1:2, 0:1, 0:1].copy(), "cplx": True})
    for shape, cplx in (((2, 2, 2, 2, 1), True), ((3, 1, 2, 2, 2), False), ((2, 2, 1, 1, 2), True), ((2, 3, 2, 1, 2), False), ((3, 2, 2, 2, 2), True), ((2, 2, 3, 2, 1), False)):
        g = gen_game_shape(rng, shape, cplx)
        if rng.integers(2):
            d, A, B, X, Y = shape
            g["pred"][:, :, int(rng.integers(A)), :, :, :] = 0      # one answer of Alice never wins
            g["kind"] = "random-zero-answer"
        out.append(g)
    return out


def strict_fp_case(ctx, inst, reps, values):
    from toqito.nonlocal_games.extended_nonlocal_game import ExtendedNonlocalGame
    prob, pred = np.asarray(inst["prob"], dtype=float), np.asarray(inst["pred"])
    d, _, A, B, X, Y = pred.shape
    base = {"part": "strict_fp", "kind": inst["kind"], "shape": [d, A, B, X, Y], "cplx": bool(inst["cplx"]), "reps": reps, "values": bool(values), "prob": prob.tolist(), "pred": _ri(pred)}

    def f():
        g = ExtendedNonlocalGame(prob.copy(), pred.copy(), reps)
        return np.array(g.prob_mat), np.array(g.pred_mat), (float(g.unentangled_value()) if values else None)

    zero = not np.any(pred)
    ctx.case(dict(base, fn="strict_fp"), bool(not zero and A ** X * B ** Y >= 2), f"strict-fp/reps{reps}/{'zero' if zero else ('zero-prob' if np.any(prob == 0) else 'plain')}")
    fn = f"ExtendedNonlocalGame(prob, pred, {reps})" + (".unentangled_value()" if values else "")
    info = {"function": fn, "args": base, "theorem": "the value is a function of the arguments (the mirror model repGame / unentConst has no global state)"}
    with warnings.catch_warnings():
        warnings.simplefilter("ignore")
        try:
            dv = ("ok", f())
        except Exception as e:  # noqa: BLE001
            dv = ("raise", f"{type(e).__name__}: {str(e)[:200]}")
        sv = strict_fp_call(f)
    if dv[0] == "ok" and sv[0] == "raise":
        ctx.violation(f"{fn}: value depends on NumPy's floating-point error state (default state: a value; invalid/divide/overflow set to 'raise': {sv[1]}) on a game of shape (d,A,B,X,Y)={d, A, B, X, Y}, kind {inst['kind']}",
                      dict(info, impl=sv[1], model=str(dv[1][2])))
        return
    if dv[0] == "raise":
        ctx.violation(f"{fn} raises {dv[1]} on a valid game of shape (d,A,B,X,Y)={d, A, B, X, Y}, kind {inst['kind']}", dict(info, exception=dv[1]))
        return
    (p0, q0, v0), (p1, q1, v1) = dv[1], sv[1]
    if p0.dtype != p1.dtype or q0.dtype != q1.dtype or not np.array_equal(p0, p1) or not np.array_equal(q0, q1):
        ctx.violation(f"{fn}: the stored arrays under the strict floating-point error state differ from those of the default state", dict(info, impl=[str(p1.dtype), str(q1.dtype)], model=[str(p0.dtype), str(q0.dtype)]))
        return
    if values and not abs(v0 - v1) <= 1e-12:
        ctx.violation(f"{fn}: value {v1!r} under the strict floating-point error state differs from the default-state value {v0!r}", dict(info, impl=v1, model=v0))
        return
    if values and zero and v0 != 0.0:
        ctx.violation(f"{fn} = {v0!r} for the all-zero predicate (every average operator is 0, the value is 0)", dict(info, impl=v0, model=0.0, theorem="avgOperator of the zero game"))
        return
    ctx.count("strict-fp/agree")


def strict_fp_stream(ctx):
    import time as _t
    t0 = _t.time()
    srng = ctx.rng.spawn(1)[0]
    for g in strict_fp_games(srng):
        d, _, A, B, X, Y = g["pred"].shape
        strict_fp_case(ctx, g, 1, True)
        strict_fp_case(ctx, g, 2, (A * A) ** (X * X) * (B * B) ** (Y * Y) <= 1024)
    ctx.extra.setdefault("phase_wall_s", {})["strict_fp"] = round(_t.time() - t0, 1)

# ------------------------------------------------------------------------------------------------


def _game_calls(inst, with_seesaw, with_npa2):
    d, _, A, B, X, Y = np.asarray(inst["pred"]).shape
    calls = ["unentangled", "nonsignaling", "npa1"]
    if with_npa2 and A <= 2 and B <= 2 and X <= 2 and Y <= 2 and d == 2:
        calls.append("npa2")
    if with_seesaw:
        calls.append("seesaw")
    return calls


def run(ctx, model_ok=True):
    rng = ctx.rng
    quick = ctx.tier == "quick"
    tie_checks(ctx)
    # ---- games
    games = corpus_games()
    n_rand = 70 if quick else 400
    for _ in range(n_rand):
        games.append(gen_game(rng, quick))
    tasks = []
    n_seesaw = 0
    prs = rng.spawn(1)[0]   # presentation stream: a child of the seeded generator (spawning does not consume the parent's draws)
    for g in games:
        g["pres"] = int(prs.integers(1, 2 ** 31))
    for i, g in enumerate(games):
        d, _, A, B, X, Y = g["pred"].shape
        small = d == 2 and max(A, B, X, Y) <= 2
        ss = (g["kind"] in ("echo", "bb84")) or (n_seesaw < (10 if quick else 60) and (small or d != B))
        if ss:
            n_seesaw += 1
        tasks.append((g, _game_calls(g, ss, i < 12 or not quick), int(rng.integers(1 << 30))))
    # the echo game once more with its 0/1 operator entries handed over as int64 (a buffer that takes its dtype from pred_mat truncates the
    # weights); appended with a seed from the presentation stream so that the draws of the seeded generator are unchanged
    g_int = dict(games[0], kind="echo-int", pred=games[0]["pred"].astype(np.int64), pres=int(prs.integers(1, 2 ** 31)))
    tasks.append((g_int, _game_calls(g_int, False, True), int(prs.integers(1 << 30))))
    import time as _t
    t0 = _t.time()
    run_pool(ctx, work_game, tasks)
    ctx.extra.setdefault("phase_wall_s", {})["games"] = round(_t.time() - t0, 1)
    # ---- hedging
    q0, q1 = mw_ops()
    c2, s2 = float(np.cos(np.pi / 8) ** 2), float(np.sin(np.pi / 8) ** 2)
    ht = [{"kind": "mw-q0", "Q": q0, "n": 1, "cplx": False, "closed": [("max", c2, 1e-6), ("min", s2, 1e-6)]},
          {"kind": "mw-q1", "Q": q1, "n": 1, "cplx": False, "closed": [("max", c2, 1e-6), ("min", 0.0, 1e-6)]},
          {"kind": "mw-q0q0", "Q": np.kron(q0, q0), "n": 2, "cplx": False, "closed": [("min", 0.0, 2e-6)]},
          {"kind": "mw-q1q1", "Q": np.kron(q1, q1), "n": 2, "cplx": False, "closed": []}]
    for _ in range(60 if quick else 400):
        cplx = bool(rng.integers(2))
        ht.append({"kind": "random", "Q": gen_q4(rng, cplx, int(rng.integers(1, 5))), "n": 1, "cplx": cplx})
    for _ in range(16 if quick else 100):
        cplx = bool(rng.integers(2))
        if rng.integers(3):
            Q = np.kron(gen_q4(rng, cplx, int(rng.integers(2, 5))), gen_q4(rng, cplx, int(rng.integers(2, 5))))
            kind = "product"
        else:
            V = rng.integers(-3, 4, size=(16, 5)).astype(complex) + (1j * rng.integers(-3, 4, size=(16, 5)) if cplx else 0)
            Q = V @ V.conj().T
            Q = Q / float(1 << int(np.ceil(np.log2(max(1.0, np.trace(Q).real)))))
            Q = Q if cplx else Q.real
            kind = "generic16"
        ht.append({"kind": kind, "Q": Q, "n": 2, "cplx": cplx})
    for t in ht:
        t["pres"] = int(prs.integers(1, 2 ** 31))
    t0 = _t.time()
    run_pool(ctx, work_hedge, ht)
    # two repetitions of products Q1 (x) Q2 with exactly factorised factors, through the product theorem (instances from a child stream)
    prs2 = prs.spawn(1)[0]
    hp = []
    for i in range(8 if quick else 60):
        cplx = bool(i % 2)
        hp.append({"cplx": cplx, "f1": gen_sq_factor(prs2, cplx), "f2": gen_sq_factor(prs2, cplx), "pres": int(prs2.integers(1, 2 ** 31))})
    run_pool(ctx, work_hedge_product, hp)
    ctx.extra["phase_wall_s"]["hedging"] = round(_t.time() - t0, 1)
    # ---- cloning
    e0, e1 = np.array([[1.0], [0.0]]), np.array([[0.0], [1.0]])
    ep, em = (e0 + e1) / np.sqrt(2), (e0 - e1) / np.sqrt(2)
    ct = [{"kind": "wiesner", "states": [e0, e1, ep, em], "probs": [0.25] * 4, "n": 1, "closed": [(0.75, 1e-6)]},
          {"kind": "wiesner", "states": [e0, e1, ep, em], "probs": [0.25] * 4, "n": 2, "closed": [(0.5625, 2e-6)], "single": 0.75}]
    # "all priors": an exact zero in the prior, not in the last position (the state is listed but never prepared)
    ct.append({"kind": "zero-prior", "states": [e0, ep, e1], "probs": [0.5, 0.0, 0.5], "n": 1, "closed": [(1.0, 1e-6)]})
    ct.append({"kind": "zero-prior", "states": [ep, e0, e1, ep, em], "probs": [0.0, 0.25, 0.25, 0.25, 0.25], "n": 1, "closed": [(0.75, 1e-6)]})
    ct.append({"kind": "zero-prior", "states": [ep, e0, e1, ep, em], "probs": [0.0, 0.25, 0.25, 0.25, 0.25], "n": 2, "closed": [(0.5625, 2e-6)], "single": 0.75})
    ens = [gen_ensemble(rng) for _ in range(24 if quick else 150)]
    for st, pr in ens:
        ct.append({"kind": "random", "states": st, "probs": pr, "n": 1})
    for i, (st, pr) in enumerate(ens[: (5 if quick else 30)]):
        ct.append({"kind": "random", "states": st, "probs": pr, "n": 2, "certify": i < (2 if quick else 10)})
    for t in ct:
        t["pres"] = int(prs.integers(1, 2 ** 31))
    t0 = _t.time()
    run_pool(ctx, work_clone, ct)
    ctx.extra["phase_wall_s"]["cloning"] = round(_t.time() - t0, 1)
    ctx.extra["tolerances"] = {"scs_value": TAU, "primal_dual_agreement": 2 * TAU}
    ctx.extra["certified_interval_width_bound"] = WIDTH_OK
    # ---- feasibility embedding into the captured NPA / non-signalling programs of extended games
    ext_embedding(ctx, quick, prs)
    # ---- the product game of ExtendedNonlocalGame(..., reps) against the Lean mirror (draws from the presentation stream only)
    ext_reps(ctx, quick, prs)
    # ---- feasibility embedding into the captured hedging / cloning programs (helper module c09_prog; draws from the presentation stream only)
    from . import c09_prog
    c09_prog.prog_embedding(ctx, quick, prs)
    # ---- strict floating-point error state (in-process; a fresh child of the seeded generator, spawned last)
    strict_fp_stream(ctx)


def replay(ctx, rec):
    a = rec.get("args", {})
    res = Result()
    part = a.get("part")
    if part == "game":
        inst = {"kind": a.get("kind", "replay"), "prob": np.array(a["prob"], dtype=float), "pred": _from_ri(a["pred"]), "cplx": a.get("cplx", False), "pres": a.get("pres")}
        fn = a.get("fn")
        calls = [fn] if fn in ("unentangled", "nonsignaling", "npa1", "npa2", "seesaw") else ["unentangled", "nonsignaling", "npa1", "seesaw"]
        work_game((inst, calls, int(rec.get("seed", 0))), res)
    elif part == "ext_embed":
        inst = {"kind": a.get("kind", "replay"), "prob": np.array(a["prob"], dtype=float), "pred": _from_ri(a["pred"]), "cplx": a.get("cplx", False), "pres": a.get("pres")}
        if inst["cplx"]:
            inst["pred"] = np.asarray(inst["pred"], dtype=complex)
        fn = a.get("fn", "")
        d, A, B, X, Y = a["shape"]
        rho = a.get("rho") or rand_rho(np.random.default_rng(0), d, "mixed")
        strat = [(a["f"], a["g"], 0)] if a.get("f") else [([0] * X, [0] * Y, 0)]
        task = {"inst": inst, "k": a.get("k") or 1, "rhos": [rho], "strategies": strat, "quantum_seeds": [a["seed"]] if "seed" in a else []}
        (work_ext_ns if fn.startswith("ext_ns") else work_ext_npa)(task, res)
    elif part == "prog":
        from . import c09_prog
        c09_prog.replay_prog(ctx, rec)
        return
    elif part == "hedge_product":
        work_hedge_product({"cplx": a.get("cplx", False), "f1": {"V": np.asarray(_from_ri(a["f1"]["V"]), dtype=complex), "k": a["f1"]["k"]},
                            "f2": {"V": np.asarray(_from_ri(a["f2"]["V"]), dtype=complex), "k": a["f2"]["k"]}, "pres": a.get("pres")}, res)
    elif part == "reps":
        inst = {"kind": a.get("kind", "replay"), "prob": np.array(a["prob"], dtype=float), "pred": _from_ri(a["pred"]), "cplx": a.get("cplx", False), "pres": a.get("pres")}
        if inst["cplx"]:
            inst["pred"] = np.asarray(inst["pred"], dtype=complex)
        work_reps({"inst": inst, "reps": a["reps"], "values": True}, res)
    elif part == "strict_fp":
        inst = {"kind": a.get("kind", "replay"), "prob": np.array(a["prob"], dtype=float), "pred": _from_ri(a["pred"]), "cplx": a.get("cplx", False)}
        if inst["cplx"]:
            inst["pred"] = np.asarray(inst["pred"], dtype=complex)
        strict_fp_case(ctx, inst, a.get("reps", 1), a.get("values", True))
        return
    elif part == "hedge":
        work_hedge({"kind": a.get("kind", "replay"), "Q": _from_ri(a["Q"]), "n": a["n"], "cplx": a.get("cplx", False), "pres": a.get("pres")}, res)
    elif part == "clone":
        work_clone({"kind": a.get("kind", "replay"), "states": [np.array(s, dtype=float).reshape(2, 1) for s in a["states"]], "probs": a["probs"], "n": a["n"], "pres": a.get("pres")}, res)
    else:
        tie_checks(ctx)
    fold(ctx, res)
