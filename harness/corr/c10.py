"""C10: state_distinguishability (min-error and unambiguous, primal and dual) against certified intervals.

For each instance the exact dyadic images of the float inputs handed to toqito define the instance; an exact
feasible POVM (lower bound) and an exact dual-feasible operator (upper bound) are built by untrusted means
and accepted only by the verified Lean checker (theorems checkMinErrPrimal_sound / checkMinErrDual_sound /
checkUnamb*_sound in lean/Toq/Properties/C10.lean).  The value returned by toqito must lie in [lo - tau, hi + tau].

On top of the intervals, the closed forms proved for all instances in Properties/C10.lean are compared with BOTH the certified
interval (a disagreement there is a harness error) and toqito's returned values: Helstrom for two states (helstrom_isLUB_normalised),
1 for mutually orthogonal states (minErr_orthogonal_eq_one), >= largest prior (minErr_ge_prior), <= 1 (minErr_le_one), >= the success
probability of toqito's pretty good measurement (pgm_le_dual), unambiguous value 1 - |<psi|phi>| for two equiprobable pure states
(unamb_two_unit_vectors), 0 for linearly dependent pure states (unamb_value_zero_of_all_dependent), within [0, 1]
(unamb_zero_feasible / unamb_le_sum_prior) and <= the min-error value (cited reduction)."""
from __future__ import annotations

import warnings

import numpy as np

from ..cert import DM, chol_factor, frac_json, repair_povm
from ..exact import Pure, call_rng, describe, present_list, vary_ensemble
from ..pool import Result, run_pool, worker_driver
from .. import qgen

RULE = ("ensembles (2..5 states, dimension 2..4, real/complex integer amplitudes normalised in floating point, vectors as 1-D / column arrays or "
        "density matrices, dyadic priors) from the seeded generator x strategy x primal/dual form x solver; per instance the Lean checker certifies "
        "[lo, hi] for the exact image of the inputs; non-trivial = certified interval clear of the trivial bounds (max prior + 1e-2 <= value <= 1 - 1e-2 "
        "for min-error; 1e-2 <= value for unambiguous) ; distinct = hash of the instance and call form; a second, smaller stream forces the "
        "closed-form families (equiprobable pure pairs, linearly dependent sets, orthonormal sets) through the same worker; "
        "presentation: every call receives the same values in a freshly drawn presentation per list element (C / Fortran / strided memory layout; real-valued "
        "states as float64, integer-valued ones as int64), one in three complex ensembles of the kinds random / near has some states made real-valued "
        "(real-dtype first element followed by complex ones, or the reverse; also computational basis vectors), priors with exact zeros, uniform priors given "
        "explicitly or as None; the caller's list, arrays and priors must be untouched by every call and a repeated call on the same objects (one in four calls) "
        "must return the same value")
ASSUMPTIONS = [
    "toqito computes with the float inputs it is given; the instance certified is their exact dyadic image (difference <= 1e-15 relative)",
    "tolerance 2e-5 on CVXOPT-solved values (declared in DESIGN.md 4.4), 1e-3 for SCS",
    "the Gram-matrix program is taken as the definition of the unambiguous-discrimination value (Eldar's reduction is cited, not proved)",
    "closed forms are evaluated in float64 on the same float inputs (eigvalsh / inner products, error <= 1e-12) and compared with tolerance tau",
    "pretty good measurement: compared only when sum_i p_i rho_i has smallest eigenvalue >= 1e-6 (P^(-1/2) exists; C19 covers the PGM itself)",
]
TAU = {"cvxopt": 2e-5, "scs": 1e-3}
WIDTH_OK = 1e-4  # certified intervals wider than this are counted as uncertified (never a violation by themselves)


# ------------------------------------------------------------------------------------------------
# instance generation (in the parent, so every random choice derives from the one seeded generator)


def gen_instance(rng, quick, family=None):
    """family: None (general stream) or one of "pair" (two equiprobable pure states), "dependent", "orthogonal" (closed-form stream)"""
    d = int(rng.choice([2, 2, 3, 3, 4]))
    k = int(rng.choice([2, 2, 3, 3, 4, 5]))
    cplx = bool(rng.integers(2))
    form = str(rng.choice(["vec1d", "col", "dm", "dm_mixed"]))
    kind = str(rng.choice(["random", "random", "random", "orthogonal", "dependent", "near"]))
    if family is not None:
        form = str(rng.choice(["vec1d", "col", "vec1d", "col", "dm"]))
        if family == "pair":
            k = 2
            kind = str(rng.choice(["random", "random", "near"]))
        elif family == "dependent":
            k = int(rng.choice([3, 3, 4, 5]))
            kind = "dependent"
        else:
            k = int(rng.integers(2, d + 1))
            kind = "orthogonal"
    vecs = []
    if kind == "orthogonal" and k <= d:
        U = qgen.cayley_unitary(rng, d, cplx)
        vecs = [U[:, i] for i in range(k)]
    elif kind == "dependent" and k >= 3:
        base = [qgen.unit(qgen.int_vector(rng, d, cplx)) for _ in range(k - 1)]
        c = rng.integers(1, 4, size=k - 1)
        comb = sum(ci * b for ci, b in zip(c, base))
        if np.linalg.norm(comb) < 1e-9:   # the combination cancelled (b_2 = -b_1 with equal weights): take another one
            comb = sum((ci + (1 if n == 0 else 0)) * b for n, (ci, b) in enumerate(zip(c, base)))
        vecs = base + [qgen.unit(comb)]
    elif kind == "near":
        v0 = qgen.int_vector(rng, d, cplx, lim=8)
        vecs = [qgen.unit(v0)]
        for _ in range(k - 1):
            e = np.zeros(d, dtype=complex)
            e[int(rng.integers(d))] = 1
            vecs.append(qgen.unit(v0 + e if np.any(v0 + e != 0) else v0 + 2 * e))
    else:
        kind = "random"
        vecs = [qgen.unit(qgen.int_vector(rng, d, cplx)) for _ in range(k)]
    probs = qgen.dyadic_probs(rng, k)
    if k >= 3 and rng.integers(8) == 0:
        z = int(rng.integers(k))          # "any prior": an exact zero entry
        rest = qgen.dyadic_probs(rng, k - 1)
        probs = rest[:z] + [0.0] + rest[z:]
    if family == "pair":
        probs = [0.5, 0.5]
    if form == "dm_mixed":
        states = [qgen.rand_density(rng, d, int(rng.integers(1, d + 1)), cplx) for _ in range(k)]
    elif form == "dm":
        states = [np.outer(v, v.conj()) for v in vecs]
    elif form == "col":
        states = [v.reshape(-1, 1) for v in vecs]
    else:
        states = [v for v in vecs]
    if not cplx:
        states = [np.real(s) for s in states]
    if not cplx:
        vecs = [np.real(v) for v in vecs]
    return {"d": d, "k": k, "cplx": cplx, "form": form, "kind": kind, "states": [np.asarray(s).tolist() if False else s for s in states],
            "vecs": (None if form == "dm_mixed" else vecs), "probs": probs, "probs_given": bool(rng.integers(4) > 0) or len(set(probs)) > 1}


# ------------------------------------------------------------------------------------------------
# worker


def _dms_exact(states):
    """exact dyadic density operators = exact image of what to_density_matrix computes from the float input"""
    out = []
    for s in states:
        a = np.asarray(s)
        if a.ndim == 1 or 1 in a.shape:
            v = DM.exact_float(a.reshape(-1, 1))
            out.append((v @ v.H()))
        else:
            out.append(DM.exact_float(a).herm_part())
    return out


def _solve(prob):
    """untrusted reference solve: CLARABEL first (robust on degenerate instances), then CVXOPT, then SCS"""
    import cvxpy as cp
    last = None
    for kw in (dict(solver=cp.CLARABEL), dict(solver=cp.CVXOPT, abstol=1e-9, reltol=1e-9, feastol=1e-9), dict(solver=cp.CVXOPT), dict(solver=cp.SCS, eps=1e-9, max_iters=20000)):
        try:
            prob.solve(**kw)
            if prob.status in ("optimal", "optimal_inaccurate") and all(v.value is not None for v in prob.variables()):
                return
        except Exception as e:
            last = e
    raise RuntimeError(f"reference solve failed: {last}")


def _solve_ref(rhos_f, probs):
    """independent solve (cvxpy) for certificate candidates: returns (POVM list, Y) as float arrays"""
    import cvxpy as cp
    d = rhos_f[0].shape[0]
    k = len(rhos_f)
    Ms = [cp.Variable((d, d), hermitian=True) for _ in range(k)]
    cons = [M >> 0 for M in Ms] + [sum(Ms) == np.eye(d)]
    obj = cp.Maximize(cp.real(sum(probs[i] * cp.trace(rhos_f[i] @ Ms[i]) for i in range(k))))
    pr = cp.Problem(obj, cons)
    _solve(pr)
    Mv = [np.array(M.value) for M in Ms]
    Y = cp.Variable((d, d), hermitian=True)
    pd = cp.Problem(cp.Minimize(cp.real(cp.trace(Y))), [Y - probs[i] * rhos_f[i] >> 0 for i in range(k)])
    _solve(pd)
    return Mv, np.array(Y.value)


def certify_minerr(drv, rhos, probs, Ms_f, Y_f):
    """returns (lo, hi, why) as floats/None using the Lean checker"""
    d = rhos[0].re.shape[0]
    k = len(rhos)
    pj = [frac_json(DM.exact_float(np.array([[p]])).frac(0, 0)[0]) for p in probs]
    lo = hi = None
    why = []
    if Ms_f is not None:
        P = repair_povm(Ms_f)
        Ls = [chol_factor(M.to_float()) for M in P]
        if all(L is not None for L in Ls):
            r = drv.ask("minerr_primal", {"d": d, "rho": [r_.json() for r_ in rhos], "p": pj, "M": [M.json() for M in P], "LM": [L.json() for L in Ls]})
            if "ok" in r:
                lo = r["ok"][0] / r["ok"][1]
            else:
                why.append("primal:" + r["reject"])
        else:
            why.append("primal:cholesky")
    if Y_f is not None:
        Y = DM.from_float((Y_f + Y_f.conj().T) / 2, 40).herm_part() + DM.eye(d).scale_dy(1, 24)
        Ls = []
        for i in range(k):
            pi = DM.exact_float(np.array([[probs[i]]]))
            A = Y - rhos[i].scale_dy(int(pi.re[0, 0]), pi.e)
            Ls.append(chol_factor(A.to_float()))
        if all(L is not None for L in Ls):
            r = drv.ask("minerr_dual", {"d": d, "rho": [r_.json() for r_ in rhos], "p": pj, "Y": Y.json(), "LY": [L.json() for L in Ls]})
            if "ok" in r:
                hi = r["ok"][0] / r["ok"][1]
            else:
                why.append("dual:" + r["reject"])
        else:
            why.append("dual:cholesky")
    return lo, hi, why


def _solve_unamb_ref(G, probs):
    import cvxpy as cp
    k = G.shape[0]
    q = cp.Variable(k, nonneg=True)
    pr = cp.Problem(cp.Maximize(np.array(probs) @ q), [G - cp.diag(q) >> 0])
    _solve(pr)
    Z = cp.Variable((k, k), hermitian=True)
    pd = cp.Problem(cp.Minimize(cp.real(cp.trace(G @ Z))), [Z >> 0] + [cp.real(Z[i, i]) >= probs[i] for i in range(k)])
    _solve(pd)
    return np.array(q.value), np.array(Z.value)


def certify_unamb(drv, V: DM, probs, q_f, Z_f):
    """V: exact d x k matrix of the (float) vectors; G = V^H V exactly"""
    k = V.re.shape[1]
    G = V.H() @ V
    pj = [frac_json(DM.exact_float(np.array([[p]])).frac(0, 0)[0]) for p in probs]
    lo = hi = None
    why = []
    # q = 0 is always feasible with the exact factor L = V^H: lower bound 0
    lo = 0.0
    if q_f is not None:
        qd = [max(0, int(np.floor(float(x) * (1 - 2.0 ** -18) * (1 << 40))) - (1 << 16)) for x in q_f]
        A = G - DM(np.diag(np.array(qd, dtype=object)) + np.zeros((k, k), dtype=object), np.zeros((k, k), dtype=object) * 0, 40)
        L = chol_factor(A.to_float())
        if L is not None:
            r = drv.ask("unamb_primal", {"k": k, "G": G.json(), "p": pj, "q": [[x, 1 << 40] for x in qd], "L": L.json()})
            if "ok" in r:
                lo = max(lo, r["ok"][0] / r["ok"][1])
            else:
                why.append("primal:" + r["reject"])
        else:
            why.append("primal:cholesky")
    if Z_f is not None:
        Z = DM.from_float((Z_f + Z_f.conj().T) / 2, 40).herm_part() + DM.eye(k).scale_dy(1, 22)
        L = chol_factor(Z.to_float())
        if L is not None:
            r = drv.ask("unamb_dual", {"k": k, "G": G.json(), "p": pj, "Z": Z.json(), "LZ": L.json()})
            if "ok" in r:
                hi = r["ok"][0] / r["ok"][1]
            else:
                why.append("dual:" + r["reject"])
        else:
            why.append("dual:cholesky")
    return lo, hi, why


def _meas_values(meas):
    out = []
    for m in meas:
        v = getattr(m, "value", m)
        out.append(np.array(v, dtype=complex))
    return out


def work(task, res: Result):
    from toqito.state_opt import state_distinguishability
    warnings.filterwarnings("ignore")
    inst, calls = task
    drv = worker_driver()
    states, probs, d, k = inst["states"], inst["probs"], inst["d"], inst["k"]
    rhos = _dms_exact(states)
    rhos_f = [r.to_float() for r in rhos]
    base = {kk: inst[kk] for kk in ("d", "k", "cplx", "form", "kind", "probs")}
    base["states"] = [np.asarray(s) for s in states]
    base["pres"], base["real_idx"] = inst.get("pres"), list(inst.get("real_idx", ()))
    # ---- min-error: certified interval
    try:
        Ms_ref, Y_ref = _solve_ref(rhos_f, probs)
    except Exception as e:
        res.count("uncertified/ref-solve-failed")
        return
    lo, hi, why = certify_minerr(drv, rhos, probs, Ms_ref, Y_ref)
    if lo is None or hi is None or hi - lo > WIDTH_OK:
        res.count("uncertified/minerr:" + ";".join(why)[:60])
        lo_u = hi_u = None
    # state vectors of a pure ensemble: the inputs themselves (vector forms) or the generator's vectors behind form "dm"
    # (replayed "dm" records carry no vectors: no Gram-form interval then)
    if inst["form"] in ("vec1d", "col"):
        vec_list = [np.asarray(s).reshape(-1) for s in states]
    elif inst["form"] == "dm" and inst.get("vecs") is not None:
        vec_list = [np.asarray(v).reshape(-1) for v in inst["vecs"]]
    else:
        vec_list = None
    pure = vec_list is not None
    ulo = uhi = None
    if pure:
        V = DM.exact_float(np.stack(vec_list, axis=1))
        try:
            q_ref, Z_ref = _solve_unamb_ref((V.H() @ V).to_float(), probs)
            ulo, uhi, uwhy = certify_unamb(drv, V, probs, q_ref, Z_ref)
        except Exception:
            ulo = uhi = None
        if ulo is None or uhi is None or uhi - ulo > WIDTH_OK:
            res.count("uncertified/unamb")
            ulo = uhi = None
    maxp = max(probs)
    got = {}  # (strategy, primal_dual, solver) -> value returned by toqito (calls that returned and passed the interval check)
    for (strategy, pd, solver) in calls:
        if strategy == "unambiguous" and inst["form"] not in ("vec1d", "col"):
            continue  # the Gram-matrix program is defined for state vectors only
        desc = dict(base, strategy=strategy, primal_dual=pd, solver=solver, probs_given=inst["probs_given"])
        # the same values in a presentation drawn for this call (layout / real and integer dtypes, independently per list element)
        prng = call_rng(inst.get("pres"), strategy, pd, solver)
        args = dict(vectors=present_list(prng, states, force_real=inst.get("real_idx", ())), probs=(list(probs) if inst["probs_given"] else None),
                    strategy=strategy, solver=solver, primal_dual=pd)
        guard = Pure(**args)
        try:
            val, meas = state_distinguishability(**args)
            why_mod = guard.modified()
            val2 = None
            if why_mod is None and prng is not None and int(prng.integers(4)) == 0:
                try:
                    val2 = float(state_distinguishability(**args)[0])   # the SAME objects again
                    why_mod = guard.modified()
                except (ArithmeticError, ZeroDivisionError):
                    res.count("repeat-call/solver-numerical-failure")
        except (ArithmeticError, ZeroDivisionError) as e:
            # CVXOPT's KKT solver breaking down numerically on a degenerate instance: runtime behaviour of the solver,
            # not a statement about the optimum (DESIGN.md section 10); counted, never silently dropped
            res.case(desc, False, f"{strategy}/{pd}/{solver}/solver-numerical-failure")
            continue
        except Exception as e:
            res.case(desc, True, f"{strategy}/{pd}/{solver}/raise")
            res.violation(f"state_distinguishability({strategy},{pd}) raises {type(e).__name__}: {str(e)[:120]} on a valid {'complex' if inst['cplx'] else 'real'} ensemble",
                          {"function": "state_distinguishability", "args": desc, "exception": f"{type(e).__name__}: {str(e)[:300]}", "cplx": inst["cplx"],
                           "presentation": describe(args["vectors"])})
            continue
        tau = TAU.get(solver, 1e-3)
        if why_mod is not None:
            res.violation(f"state_distinguishability({strategy},{pd}): caller's arguments were modified ({why_mod})",
                          {"function": "state_distinguishability", "args": desc, "modified": why_mod, "presentation": describe(args["vectors"]), "cplx": inst["cplx"], "check": "purity"})
        elif val2 is not None:
            res.count("repeat-call/checked")
            if abs(val2 - float(val)) > 2 * tau:
                res.violation(f"state_distinguishability({strategy},{pd}): a second call on the same objects returns {val2:.8f}, the first returned {float(val):.8f}",
                              {"function": "state_distinguishability", "args": desc, "values": [float(val), val2], "presentation": describe(args["vectors"]), "cplx": inst["cplx"], "check": "repeat"})
        if strategy == "min_error":
            L, H = lo, hi
            nontriv = L is not None and H is not None and H - L <= WIDTH_OK and (maxp + 1e-2 <= L) and (H <= 1 - 1e-2)
            thm = "checkMinErrPrimal_sound / checkMinErrDual_sound"
        else:
            L, H = ulo, uhi
            nontriv = L is not None and H is not None and L >= 1e-2
            thm = "checkUnambPrimal_sound / checkUnambDual_sound"
        res.case(desc, nontriv, f"{strategy}/{pd}/{solver}/{inst['form']}/{'c' if inst['cplx'] else 'r'}/{inst['kind']}")
        if L is None or H is None:
            got[(strategy, pd, solver)] = float(val)
            continue
        if not (L - tau <= float(val) <= H + tau):
            res.violation(f"state_distinguishability({strategy},{pd},{solver}) = {float(val):.8f} outside the certified optimum [{L:.8f}, {H:.8f}]",
                          {"function": "state_distinguishability", "args": desc, "impl": float(val), "certified": [L, H], "tau": tau, "theorem": thm, "cplx": inst["cplx"],
                           "presentation": describe(args["vectors"])})
            continue
        got[(strategy, pd, solver)] = float(val)
        # returned measurement (min-error): a valid POVM attaining the value
        if strategy == "min_error":
            try:
                Mv = _meas_values(meas)
                S = sum(Mv)
                povm_res = float(np.max(np.abs(S - np.eye(d))))
                mineig = min(float(np.min(np.linalg.eigvalsh((M + M.conj().T) / 2))) for M in Mv)
                att = float(sum(probs[i] * np.real(np.trace(rhos_f[i] @ Mv[i])) for i in range(k)))
                if povm_res > 1e-4 or mineig < -1e-4 or abs(att - float(val)) > 1e-4:
                    res.violation(f"state_distinguishability(min_error,{pd}): returned measurement is not a POVM attaining the value (sum residual {povm_res:.2e}, min eig {mineig:.2e}, attained {att:.6f} vs {float(val):.6f})",
                                  {"function": "state_distinguishability", "args": desc, "impl": float(val), "povm_residual": povm_res, "min_eig": mineig, "attained": att, "cplx": inst["cplx"]})
            except Exception as e:
                res.count("returned-measurement-unreadable")
    # ---- closed forms and inequalities on the certified interval (min-error)
    if lo is not None and hi is not None and hi - lo <= WIDTH_OK:
        tau = 2e-5
        if k == 2:
            hel = 0.5 + 0.5 * float(np.sum(np.abs(np.linalg.eigvalsh(probs[0] * rhos_f[0] - probs[1] * rhos_f[1]))))
            res.count("closed-form/helstrom")
            if not (lo - tau <= hel <= hi + tau):
                res.violation("certified min-error optimum disagrees with the Helstrom bound (harness or cited closed form wrong)", {"function": "helstrom", "args": base, "helstrom": hel, "certified": [lo, hi]})
        if inst["kind"] == "orthogonal" and inst["form"] != "dm_mixed":
            res.count("closed-form/orthogonal")
            if hi < 1 - 1e-6:
                res.violation("certified optimum below 1 for mutually orthogonal states (harness error)", {"function": "orthogonal", "args": base, "certified": [lo, hi]})
        res.count("closed-form/max-prior")
        if hi < maxp - 1e-9:
            res.violation("certified optimum below the largest prior (harness error)", {"function": "maxprior", "args": base, "certified": [lo, hi]})
        if lo > 1 + 1e-9:
            res.violation("certified optimum above 1 (harness error)", {"function": "le_one", "args": base, "certified": [lo, hi]})
        if ulo is not None:
            res.count("closed-form/unamb-le-minerr")
            if ulo > hi + 1e-6:
                res.violation("unambiguous value exceeds the min-error value (harness error)", {"function": "unamb_le_minerr", "args": base, "certified": [lo, hi], "unamb": [ulo, uhi]})
    # ---- closed forms on the certified interval (unambiguous, Gram form)
    cf_unamb = None  # (name, value, theorem)
    if pure:
        G_f = (V.H() @ V).to_float()
        if k == 2 and probs[0] == probs[1]:
            cf_unamb = ("unamb-two-state", 1.0 - abs(G_f[0, 1]), "unamb_two_unit_vectors")
        elif inst["kind"] == "dependent":
            cf_unamb = ("unamb-dependent-zero", 0.0, "unamb_value_zero_of_all_dependent")
        if cf_unamb is not None and ulo is not None:
            res.count("closed-form/" + cf_unamb[0])
            if not (ulo - 2e-5 <= cf_unamb[1] <= uhi + 2e-5):
                res.violation(f"certified unambiguous optimum disagrees with the closed form {cf_unamb[0]} (harness or closed form wrong)",
                              {"function": cf_unamb[0], "args": base, "closed_form": cf_unamb[1], "certified": [ulo, uhi], "theorem": cf_unamb[2]})
        if ulo is not None and (ulo < -1e-9 or ulo > 1 + 1e-9):
            res.violation("certified unambiguous optimum outside [0, 1] (harness error)", {"function": "unamb_range", "args": base, "certified": [ulo, uhi]})
    # ---- pretty good measurement (toqito's) against the certified interval: P_pgm <= P_opt (pgm_le_dual), P_opt^2 <= P_pgm (Barnum-Knill, cited)
    pgm_val = None
    try:
        from toqito.measurements import pretty_good_measurement
        Pavg = sum(probs[i] * rhos_f[i] for i in range(k))
        if float(np.min(np.linalg.eigvalsh((Pavg + Pavg.conj().T) / 2))) >= 1e-6:
            pg_states, pg_probs = present_list(call_rng(inst.get("pres"), "pgm"), states, force_real=inst.get("real_idx", ())), list(probs)
            pg_guard = Pure(pg_states, pg_probs)
            Gs = [np.asarray(g, dtype=complex) for g in pretty_good_measurement(pg_states, pg_probs)]
            if pg_guard.modified() is not None:
                res.violation(f"pretty_good_measurement: caller's arguments were modified ({pg_guard.modified()})",
                              {"function": "pretty_good_measurement", "args": base, "modified": pg_guard.modified(), "presentation": describe(pg_states), "check": "purity"})
            if all(np.all(np.isfinite(g)) for g in Gs) and float(np.max(np.abs(sum(Gs) - np.eye(d)))) <= 1e-7:
                pgm_val = float(sum(probs[i] * np.real(np.trace(rhos_f[i] @ Gs[i])) for i in range(k)))
            else:
                res.count("pgm/not-a-povm-numerically")
        else:
            res.count("pgm/singular-average-state-skipped")
    except Exception as e:
        res.count("pgm/raise:" + type(e).__name__)
    if pgm_val is not None and lo is not None and hi is not None and hi - lo <= WIDTH_OK:
        res.count("closed-form/pgm-le-opt")
        if pgm_val > hi + 1e-6 or lo * lo > pgm_val + 1e-6 + 2 * WIDTH_OK:
            res.violation(f"pretty good measurement's success probability {pgm_val:.8f} outside [P_opt^2, P_opt] for the certified optimum [{lo:.8f}, {hi:.8f}]",
                          {"function": "pretty_good_measurement", "args": base, "pgm": pgm_val, "certified": [lo, hi], "theorem": "pgm_le_dual (upper); Barnum-Knill (lower, cited)"})
    # ---- the same closed forms on the values toqito returned (tolerance of the solver; calls already reported above are not in `got`)
    hel = None
    if k == 2:
        hel = 0.5 * (probs[0] + probs[1]) + 0.5 * float(np.sum(np.abs(np.linalg.eigvalsh(probs[0] * rhos_f[0] - probs[1] * rhos_f[1]))))
    for (strategy, pd, solver), v in got.items():
        tau = TAU.get(solver, 1e-3)
        desc = dict(base, strategy=strategy, primal_dual=pd, solver=solver, probs_given=inst["probs_given"])
        bad = []
        if strategy == "min_error":
            if hel is not None:
                res.count("impl-closed-form/helstrom")
                if abs(v - hel) > tau:
                    bad.append(("Helstrom value", hel, "helstrom_isLUB_normalised"))
            if inst["kind"] == "orthogonal" and inst["form"] != "dm_mixed":
                res.count("impl-closed-form/orthogonal")
                if abs(v - 1.0) > tau:
                    bad.append(("1 (mutually orthogonal states)", 1.0, "minErr_orthogonal_eq_one"))
            res.count("impl-closed-form/range")
            if v < maxp - tau:
                bad.append((">= largest prior", maxp, "minErr_ge_prior"))
            if v > 1 + tau:
                bad.append(("<= 1", 1.0, "minErr_le_one"))
            if pgm_val is not None:
                res.count("impl-closed-form/pgm-le-opt")
                if pgm_val > v + tau:
                    bad.append((">= pretty good measurement's success probability", pgm_val, "pgm_le_dual"))
        else:
            if cf_unamb is not None:
                res.count("impl-closed-form/" + cf_unamb[0])
                if abs(v - cf_unamb[1]) > tau:
                    bad.append((cf_unamb[0], cf_unamb[1], cf_unamb[2]))
            res.count("impl-closed-form/unamb-range")
            if v < -tau or v > 1 + tau:
                bad.append(("within [0, 1]", 1.0, "unamb_zero_feasible / unamb_le_sum_prior"))
            me = [w for (st, _, _), w in got.items() if st == "min_error"]
            if me:
                res.count("impl-closed-form/unamb-le-minerr")
                if v > max(me) + 2 * tau:
                    bad.append(("<= min-error value (cited reduction)", max(me), "cited"))
        for (name, ref, thm) in bad:
            res.violation(f"state_distinguishability({strategy},{pd},{solver}) = {v:.8f} violates the closed form / bound: {name} = {ref:.8f}",
                          {"function": "state_distinguishability", "args": desc, "impl": v, "closed_form": name, "reference": ref, "tau": tau, "theorem": thm, "cplx": inst["cplx"]})


def work_invariance(task, res: Result):
    """unitary and relabelling invariance of the implementation's value (exact rational unitary)"""
    from toqito.state_opt import state_distinguishability
    warnings.filterwarnings("ignore")
    inst, U, perm = task
    states, probs = inst["states"], inst["probs"]
    vecs = [np.asarray(s) for s in states]

    def rot(s):
        a = np.asarray(s)
        if a.ndim == 1:
            return U @ a
        if a.shape[1] == 1:
            return U @ a
        return U @ a @ U.conj().T

    ri = list(inst.get("real_idx", ()))
    a0 = present_list(call_rng(inst.get("pres"), "inv0"), vecs, force_real=ri)
    a2 = present_list(call_rng(inst.get("pres"), "inv2"), [vecs[i] for i in perm], force_real=[n for n, i in enumerate(perm) if i in ri])
    try:
        v0, _ = state_distinguishability(a0, probs)
        v1, _ = state_distinguishability(present_list(call_rng(inst.get("pres"), "inv1"), [rot(s) for s in vecs]), probs)
        v2, _ = state_distinguishability(a2, [probs[i] for i in perm])
    except Exception as e:
        res.case({"fn": "invariance", "k": inst["k"], "d": inst["d"]}, False, "invariance/raise")
        return
    desc = {"fn": "invariance", "d": inst["d"], "k": inst["k"], "cplx": inst["cplx"], "form": inst["form"], "perm": perm, "states": vecs, "probs": probs, "U": U,
            "pres": inst.get("pres"), "real_idx": ri}
    res.case(desc, True, "invariance")
    if abs(v0 - v1) > 4e-5 or abs(v0 - v2) > 4e-5:
        res.violation(f"min-error value not invariant: base {v0:.8f}, common unitary {v1:.8f}, relabelled {v2:.8f}", {"function": "state_distinguishability", "args": desc, "values": [v0, v1, v2], "theorem": "minErr value is a function of the ensemble up to unitary/relabelling"})


def run(ctx, model_ok=True):
    rng = ctx.rng
    quick = ctx.tier == "quick"
    ctx.matchers["unamb_dual_complex_typeerror"] = lambda info: (info.get("args", {}).get("strategy") == "unambiguous" and info.get("args", {}).get("primal_dual") == "dual"
                                                                  and info.get("cplx") and "exception" in info and "TypeError" in info["exception"])
    n_inst = 160 if quick else 1200
    solvers = ["cvxopt"]
    tasks = []
    prs = rng.spawn(1)[0]   # presentation stream: a child of the seeded generator (spawning does not consume the parent's draws)
    for i in range(n_inst):
        inst = vary_ensemble(prs, gen_instance(rng, quick))
        calls = [("min_error", "primal", "cvxopt"), ("min_error", "dual", "cvxopt"), ("unambiguous", "primal", "cvxopt"), ("unambiguous", "dual", "cvxopt")]
        tasks.append((inst, calls))
    # closed-form stream: the families with a proved closed form, through the same worker
    for i in range(24 if quick else 180):
        inst = vary_ensemble(prs, gen_instance(rng, quick, family=["pair", "dependent", "orthogonal"][i % 3]))
        tasks.append((inst, [("min_error", "primal", "cvxopt"), ("min_error", "dual", "cvxopt"), ("unambiguous", "primal", "cvxopt"), ("unambiguous", "dual", "cvxopt")]))
    run_pool(ctx, work, tasks)
    inv = []
    for i in range(24 if quick else 160):
        inst = vary_ensemble(prs, gen_instance(rng, quick))
        U = qgen.cayley_unitary(rng, inst["d"], inst["cplx"])
        if not inst["cplx"]:
            U = np.real(U)
        inv.append((inst, U, [int(x) for x in rng.permutation(inst["k"])]))
    run_pool(ctx, work_invariance, inv)
    ctx.extra["tolerances"] = TAU
    ctx.extra["certified_interval_width_bound"] = WIDTH_OK


def replay(ctx, rec):
    a = rec["args"]
    inst = {"d": a["d"], "k": a["k"], "cplx": a["cplx"], "form": a["form"], "kind": a.get("kind", "random"), "probs": a["probs"], "probs_given": a.get("probs_given", True),
            "pres": a.get("pres"), "real_idx": a.get("real_idx") or []}

    def arr(s):
        x = np.array([[complex(e["re"], e["im"]) if isinstance(e, dict) else e for e in row] if isinstance(row, list) else (complex(row["re"], row["im"]) if isinstance(row, dict) else row) for row in s])
        return x
    inst["states"] = [arr(s) for s in a["states"]]
    res = Result()
    work((inst, [(a["strategy"], a["primal_dual"], a["solver"])]), res)
    from ..pool import fold
    fold(ctx, res)
