"""C10: state_distinguishability (min-error and unambiguous, primal and dual) against certified intervals.

For each instance the exact dyadic images of the float inputs handed to toqito define the instance; an exact
feasible POVM (lower bound) and an exact dual-feasible operator (upper bound) are built by untrusted means
and accepted only by the verified Lean checker (theorems checkMinErrPrimal_sound / checkMinErrDual_sound /
checkUnamb*_sound in lean/Toq/Properties/C10.lean).  The value returned by toqito must lie in [lo - tau, hi + tau].

On top of the intervals, the closed forms proved for all instances in Properties/C10.lean are compared with BOTH the certified
interval (a disagreement there is a harness error) and toqito's returned values: Helstrom for two states (helstrom_isLUB_normalised),
1 for mutually orthogonal states (minErr_orthogonal_eq_one), >= largest prior (minErr_ge_prior), <= 1 (minErr_le_one), >= the success
probability of toqito's pretty good measurement (pgm_le_dual), unambiguous value 1 - |<psi|phi>| for two equiprobable pure states
(unamb_two_unit_vectors), 0 for linearly dependent pure states (unamb_value_zero_of_all_dependent), within [0, 1]
(unamb_zero_feasible / unamb_le_sum_prior) and <= the min-error value (unamb_le_minErr); two pure states with any prior (Jaeger-Shimony: unamb_two_states_unbalanced /
unamb_two_states_jaeger_shimony), orthonormal states (unamb_orthonormal).  Further streams (history, embedding, front, post): see RULE."""
from __future__ import annotations

import warnings
from fractions import Fraction

import numpy as np

from ..cert import DM, chol_factor, frac_json, repair_povm
from ..common import CorrespondenceBroken
from ..exact import Pure, call_rng, describe, present_list, vary_ensemble
from ..pool import Result, run_pool, worker_driver
from .. import qgen

RULE = ("ensembles (2..5 states, dimension 2..4, real/complex integer amplitudes normalised in floating point, vectors as 1-D / column arrays or "
        "density matrices, dyadic priors) from the seeded generator x strategy x primal/dual form x solver; per instance the Lean checker certifies "
        "[lo, hi] for the exact image of the inputs; non-trivial = certified interval clear of the trivial bounds (max prior + 1e-2 <= value <= 1 - 1e-2 "
        "for min-error; 1e-2 <= value for unambiguous) ; distinct = hash of the instance and call form; a second, smaller stream forces the "
        "closed-form families (pure pairs with equal and with unequal priors, linearly dependent sets, orthonormal sets) through the same worker; "
        "presentation: every call receives the same values in a freshly drawn presentation per list element (C / Fortran / strided memory layout; real-valued "
        "states as float64, integer-valued ones as int64), one in three complex ensembles of the kinds random / near has some states made real-valued "
        "(real-dtype first element followed by complex ones, or the reverse; also computational basis vectors), priors with exact zeros, uniform priors given "
        "explicitly or as None; the caller's list, arrays and priors must be untouched by every call and a repeated call on the same objects (one in four calls) "
        "must return the same value; is_distinguishable is called on every ensemble whose default (min-error, dual) call returned (non-trivial = a dual certificate "
        "puts the optimum below 1 - 1e-3, or the returned value is within 5e-6 of 1); stream `history`: default call on A, call with coarse solver options (kwargs) on B, "
        "default call on A again, per strategy x form; stream `embedding`: per instance and form the picos program handed to Problem.solve is captured (never solved) and "
        "compared with the Lean program sd_program (sdPrepare / sdGram on the exact images of the arrays as given, probs None included) at exact points -- a random interior point "
        "and the repaired optimum of the reference solver (non-trivial = point certified feasible by the verified checker) -- and at negative controls derived from them "
        "(each violating one constraint of the model by >= 1e-2); stream `front`: 1-D / column / row / square / mixed / mismatching / non-square argument lists x "
        "strategy, primal_dual given or omitted x probs given or None against the Lean mirror sdFront of the argument check and dispatch; stream `post`: "
        "is_distinguishable with state_distinguishability replaced by a recorder returning chosen values around the np.isclose threshold against sdDistTest"
        " || call forms: every value call hands the options over in a form drawn from the call-form stream (3 in 10 all keywords; otherwise all positional in the "
        "documented order (vectors, probs, strategy, solver, primal_dual), positional with trailing defaults omitted -- state_distinguishability(states, probs, 'unambiguous') --, "
        "strategy (and solver) positional + the rest by keyword, keywords in reversed order with defaults omitted); all forms bind the same options "
        "(sd_bind_positional_eq_keyword) so the same certified interval applies; stream `front` draws 0..3 positional options, keyword order, a pass-through solver option and "
        "ill-formed calls (an option twice, a fourth positional value: TypeError) against sdFrontCall, and compares the solver handed to picos when one was given; "
        "is_distinguishable(states, probs) and is_distinguishable(states=, probs=) alternate"
        " || family orth+null (24 quick / 160): 2..d mutually orthogonal states (Cayley-unitary columns or basis vectors) with dyadic priors + one or two states overlapping them "
        "(squared overlap in [0.1, 0.9] with an occurring state) with prior exactly 0 (4 in 6), 2^-33 or 1e-10, inserted at seeded list positions, as 1-D / column vectors / density "
        "matrices: min-error primal and dual must return 1 (certified interval; minErr_support_orthogonal_eq_one, minErr_ge_orthogonal_part) and is_distinguishable must answer True")
ASSUMPTIONS = [
    "toqito computes with the float inputs it is given; the instance certified is their exact dyadic image (difference <= 1e-15 relative)",
    "tolerance 2e-5 on CVXOPT-solved values (declared in DESIGN.md 4.4), 1e-3 for SCS",
    "unambiguous discrimination is computed in Gram form; that its values are exactly the success probabilities of unambiguous measurements is proved (unamb_values_eq_measurement_values)",
    "closed forms are evaluated in float64 on the same float inputs (eigvalsh / inner products, error <= 1e-12) and compared with tolerance tau",
    "pretty good measurement: compared only when sum_i p_i rho_i has smallest eigenvalue >= 1e-6 (P^(-1/2) exists; C19 covers the PGM itself)",
    "embedding: picos evaluates the captured affine expressions in float64 at the float image of an exact point; agreement with the model's exact value is demanded to 1e-12 x scale "
    "(objective) and 1e-9 (feasibility of certified points); picos' own expression evaluation is trusted, the solver is not involved",
    "embedding / front / post compare STRUCTURE (variables, dispatch, argument pass-through): a mismatch there that is not a wrong value on a concrete input is reported as "
    "CorrespondenceBroken, not as a failing input",
    "history: CVXOPT is deterministic for identical inputs and options (observed; equality to 1e-9 demanded)",
    "one call of the implementation gets 8 s (quick) / 12 s (thorough) of CPU time (a normal call: 0.02 .. 0.3 s); a call that does not return in that time is counted "
    "as `call-timeout` (solver runtime behaviour: CVXOPT stalls for tens of thousands of iterations on a few ordinary programs and then raises ZeroDivisionError), not a violation",
]
TAU = {"cvxopt": 2e-5, "scs": 1e-3}
WIDTH_OK = 1e-4  # certified intervals wider than this are counted as uncertified (never a violation by themselves)


# ------------------------------------------------------------------------------------------------
# instance generation (in the parent, so every random choice derives from the one seeded generator)


def gen_instance(rng, quick, family=None):
    """family: None (general stream) or one of "pair" (two equiprobable pure states), "dependent", "orthogonal" (closed-form stream)"""
    d = int(rng.choice([2, 2, 3, 3, 4]))
    k = int(rng.choice([2, 2, 3, 3, 4, 5]))
    cplx = bool(rng.integers(2))
    form = str(rng.choice(["vec1d", "col", "dm", "dm_mixed"]))
    kind = str(rng.choice(["random", "random", "random", "orthogonal", "dependent", "near"]))
    if family is not None:
        form = str(rng.choice(["vec1d", "col", "vec1d", "col", "dm"]))
        if family == "pair":
            k = 2
            kind = str(rng.choice(["random", "random", "near"]))
        elif family == "dependent":
            k = int(rng.choice([3, 3, 4, 5]))
            kind = "dependent"
        else:
            k = int(rng.integers(2, d + 1))
            kind = "orthogonal"
    if family == "orth+null":
        return gen_orth_null(rng)
    vecs = []
    if kind == "orthogonal" and k <= d:
        U = qgen.cayley_unitary(rng, d, cplx)
        vecs = [U[:, i] for i in range(k)]
    elif kind == "dependent" and k >= 3:
        base = [qgen.unit(qgen.int_vector(rng, d, cplx)) for _ in range(k - 1)]
        c = rng.integers(1, 4, size=k - 1)
        comb = sum(ci * b for ci, b in zip(c, base))
        if np.linalg.norm(comb) < 1e-9:   # the combination cancelled (b_2 = -b_1 with equal weights): take another one
            comb = sum((ci + (1 if n == 0 else 0)) * b for n, (ci, b) in enumerate(zip(c, base)))
        vecs = base + [qgen.unit(comb)]
    elif kind == "near":
        v0 = qgen.int_vector(rng, d, cplx, lim=8)
        vecs = [qgen.unit(v0)]
        for _ in range(k - 1):
            e = np.zeros(d, dtype=complex)
            e[int(rng.integers(d))] = 1
            vecs.append(qgen.unit(v0 + e if np.any(v0 + e != 0) else v0 + 2 * e))
    else:
        kind = "random"
        vecs = [qgen.unit(qgen.int_vector(rng, d, cplx)) for _ in range(k)]
    probs = qgen.dyadic_probs(rng, k)
    if k >= 3 and rng.integers(8) == 0:
        z = int(rng.integers(k))          # "any prior": an exact zero entry
        rest = qgen.dyadic_probs(rng, k - 1)
        probs = rest[:z] + [0.0] + rest[z:]
    if family == "pair" and rng.integers(2):
        probs = [0.5, 0.5]      # equiprobable pair (unamb_two_unit_vectors); otherwise the dyadic prior drawn above (Jaeger-Shimony regimes)
    if form == "dm_mixed":
        states = [qgen.rand_density(rng, d, int(rng.integers(1, d + 1)), cplx) for _ in range(k)]
    elif form == "dm":
        states = [np.outer(v, v.conj()) for v in vecs]
    elif form == "col":
        states = [v.reshape(-1, 1) for v in vecs]
    else:
        states = [v for v in vecs]
    if not cplx:
        states = [np.real(s) for s in states]
    if not cplx:
        vecs = [np.real(v) for v in vecs]
    return {"d": d, "k": k, "cplx": cplx, "form": form, "kind": kind, "states": [np.asarray(s).tolist() if False else s for s in states],
            "vecs": (None if form == "dm_mixed" else vecs), "probs": probs, "probs_given": bool(rng.integers(4) > 0) or len(set(probs)) > 1}


NULL_PRIORS = (0.0, 0.0, 0.0, 0.0, 2.0 ** -33, 1e-10)


def gen_orth_null(rng):
    """family "orth+null": the states that occur (prior > 0) are mutually orthogonal, one or two further listed states overlap them and
    carry the prior 0 (or 2^-33 / 1e-10), at seeded places of the list.  The minimum-error value of (states, probs) is 1
    (minErr_support_orthogonal_eq_one; >= 1 - 2.4e-10 for the tiny priors: minErr_ge_orthogonal_part) and is_distinguishable(states, probs) must
    answer True, although the same states with the uniform prior are not perfectly distinguishable (the overlapping state has squared
    overlap >= 1/10 with an occurring one, so that value is below 1 by far more than np.isclose allows)."""
    d = int(rng.choice([2, 2, 3, 3, 4]))
    cplx = bool(rng.integers(2))
    k0 = int(rng.integers(2, d + 1))
    if rng.integers(3) == 0:
        cols = [int(c) for c in rng.permutation(d)[:k0]]
        orth = [np.eye(d, dtype=complex)[:, c] for c in cols]                  # computational basis vectors
    else:
        U = qgen.cayley_unitary(rng, d, cplx)
        orth = [U[:, i] for i in range(k0)]
    n_null = 2 if (k0 + 2 <= 5 and rng.integers(4) == 0) else 1
    nulls = []
    while len(nulls) < n_null:
        v = qgen.unit(qgen.int_vector(rng, d, cplx))
        ov = [abs(np.vdot(u, v)) ** 2 for u in orth]
        if 0.1 <= max(ov) <= 0.9:
            nulls.append(v)
    eps = float(NULL_PRIORS[int(rng.integers(len(NULL_PRIORS)))])
    pos_p = qgen.dyadic_probs(rng, k0)
    vecs = [(u, p * (1.0 - n_null * eps)) for u, p in zip(orth, pos_p)]
    for v in nulls:
        vecs.insert(int(rng.integers(len(vecs) + 1)), (v, eps))
    probs = [float(p) for _, p in vecs]
    vecs = [v for v, _ in vecs]
    form = str(rng.choice(["vec1d", "col", "dm"]))
    if form == "dm":
        states = [np.outer(v, v.conj()) for v in vecs]
    elif form == "col":
        states = [v.reshape(-1, 1) for v in vecs]
    else:
        states = list(vecs)
    if not cplx:
        states = [np.real(x) for x in states]
        vecs = [np.real(v) for v in vecs]
    return {"d": d, "k": len(vecs), "cplx": cplx, "form": form, "kind": "orth+null", "states": states, "vecs": vecs, "probs": probs, "probs_given": True,
            "null_prior": eps}


# ------------------------------------------------------------------------------------------------
# bounded calls of the implementation (CVXOPT occasionally stalls for minutes on an ordinary program before it ends in a ZeroDivisionError)


class CallTimeout(BaseException):
    """raised by the CPU-time limit around one call of the implementation (BaseException: must not be swallowed by `except Exception`)"""


CALL_LIMIT_S = {"quick": 8.0, "thorough": 12.0}   # a normal call takes 0.02 .. 0.3 s
_tier = "quick"


def _limited(fn, *a, **kw):
    """run fn with a CPU-time limit (SIGVTALRM, independent of the pool's wall-clock SIGALRM); raises CallTimeout"""
    import signal

    def h(signum, frame):
        raise CallTimeout()

    old = signal.signal(signal.SIGVTALRM, h)
    signal.setitimer(signal.ITIMER_VIRTUAL, CALL_LIMIT_S.get(_tier, 8.0))
    try:
        return fn(*a, **kw)
    finally:
        signal.setitimer(signal.ITIMER_VIRTUAL, 0)
        signal.signal(signal.SIGVTALRM, old)


# ------------------------------------------------------------------------------------------------
# worker


def _dms_exact(states):
    """exact dyadic density operators = exact image of what to_density_matrix computes from the float input"""
    out = []
    for s in states:
        a = np.asarray(s)
        if a.ndim == 1 or 1 in a.shape:
            v = DM.exact_float(a.reshape(-1, 1))
            out.append((v @ v.H()))
        else:
            out.append(DM.exact_float(a).herm_part())
    return out


def _solve(prob):
    """untrusted reference solve: CLARABEL first (robust on degenerate instances), then CVXOPT, then SCS"""
    import cvxpy as cp
    last = None
    for kw in (dict(solver=cp.CLARABEL), dict(solver=cp.CVXOPT, abstol=1e-9, reltol=1e-9, feastol=1e-9), dict(solver=cp.CVXOPT), dict(solver=cp.SCS, eps=1e-9, max_iters=20000)):
        try:
            prob.solve(**kw)
            if prob.status in ("optimal", "optimal_inaccurate") and all(v.value is not None for v in prob.variables()):
                return
        except Exception as e:
            last = e
    raise RuntimeError(f"reference solve failed: {last}")


def _solve_ref(rhos_f, probs):
    """independent solve (cvxpy) for certificate candidates: returns (POVM list, Y) as float arrays"""
    import cvxpy as cp
    d = rhos_f[0].shape[0]
    k = len(rhos_f)
    Ms = [cp.Variable((d, d), hermitian=True) for _ in range(k)]
    cons = [M >> 0 for M in Ms] + [sum(Ms) == np.eye(d)]
    obj = cp.Maximize(cp.real(sum(probs[i] * cp.trace(rhos_f[i] @ Ms[i]) for i in range(k))))
    pr = cp.Problem(obj, cons)
    _solve(pr)
    Mv = [np.array(M.value) for M in Ms]
    Y = cp.Variable((d, d), hermitian=True)
    pd = cp.Problem(cp.Minimize(cp.real(cp.trace(Y))), [Y - probs[i] * rhos_f[i] >> 0 for i in range(k)])
    _solve(pd)
    return Mv, np.array(Y.value)


def certify_minerr(drv, rhos, probs, Ms_f, Y_f):
    """returns (lo, hi, why) as floats/None using the Lean checker"""
    d = rhos[0].re.shape[0]
    k = len(rhos)
    pj = [frac_json(DM.exact_float(np.array([[p]])).frac(0, 0)[0]) for p in probs]
    lo = hi = None
    why = []
    if Ms_f is not None:
        P = repair_povm(Ms_f)
        Ls = [chol_factor(M.to_float()) for M in P]
        if all(L is not None for L in Ls):
            r = drv.ask("minerr_primal", {"d": d, "rho": [r_.json() for r_ in rhos], "p": pj, "M": [M.json() for M in P], "LM": [L.json() for L in Ls]})
            if "ok" in r:
                lo = r["ok"][0] / r["ok"][1]
            else:
                why.append("primal:" + r["reject"])
        else:
            why.append("primal:cholesky")
    if Y_f is not None:
        Y = DM.from_float((Y_f + Y_f.conj().T) / 2, 40).herm_part() + DM.eye(d).scale_dy(1, 24)
        Ls = []
        for i in range(k):
            pi = DM.exact_float(np.array([[probs[i]]]))
            A = Y - rhos[i].scale_dy(int(pi.re[0, 0]), pi.e)
            Ls.append(chol_factor(A.to_float()))
        if all(L is not None for L in Ls):
            r = drv.ask("minerr_dual", {"d": d, "rho": [r_.json() for r_ in rhos], "p": pj, "Y": Y.json(), "LY": [L.json() for L in Ls]})
            if "ok" in r:
                hi = r["ok"][0] / r["ok"][1]
            else:
                why.append("dual:" + r["reject"])
        else:
            why.append("dual:cholesky")
    return lo, hi, why


def _solve_unamb_ref(G, probs):
    import cvxpy as cp
    k = G.shape[0]
    q = cp.Variable(k, nonneg=True)
    pr = cp.Problem(cp.Maximize(np.array(probs) @ q), [G - cp.diag(q) >> 0])
    _solve(pr)
    Z = cp.Variable((k, k), hermitian=True)
    pd = cp.Problem(cp.Minimize(cp.real(cp.trace(G @ Z))), [Z >> 0] + [cp.real(Z[i, i]) >= probs[i] for i in range(k)])
    _solve(pd)
    return np.array(q.value), np.array(Z.value)


def certify_unamb(drv, V: DM, probs, q_f, Z_f):
    """V: exact d x k matrix of the (float) vectors; G = V^H V exactly"""
    k = V.re.shape[1]
    G = V.H() @ V
    pj = [frac_json(DM.exact_float(np.array([[p]])).frac(0, 0)[0]) for p in probs]
    lo = hi = None
    why = []
    # q = 0 is always feasible with the exact factor L = V^H: lower bound 0
    lo = 0.0
    if q_f is not None:
        qd = [max(0, int(np.floor(float(x) * (1 - 2.0 ** -18) * (1 << 40))) - (1 << 16)) for x in q_f]
        A = G - DM(np.diag(np.array(qd, dtype=object)) + np.zeros((k, k), dtype=object), np.zeros((k, k), dtype=object) * 0, 40)
        L = chol_factor(A.to_float())
        if L is not None:
            r = drv.ask("unamb_primal", {"k": k, "G": G.json(), "p": pj, "q": [[x, 1 << 40] for x in qd], "L": L.json()})
            if "ok" in r:
                lo = max(lo, r["ok"][0] / r["ok"][1])
            else:
                why.append("primal:" + r["reject"])
        else:
            why.append("primal:cholesky")
    if Z_f is not None:
        Z = DM.from_float((Z_f + Z_f.conj().T) / 2, 40).herm_part() + DM.eye(k).scale_dy(1, 22)
        L = chol_factor(Z.to_float())
        if L is not None:
            r = drv.ask("unamb_dual", {"k": k, "G": G.json(), "p": pj, "Z": Z.json(), "LZ": L.json()})
            if "ok" in r:
                hi = r["ok"][0] / r["ok"][1]
            else:
                why.append("dual:" + r["reject"])
        else:
            why.append("dual:cholesky")
    return lo, hi, why


# call forms of state_distinguishability(vectors, probs, strategy, solver, primal_dual): the options by keyword (as toqito's own callers
# write them), by position in the order of the public signature, or mixed -- Python's binding rule is modelled by sdBind
# (lean/Toq/Model/DiscrimCall.lean), sd_bind_positional_eq_keyword: every well-formed form binds the same three options
CALL_FORMS = ("kw", "pos", "pos-min", "pos1", "pos2", "kw-min")
_OPT_NAMES = ("strategy", "solver", "primal_dual")
_OPT_DEFAULTS = ("min_error", "cvxopt", "dual")


def call_form_args(form, vectors, probs, strategy, solver, pd):
    """(positional arguments, keyword arguments) of the call in the given form; every form binds vectors, probs, strategy, solver, primal_dual
    to the given values under the documented signature"""
    opts = (strategy, solver, pd)
    if form == "pos":
        return (vectors, probs) + opts, {}
    if form == "pos-min":          # positional, trailing options that equal the documented default omitted: f(states, probs, "unambiguous")
        n = max([i + 1 for i in range(3) if opts[i] != _OPT_DEFAULTS[i]] or [0])
        return (vectors, probs) + opts[:n], {}
    if form == "pos1":
        return (vectors, probs, strategy), {"solver": solver, "primal_dual": pd}
    if form == "pos2":
        return (vectors, probs, strategy, solver), {"primal_dual": pd}
    if form == "kw-min":           # keywords, in another order, defaults omitted
        kw = {n: v for n, v, dflt in reversed(list(zip(_OPT_NAMES, opts, _OPT_DEFAULTS))) if v != dflt}
        return (vectors,), dict(kw, probs=probs)
    return (), dict(vectors=vectors, probs=probs, strategy=strategy, solver=solver, primal_dual=pd)


def call_form_model(form, strategy, solver, pd):
    """(pos, kw) of the same call for the Lean binder sd_front_call (options after vectors, probs)"""
    a, kw = call_form_args(form, None, None, strategy, solver, pd)
    return list(a[2:]), [[n, v] for n, v in kw.items() if n in _OPT_NAMES]


def _meas_values(meas):
    out = []
    for m in meas:
        v = getattr(m, "value", m)
        out.append(np.array(v, dtype=complex))
    return out


def work(task, res: Result):
    from toqito.state_opt import state_distinguishability
    warnings.filterwarnings("ignore")
    inst, calls = task
    drv = worker_driver()
    states, probs, d, k = inst["states"], inst["probs"], inst["d"], inst["k"]
    rhos = _dms_exact(states)
    rhos_f = [r.to_float() for r in rhos]
    base = {kk: inst[kk] for kk in ("d", "k", "cplx", "form", "kind", "probs")}
    base["states"] = [np.asarray(s) for s in states]
    base["pres"], base["real_idx"] = inst.get("pres"), list(inst.get("real_idx", ()))
    # ---- min-error: certified interval
    try:
        Ms_ref, Y_ref = _solve_ref(rhos_f, probs)
    except Exception as e:
        res.count("uncertified/ref-solve-failed")
        return
    lo, hi, why = certify_minerr(drv, rhos, probs, Ms_ref, Y_ref)
    if lo is None or hi is None or hi - lo > WIDTH_OK:
        res.count("uncertified/minerr:" + ";".join(why)[:60])
        lo_u = hi_u = None
    # state vectors of a pure ensemble: the inputs themselves (vector forms) or the generator's vectors behind form "dm"
    # (replayed "dm" records carry no vectors: no Gram-form interval then)
    if inst["form"] in ("vec1d", "col"):
        vec_list = [np.asarray(s).reshape(-1) for s in states]
    elif inst["form"] == "dm" and inst.get("vecs") is not None:
        vec_list = [np.asarray(v).reshape(-1) for v in inst["vecs"]]
    else:
        vec_list = None
    pure = vec_list is not None
    ulo = uhi = None
    if pure:
        V = DM.exact_float(np.stack(vec_list, axis=1))
        try:
            q_ref, Z_ref = _solve_unamb_ref((V.H() @ V).to_float(), probs)
            ulo, uhi, uwhy = certify_unamb(drv, V, probs, q_ref, Z_ref)
        except Exception:
            ulo = uhi = None
        if ulo is None or uhi is None or uhi - ulo > WIDTH_OK:
            res.count("uncertified/unamb")
            ulo = uhi = None
    maxp = max(probs)
    got = {}  # (strategy, primal_dual, solver) -> value returned by toqito (calls that returned and passed the interval check)
    for call in calls:
        strategy, pd, solver = call[:3]
        cform = call[3] if len(call) > 3 else "kw"
        if strategy == "unambiguous" and inst["form"] not in ("vec1d", "col"):
            continue  # the Gram-matrix program is defined for state vectors only
        desc = dict(base, strategy=strategy, primal_dual=pd, solver=solver, probs_given=inst["probs_given"], call_form=cform)
        # the same values in a presentation drawn for this call (layout / real and integer dtypes, independently per list element)
        prng = call_rng(inst.get("pres"), strategy, pd, solver)
        args = dict(vectors=present_list(prng, states, force_real=inst.get("real_idx", ())), probs=(list(probs) if inst["probs_given"] else None),
                    strategy=strategy, solver=solver, primal_dual=pd)
        # the call in its form: options by keyword / by position in the documented order / mixed (all bind the same values: sd_bind_positional_eq_keyword)
        c_pos, c_kw = call_form_args(cform, args["vectors"], args["probs"], strategy, solver, pd)
        desc["call"] = ("state_distinguishability(" + ", ".join(["vectors", "probs"][:len(c_pos)] + [repr(x) for x in c_pos[2:]]
                                                                  + [f"{n}={'probs' if n == 'probs' else 'vectors' if n == 'vectors' else repr(v)}" for n, v in c_kw.items()]) + ")")
        res.count(f"call-form/{cform}")
        guard = Pure(*c_pos, **c_kw)
        try:
            val, meas = _limited(state_distinguishability, *c_pos, **c_kw)
            why_mod = guard.modified()
            val2 = None
            if why_mod is None and prng is not None and int(prng.integers(4)) == 0:
                try:
                    val2 = float(_limited(state_distinguishability, *c_pos, **c_kw)[0])   # the SAME objects again
                    why_mod = guard.modified()
                except (ArithmeticError, ZeroDivisionError, CallTimeout):
                    res.count("repeat-call/solver-numerical-failure")
        except CallTimeout:
            # the solver does not terminate within the CPU budget of one call (runtime behaviour of the solver, DESIGN.md section 10): counted,
            # the remaining calls and checks of this instance go on
            res.case(desc, False, f"{strategy}/{pd}/{solver}/call-timeout")
            continue
        except (ArithmeticError, ZeroDivisionError) as e:
            # CVXOPT's KKT solver breaking down numerically on a degenerate instance: runtime behaviour of the solver,
            # not a statement about the optimum (DESIGN.md section 10); counted, never silently dropped
            res.case(desc, False, f"{strategy}/{pd}/{solver}/solver-numerical-failure")
            continue
        except Exception as e:
            res.case(desc, True, f"{strategy}/{pd}/{solver}/raise")
            res.violation(f"{desc['call'] if cform != 'kw' else f'state_distinguishability({strategy},{pd})'} raises {type(e).__name__}: {str(e)[:120]} on a valid {'complex' if inst['cplx'] else 'real'} ensemble",
                          {"function": "state_distinguishability", "args": desc, "exception": f"{type(e).__name__}: {str(e)[:300]}", "cplx": inst["cplx"],
                           "presentation": describe(args["vectors"])})
            continue
        tau = TAU.get(solver, 1e-3)
        if why_mod is not None:
            res.violation(f"state_distinguishability({strategy},{pd}): caller's arguments were modified ({why_mod})",
                          {"function": "state_distinguishability", "args": desc, "modified": why_mod, "presentation": describe(args["vectors"]), "cplx": inst["cplx"], "check": "purity"})
        elif val2 is not None:
            res.count("repeat-call/checked")
            if abs(val2 - float(val)) > 2 * tau:
                res.violation(f"state_distinguishability({strategy},{pd}): a second call on the same objects returns {val2:.8f}, the first returned {float(val):.8f}",
                              {"function": "state_distinguishability", "args": desc, "values": [float(val), val2], "presentation": describe(args["vectors"]), "cplx": inst["cplx"], "check": "repeat"})
        if strategy == "min_error":
            L, H = lo, hi
            nontriv = L is not None and H is not None and H - L <= WIDTH_OK and (maxp + 1e-2 <= L) and (H <= 1 - 1e-2)
            thm = "checkMinErrPrimal_sound / checkMinErrDual_sound"
        else:
            L, H = ulo, uhi
            nontriv = L is not None and H is not None and L >= 1e-2
            thm = "checkUnambPrimal_sound / checkUnambDual_sound"
        res.case(desc, nontriv, f"{strategy}/{pd}/{solver}/{inst['form']}/{'c' if inst['cplx'] else 'r'}/{inst['kind']}")
        if L is None or H is None:
            got[(strategy, pd, solver)] = float(val)
            continue
        if not (L - tau <= float(val) <= H + tau):
            res.violation(f"{desc['call'] if cform != 'kw' else f'state_distinguishability({strategy},{pd},{solver})'} = {float(val):.8f} outside the certified optimum [{L:.8f}, {H:.8f}]"
                          + ("" if cform == "kw" else f" of the {strategy} program (documented order of the options: strategy, solver, primal_dual)"),
                          {"function": "state_distinguishability", "args": desc, "impl": float(val), "certified": [L, H], "tau": tau, "theorem": thm, "cplx": inst["cplx"],
                           "presentation": describe(args["vectors"])})
            continue
        got[(strategy, pd, solver)] = float(val)
        # returned measurement (min-error): a valid POVM attaining the value
        if strategy == "min_error":
            try:
                Mv = _meas_values(meas)
                S = sum(Mv)
                povm_res = float(np.max(np.abs(S - np.eye(d))))
                mineig = min(float(np.min(np.linalg.eigvalsh((M + M.conj().T) / 2))) for M in Mv)
                att = float(sum(probs[i] * np.real(np.trace(rhos_f[i] @ Mv[i])) for i in range(k)))
                if povm_res > 1e-4 or mineig < -1e-4 or abs(att - float(val)) > 1e-4:
                    res.violation(f"state_distinguishability(min_error,{pd}): returned measurement is not a POVM attaining the value (sum residual {povm_res:.2e}, min eig {mineig:.2e}, attained {att:.6f} vs {float(val):.6f})",
                                  {"function": "state_distinguishability", "args": desc, "impl": float(val), "povm_residual": povm_res, "min_eig": mineig, "attained": att, "cplx": inst["cplx"]})
            except Exception as e:
                res.count("returned-measurement-unreadable")
    # ---- is_distinguishable on the same ensemble (it makes the default call: min_error, dual): False whenever a dual certificate separates the
    # optimum from 1 (sd_dist_test_false_of_dual), True whenever the dual value returned above is 1 to solver accuracy (sd_dist_test_true_of_near_one)
    v_dual = got.get(("min_error", "dual", "cvxopt"))
    if v_dual is not None:
        from toqito.state_props import is_distinguishable
        d_states = present_list(call_rng(inst.get("pres"), "isdist"), states, force_real=inst.get("real_idx", ()))
        d_probs = list(probs) if inst["probs_given"] else None
        d_guard = Pure(d_states, d_probs)
        try:
            f_rng = call_rng(inst.get("pres"), "isdist-form")
            if f_rng is not None and int(f_rng.integers(2)):
                ans = bool(_limited(is_distinguishable, states=d_states, probs=d_probs))
                res.count("is_distinguishable/call-form/kw")
            else:
                ans = bool(_limited(is_distinguishable, d_states, d_probs))
                res.count("is_distinguishable/call-form/pos")
        except (ArithmeticError, ZeroDivisionError, CallTimeout):
            ans = None
            res.count("is_distinguishable/solver-numerical-failure")
        except Exception as e:
            ans = None
            res.violation(f"is_distinguishable raises {type(e).__name__}: {str(e)[:120]} on an ensemble state_distinguishability solved",
                          {"function": "is_distinguishable", "args": dict(base, probs_given=inst["probs_given"]), "exception": f"{type(e).__name__}: {str(e)[:300]}", "cplx": inst["cplx"]})
        if ans is not None:
            ddesc = dict(base, fn="is_distinguishable", probs_given=inst["probs_given"], strategy="min_error", primal_dual="dual", solver="cvxopt")
            if d_guard.modified() is not None:
                res.violation(f"is_distinguishable: caller's arguments were modified ({d_guard.modified()})",
                              {"function": "is_distinguishable", "args": ddesc, "modified": d_guard.modified(), "check": "purity", "cplx": inst["cplx"]})
            sep = hi is not None and lo is not None and hi - lo <= WIDTH_OK and hi < 1 - 1e-3
            one = abs(v_dual - 1.0) <= 5e-6
            res.case(ddesc, sep or one, f"is_distinguishable/{'separated' if sep else 'one' if one else 'undecided'}/{ans}")
            if inst["kind"] == "orth+null":
                res.count(f"is_distinguishable/orth+null/prior={inst.get('null_prior', 0.0)!r}/{'one' if one else 'not-one'}/{ans}")
            if sep and ans:
                res.violation(f"is_distinguishable answers True although no measurement succeeds with probability above the certified {hi:.8f}",
                              {"function": "is_distinguishable", "args": ddesc, "impl": True, "certified": [lo, hi], "theorem": "checkMinErrDual_sound / sd_dist_test_false_of_dual", "cplx": inst["cplx"]})
            if one and not ans:
                res.violation(f"is_distinguishable answers False although state_distinguishability returns {v_dual:.10f} for the same ensemble"
                              + (f" (the states with prior > {inst.get('null_prior', 0.0)!r} are mutually orthogonal: the optimum is 1)" if inst["kind"] == "orth+null" else ""),
                              {"function": "is_distinguishable", "args": ddesc, "impl": False, "value": v_dual, "certified": [lo, hi],
                               "theorem": "sd_dist_test_true_of_near_one" + (" / minErr_support_orthogonal_eq_one" if inst["kind"] == "orth+null" else ""), "cplx": inst["cplx"]})
    # ---- closed forms and inequalities on the certified interval (min-error)
    if lo is not None and hi is not None and hi - lo <= WIDTH_OK:
        tau = 2e-5
        if k == 2:
            hel = 0.5 + 0.5 * float(np.sum(np.abs(np.linalg.eigvalsh(probs[0] * rhos_f[0] - probs[1] * rhos_f[1]))))
            res.count("closed-form/helstrom")
            if not (lo - tau <= hel <= hi + tau):
                res.violation("certified min-error optimum disagrees with the Helstrom bound (harness or closed form wrong)", {"function": "helstrom", "args": base, "helstrom": hel, "certified": [lo, hi]})
        if inst["kind"] == "orthogonal" and inst["form"] != "dm_mixed":
            res.count("closed-form/orthogonal")
            if hi < 1 - 1e-6:
                res.violation("certified optimum below 1 for mutually orthogonal states (harness error)", {"function": "orthogonal", "args": base, "certified": [lo, hi]})
        if inst["kind"] == "orth+null":
            res.count("closed-form/orth+null")
            if hi < 1 - 1e-6:
                res.violation("certified optimum below 1 although the states with non-negligible prior are mutually orthogonal (harness error)",
                              {"function": "orth+null", "args": base, "certified": [lo, hi], "theorem": "minErr_support_orthogonal_eq_one / minErr_ge_orthogonal_part"})
        res.count("closed-form/max-prior")
        if hi < maxp - 1e-9:
            res.violation("certified optimum below the largest prior (harness error)", {"function": "maxprior", "args": base, "certified": [lo, hi]})
        if lo > 1 + 1e-9:
            res.violation("certified optimum above 1 (harness error)", {"function": "le_one", "args": base, "certified": [lo, hi]})
        if ulo is not None:
            res.count("closed-form/unamb-le-minerr")
            if ulo > hi + 1e-6:
                res.violation("unambiguous value exceeds the min-error value (harness error)", {"function": "unamb_le_minerr", "args": base, "certified": [lo, hi], "unamb": [ulo, uhi]})
    # ---- closed forms on the certified interval (unambiguous, Gram form)
    cf_unamb = None  # (name, value, theorem)
    if pure:
        G_f = (V.H() @ V).to_float()
        if k == 2 and probs[0] == probs[1]:
            cf_unamb = ("unamb-two-state", 1.0 - abs(G_f[0, 1]), "unamb_two_unit_vectors")
        elif k == 2:
            # Jaeger-Shimony: every prior (three regimes; primal and dual optimum coincide in each)
            r2 = abs(G_f[0, 1]) ** 2
            p0_, p1_ = float(probs[0]), float(probs[1])
            if p0_ <= r2 * p1_:
                cf_unamb = ("unamb-two-state-unbalanced", p1_ * (1.0 - r2), "unamb_two_states_unbalanced")
            elif p1_ <= r2 * p0_:
                cf_unamb = ("unamb-two-state-unbalanced", p0_ * (1.0 - r2), "unamb_two_states_unbalanced_swap")
            else:
                cf_unamb = ("unamb-two-state-jaeger-shimony", p0_ + p1_ - 2.0 * np.sqrt(r2 * p0_ * p1_), "unamb_two_states_jaeger_shimony")
        elif inst["kind"] == "dependent":
            cf_unamb = ("unamb-dependent-zero", 0.0, "unamb_value_zero_of_all_dependent")
        elif inst["kind"] == "orthogonal":
            cf_unamb = ("unamb-orthonormal", float(sum(probs)), "unamb_orthonormal")
        if cf_unamb is not None and ulo is not None:
            res.count("closed-form/" + cf_unamb[0])
            if not (ulo - 2e-5 <= cf_unamb[1] <= uhi + 2e-5):
                res.violation(f"certified unambiguous optimum disagrees with the closed form {cf_unamb[0]} (harness or closed form wrong)",
                              {"function": cf_unamb[0], "args": base, "closed_form": cf_unamb[1], "certified": [ulo, uhi], "theorem": cf_unamb[2]})
        if ulo is not None and (ulo < -1e-9 or ulo > 1 + 1e-9):
            res.violation("certified unambiguous optimum outside [0, 1] (harness error)", {"function": "unamb_range", "args": base, "certified": [ulo, uhi]})
    # ---- pretty good measurement (toqito's) against the certified interval: P_pgm <= P_opt (pgm_le_dual), P_opt^2 <= P_pgm (Barnum-Knill: minErr_sq_le_pgm_normalised)
    pgm_val = None
    try:
        from toqito.measurements import pretty_good_measurement
        Pavg = sum(probs[i] * rhos_f[i] for i in range(k))
        if float(np.min(np.linalg.eigvalsh((Pavg + Pavg.conj().T) / 2))) >= 1e-6:
            pg_states, pg_probs = present_list(call_rng(inst.get("pres"), "pgm"), states, force_real=inst.get("real_idx", ())), list(probs)
            pg_guard = Pure(pg_states, pg_probs)
            Gs = [np.asarray(g, dtype=complex) for g in pretty_good_measurement(pg_states, pg_probs)]
            if pg_guard.modified() is not None:
                res.violation(f"pretty_good_measurement: caller's arguments were modified ({pg_guard.modified()})",
                              {"function": "pretty_good_measurement", "args": base, "modified": pg_guard.modified(), "presentation": describe(pg_states), "check": "purity"})
            if all(np.all(np.isfinite(g)) for g in Gs) and float(np.max(np.abs(sum(Gs) - np.eye(d)))) <= 1e-7:
                pgm_val = float(sum(probs[i] * np.real(np.trace(rhos_f[i] @ Gs[i])) for i in range(k)))
            else:
                res.count("pgm/not-a-povm-numerically")
        else:
            res.count("pgm/singular-average-state-skipped")
    except Exception as e:
        res.count("pgm/raise:" + type(e).__name__)
    if pgm_val is not None and lo is not None and hi is not None and hi - lo <= WIDTH_OK:
        res.count("closed-form/pgm-le-opt")
        if pgm_val > hi + 1e-6 or lo * lo > pgm_val + 1e-6 + 2 * WIDTH_OK:
            res.violation(f"pretty good measurement's success probability {pgm_val:.8f} outside [P_opt^2, P_opt] for the certified optimum [{lo:.8f}, {hi:.8f}]",
                          {"function": "pretty_good_measurement", "args": base, "pgm": pgm_val, "certified": [lo, hi], "theorem": "pgm_le_dual (upper); minErr_sq_le_pgm_normalised (lower)"})
    # ---- the same closed forms on the values toqito returned (tolerance of the solver; calls already reported above are not in `got`)
    hel = None
    if k == 2:
        hel = 0.5 * (probs[0] + probs[1]) + 0.5 * float(np.sum(np.abs(np.linalg.eigvalsh(probs[0] * rhos_f[0] - probs[1] * rhos_f[1]))))
    for (strategy, pd, solver), v in got.items():
        tau = TAU.get(solver, 1e-3)
        desc = dict(base, strategy=strategy, primal_dual=pd, solver=solver, probs_given=inst["probs_given"])
        bad = []
        if strategy == "min_error":
            if hel is not None:
                res.count("impl-closed-form/helstrom")
                if abs(v - hel) > tau:
                    bad.append(("Helstrom value", hel, "helstrom_isLUB_normalised"))
            if inst["kind"] == "orthogonal" and inst["form"] != "dm_mixed":
                res.count("impl-closed-form/orthogonal")
                if abs(v - 1.0) > tau:
                    bad.append(("1 (mutually orthogonal states)", 1.0, "minErr_orthogonal_eq_one"))
            if inst["kind"] == "orth+null":
                res.count("impl-closed-form/orth+null")
                if abs(v - 1.0) > tau:
                    bad.append(("1 (the states with non-zero prior are mutually orthogonal)", 1.0, "minErr_support_orthogonal_eq_one / minErr_ge_orthogonal_part"))
            res.count("impl-closed-form/range")
            if v < maxp - tau:
                bad.append((">= largest prior", maxp, "minErr_ge_prior"))
            if v > 1 + tau:
                bad.append(("<= 1", 1.0, "minErr_le_one"))
            if pgm_val is not None:
                res.count("impl-closed-form/pgm-le-opt")
                if pgm_val > v + tau:
                    bad.append((">= pretty good measurement's success probability", pgm_val, "pgm_le_dual"))
        else:
            if cf_unamb is not None:
                res.count("impl-closed-form/" + cf_unamb[0])
                if abs(v - cf_unamb[1]) > tau:
                    bad.append((cf_unamb[0], cf_unamb[1], cf_unamb[2]))
            res.count("impl-closed-form/unamb-range")
            if v < -tau or v > 1 + tau:
                bad.append(("within [0, 1]", 1.0, "unamb_zero_feasible / unamb_le_sum_prior"))
            me = [w for (st, _, _), w in got.items() if st == "min_error"]
            if me:
                res.count("impl-closed-form/unamb-le-minerr")
                if v > max(me) + 2 * tau:
                    bad.append(("<= min-error value", max(me), "unamb_le_minErr / sd_unamb_le_minErr_certified"))
        for (name, ref, thm) in bad:
            res.violation(f"state_distinguishability({strategy},{pd},{solver}) = {v:.8f} violates the closed form / bound: {name} = {ref:.8f}",
                          {"function": "state_distinguishability", "args": desc, "impl": v, "closed_form": name, "reference": ref, "tau": tau, "theorem": thm, "cplx": inst["cplx"]})


def work_invariance(task, res: Result):
    """unitary and relabelling invariance of the implementation's value (exact rational unitary)"""
    from toqito.state_opt import state_distinguishability
    warnings.filterwarnings("ignore")
    inst, U, perm = task
    states, probs = inst["states"], inst["probs"]
    vecs = [np.asarray(s) for s in states]

    def rot(s):
        a = np.asarray(s)
        if a.ndim == 1:
            return U @ a
        if a.shape[1] == 1:
            return U @ a
        return U @ a @ U.conj().T

    ri = list(inst.get("real_idx", ()))
    a0 = present_list(call_rng(inst.get("pres"), "inv0"), vecs, force_real=ri)
    a2 = present_list(call_rng(inst.get("pres"), "inv2"), [vecs[i] for i in perm], force_real=[n for n, i in enumerate(perm) if i in ri])
    try:
        v0, _ = _limited(state_distinguishability, a0, probs)
        v1, _ = _limited(state_distinguishability, present_list(call_rng(inst.get("pres"), "inv1"), [rot(s) for s in vecs]), probs)
        v2, _ = _limited(state_distinguishability, a2, [probs[i] for i in perm])
    except (Exception, CallTimeout) as e:
        res.case({"fn": "invariance", "k": inst["k"], "d": inst["d"]}, False, "invariance/raise")
        return
    desc = {"fn": "invariance", "d": inst["d"], "k": inst["k"], "cplx": inst["cplx"], "form": inst["form"], "perm": perm, "states": vecs, "probs": probs, "U": U,
            "pres": inst.get("pres"), "real_idx": ri}
    res.case(desc, True, "invariance")
    if abs(v0 - v1) > 4e-5 or abs(v0 - v2) > 4e-5:
        res.violation(f"min-error value not invariant: base {v0:.8f}, common unitary {v1:.8f}, relabelled {v2:.8f}", {"function": "state_distinguishability", "args": desc, "values": [v0, v1, v2], "theorem": "minErr value is a function of the ensemble up to unitary/relabelling"})


# ------------------------------------------------------------------------------------------------
# stream `history`: the value of a call does not depend on the calls made before it


LOOSE_OPTS = {"abs_ipm_opt_tol": 1e-2, "rel_ipm_opt_tol": 1e-2, "abs_prim_fsb_tol": 1e-2, "rel_prim_fsb_tol": 1e-2, "abs_dual_fsb_tol": 1e-2, "rel_dual_fsb_tol": 1e-2}


def work_history(task, res: Result):
    """default call on ensemble A, then a call on another ensemble B with coarse solver options handed over through **kwargs (a documented
    argument: 'additional arguments to pass to picos' solve method'), then the default call on A again.  The solver is deterministic, so the
    two values of A must coincide (to 1e-9); options or data that outlive the call they were given to show here."""
    from toqito.state_opt import state_distinguishability
    warnings.filterwarnings("ignore")
    instA, instB, strategy, pd = task
    sa, sb = [np.asarray(x) for x in instA["states"]], [np.asarray(x) for x in instB["states"]]
    desc = {kk: instA[kk] for kk in ("d", "k", "cplx", "form", "kind", "probs")}
    desc.update(fn="history", states=sa, strategy=strategy, primal_dual=pd, solver="cvxopt", other={"states": sb, "probs": instB["probs"]}, options=LOOSE_OPTS)

    def default_call():
        return float(_limited(state_distinguishability, [x.copy() for x in sa], list(instA["probs"]), strategy=strategy, primal_dual=pd)[0])
    try:
        v0 = default_call()
    except (Exception, CallTimeout):
        res.case(desc, False, "history/first-call-fails")
        return
    try:
        _limited(state_distinguishability, [x.copy() for x in sb], list(instB["probs"]), strategy=strategy, primal_dual=pd, **LOOSE_OPTS)
    except (Exception, CallTimeout):
        res.count("history/coarse-call-raises")
    res.case(desc, v0 > 1e-3, f"history/{strategy}/{pd}")
    try:
        v1 = default_call()
    except CallTimeout:
        res.count("history/second-call-timeout")
        return
    except Exception as e:
        res.violation(f"state_distinguishability({strategy},{pd}) raises {type(e).__name__} on an ensemble it solved before a call with other solver options was made",
                      {"function": "state_distinguishability", "args": desc, "values": [v0, None], "check": "history", "cplx": instA["cplx"]})
        return
    if not abs(v0 - v1) <= 1e-9:
        res.violation(f"state_distinguishability({strategy},{pd}) depends on the calls made before it: {v0!r} before, {v1!r} after a call with coarse solver options on another ensemble",
                      {"function": "state_distinguishability", "args": desc, "values": [v0, v1], "check": "history", "cplx": instA["cplx"]})


# ------------------------------------------------------------------------------------------------
# stream `embedding`: the picos programs that state_distinguishability BUILDS (captured at Problem.solve, never solved) against the
# programs the theorems are about (Lean `sd_program`: sdPrepare / sdGram + the slack functions the verified checkers use)


class _Captured(BaseException):
    """raised by the patched picos.Problem.solve (BaseException: must pass through `except Exception` inside toqito)"""


def _capture(fn):
    """run fn with picos.Problem.solve replaced by a recorder; returns the list of (problem, solve-kwargs) it was called with"""
    import picos
    got = []
    orig = picos.Problem.solve

    def fake(self, *a, **kw):
        got.append((self, dict(kw)))
        raise _Captured()

    picos.Problem.solve = fake
    try:
        try:
            fn()
        except _Captured:
            pass
    finally:
        picos.Problem.solve = orig
    return got


def _state_args(states):
    """raw arguments for the Lean model: exact images of the arrays handed to toqito (vector layouts -> column vector)"""
    out = []
    for s_ in states:
        a = np.asarray(s_)
        if a.ndim == 1 or 1 in a.shape:
            out.append({"vec": DM.exact_float(a.reshape(-1, 1)).json()})
        else:
            out.append({"dm": DM.exact_float(a).json()})
    return out


def _qmat(j, shape):
    """model matrix {"re":[[n,d]..],"im":..} -> complex float array (each entry rounded once)"""
    re = np.array([float(Fraction(n, d_)) for n, d_ in j["re"]]).reshape(shape)
    im = np.array([float(Fraction(n, d_)) for n, d_ in j["im"]]).reshape(shape)
    return re + 1j * im


def _rand_mat(rng, d, cplx, lim=3):
    A = rng.integers(-lim, lim + 1, size=(d, d)).astype(complex)
    B = rng.integers(-lim, lim + 1, size=(d, d))     # drawn in both cases: the stream does not depend on cplx
    return A + 1j * B if cplx else A


def _rand_herm(rng, d, cplx, lim=3):
    A = _rand_mat(rng, d, cplx, lim)
    return (A + A.conj().T) / 2.0


def _pdy(p):
    """float prior -> (mantissa, exponent) of its exact dyadic image"""
    x = DM.exact_float(np.array([[p]]))
    return int(x.re[0, 0]), x.e


_EMBED_FORMS = {"me_primal": ("min_error", "primal", "max"), "me_dual": ("min_error", "dual", "min"),
                "ua_primal": ("unambiguous", "primal", "max"), "ua_dual": ("unambiguous", "dual", "min")}
_EMBED_VARS = {"me_primal": None, "me_dual": ["Y"], "ua_primal": ["success_probabilities"], "ua_dual": ["Z"]}
EMB_TOL = 1e-12   # captured slack / objective vs model slack / objective (both are the float image of the same exact affine expression)
EMB_BAD = 1e-3    # a negative control must violate a captured constraint by at least this much
QBITS = 40


def _embed_points(rng, form, rhos, probs, V, d, k, cplx):
    """exact points of the model's program for `form` plus PSD witnesses, feasible by construction (the verified checker is the judge),
    and negative controls derived from the point: (label, modified entries).  Points are genuinely complex exactly when some state is."""
    I = DM.eye(d)
    Ik = DM.eye(k)
    if form == "me_primal":
        Mf = [np.eye(d) / k + 0.02 * _rand_herm(rng, d, cplx) / d for _ in range(k)]
        M = repair_povm(Mf, eps_bits=10)
        pt = {"M": M, "LM": [chol_factor(m.to_float()) for m in M]}
        two = I.scale_dy(2, 0)
        bad = [("M0-not-psd", {"M": [M[0] - two, M[1] + two] + M[2:]}), ("sum-above-identity", {"M": [M[0] + I.scale_dy(1, 2)] + M[1:]}),
               ("sum-below-identity", {"M": [M[0] - I.scale_dy(1, 4)] + M[1:]})]
        return pt, bad
    if form == "me_dual":
        S = None
        for i in range(k):
            m_, e_ = _pdy(probs[i])
            t = rhos[i].herm_part().scale_dy(m_, e_)
            S = t if S is None else S + t
        G = DM.from_float(0.25 * _rand_mat(rng, d, cplx), 8)
        Y = (S + (G @ G.H()) + I.scale_dy(1, 6)).herm_part()          # Y = sum_j p_j rho_j + G G^H + I/64 >= p_i rho_i
        LY = []
        for i in range(k):
            m_, e_ = _pdy(probs[i])
            LY.append(chol_factor((Y - rhos[i].scale_dy(m_, e_)).to_float()))
        return {"Y": Y, "LY": LY}, [("Y-too-small", {"Y": Y - I.scale_dy(2, 0)})]
    G = V.H() @ V
    Gf = G.to_float()
    if form == "ua_primal":
        lam = max(0.0, float(np.min(np.linalg.eigvalsh((Gf + Gf.conj().T) / 2))))
        q = [int((0.25 + 0.5 * float(rng.random())) * lam * (1 << QBITS)) for _ in range(k)]
        qd = DM(np.diag(np.array(q, dtype=object)) + np.zeros((k, k), dtype=object), np.zeros((k, k), dtype=object) * 0, QBITS)
        L = chol_factor((G - qd).to_float())
        if L is None and d <= k:
            # (nearly) dependent vectors: q = 0 with the exact factor L = [V^H | 0] (G = L L^H exactly, residual 0)
            q = [0] * k
            Vh = V.H()
            pad = np.zeros((k, k - d), dtype=object)
            pad[...] = 0
            L = DM(np.concatenate([Vh.re, pad], axis=1), np.concatenate([Vh.im, pad], axis=1), Vh.e)
        pt = {"q": q, "L": L}
        bad = [("q0-negative", {"q": [-(1 << (QBITS - 2))] + q[1:]}), ("q-too-large", {"q": [x + (2 << QBITS) for x in q]})]
        return pt, bad
    if form == "ua_dual":
        P = np.zeros((k, k), dtype=object)
        P[...] = 0
        e_all = max(_pdy(p)[1] for p in probs)
        for i in range(k):
            m_, e_ = _pdy(probs[i])
            P[i, i] = m_ << (e_all - e_)
        Pd = DM(P, np.zeros((k, k), dtype=object) * 0, e_all)
        Gr = DM.from_float(0.25 * _rand_mat(rng, k, cplx), 8)
        Z = (Pd + (Gr @ Gr.H()) + Ik.scale_dy(1, 6)).herm_part()      # Z = diag p + G G^H + I/64: PSD, Z_ii >= p_i
        E0 = np.zeros((k, k), dtype=object)
        E0[...] = 0
        E0[0, 0] = 1
        z00 = Z.frac(0, 0)[0] - Fraction(float(probs[0])) + Fraction(1, 4)           # Z_00 - z00 = p_0 - 1/4
        drop = DM(E0 * z00.numerator, np.zeros((k, k), dtype=object) * 0, z00.denominator.bit_length() - 1)
        return {"Z": Z, "LZ": chol_factor(Z.to_float())}, [("Z-not-psd", {"Z": Z - Ik.scale_dy(2, 0)}), ("Z00-below-prior", {"Z": Z - drop})]
    raise ValueError(form)


def _near_optimal_points(form, rhos, probs, V, d, k):
    """untrusted: the reference solver's optimal points, rounded and repaired to exact feasible points (as in certify_*); there the constraints
    are (nearly) tight, so a wrong weight, conjugate or transpose inside a constraint shows"""
    I = DM.eye(d)
    try:
        if form in ("me_primal", "me_dual"):
            Ms_ref, Y_ref = _solve_ref([r.herm_part().to_float() for r in rhos], probs)
            if form == "me_primal":
                M = repair_povm(Ms_ref, eps_bits=26)
                return [({"M": M, "LM": [chol_factor(m.to_float(), delta=2.0 ** -31) for m in M]}, [])]
            Y = DM.from_float((Y_ref + Y_ref.conj().T) / 2, 40).herm_part() + I.scale_dy(1, 24)
            LY = []
            for i in range(k):
                m_, e_ = _pdy(probs[i])
                LY.append(chol_factor((Y - rhos[i].scale_dy(m_, e_)).to_float()))
            return [({"Y": Y, "LY": LY}, [("Y-optimal-minus-1/32", {"Y": Y - I.scale_dy(1, 5)})])]
        G = V.H() @ V
        q_ref, Z_ref = _solve_unamb_ref(G.to_float(), probs)
        if form == "ua_primal":
            q = [max(0, int(np.floor(float(x) * (1 - 2.0 ** -18) * (1 << QBITS))) - (1 << 16)) for x in q_ref]
            qd = DM(np.diag(np.array(q, dtype=object)) + np.zeros((k, k), dtype=object), np.zeros((k, k), dtype=object) * 0, QBITS)
            return [({"q": q, "L": chol_factor((G - qd).to_float())}, [("q-optimal-plus-1/32", {"q": [x + (1 << (QBITS - 5)) for x in q]})])]
        Ik = DM.eye(k)
        Z = DM.from_float((Z_ref + Z_ref.conj().T) / 2, 40).herm_part() + Ik.scale_dy(1, 22)
        return [({"Z": Z, "LZ": chol_factor(Z.to_float())}, [("Z-optimal-minus-1/32", {"Z": Z - Ik.scale_dy(1, 5)})])]
    except Exception:
        return []


def _captured_layout(P, form, d, k):
    """[(kind, constraint)] of the captured problem and whether it has the constraint layout of the modelled program; CorrespondenceBroken when
    its VARIABLES are not those of the modelled program (then no point of the model can be written into it).  Constraints are evaluated whatever
    they are: a dropped or relaxed constraint lets a negative control through, an added or tightened one rejects a certified feasible point."""
    names = sorted(P.variables.keys())
    want = _EMBED_VARS[form] or sorted(f"M[{i}]" for i in range(k))
    if names != want:
        raise CorrespondenceBroken(f"state_distinguishability/{form}: the captured picos problem has variables {names}, the modelled program has {want}")
    for n_, v in P.variables.items():
        shp = {"me_primal": (d, d), "me_dual": (d, d), "ua_primal": (k, 1), "ua_dual": (k, k)}[form]
        if tuple(v.shape) != shp:
            raise CorrespondenceBroken(f"state_distinguishability/{form}: variable {n_} has shape {tuple(v.shape)}, the modelled program has {shp}")
    cons = []
    for c in P.constraints.values():
        if hasattr(c, "psd"):
            cons.append(("psd", c))
        elif type(c).__name__ == "ComplexAffineConstraint" or (hasattr(c, "is_equality") and c.is_equality()):
            cons.append(("eq", c))
        else:
            cons.append(("ge", c))        # evaluated through its slack
    for v in P.variables.values():     # bounds attached to a variable (`lower=0`) act as constraints
        if getattr(v, "num_bounds", 0):
            cons.append(("bound", v))
    want_kinds = {"me_primal": ["psd"] * k + ["eq"], "me_dual": ["psd"] * k, "ua_primal": ["psd", "bound"], "ua_dual": ["psd"] + ["ge"] * k}[form]
    return cons, [kd for kd, _ in cons] == want_kinds


def _assign(P, form, pt, k):
    """write the exact point (as floats) into the captured variables; returns an error text when a variable refuses the value"""
    try:
        if form == "me_primal":
            for i in range(k):
                P.variables[f"M[{i}]"].value = pt["M"][i].to_float()
        elif form == "me_dual":
            P.variables["Y"].value = pt["Y"].to_float()
        elif form == "ua_primal":
            P.variables["success_probabilities"].value = [float(Fraction(x, 1 << QBITS)) for x in pt["q"]]
        else:
            P.variables["Z"].value = pt["Z"].to_float()
    except Exception as e:   # e.g. a real symmetric variable refusing a complex Hermitian value
        return f"{type(e).__name__}: {str(e)[:200]}"
    return None


def _captured_residuals(cons):
    """per constraint: ('psd', slack matrix) / ('eq', residual array) / ('ge', slack numbers >= 0 iff satisfied) as complex numpy arrays"""
    def val(e):
        return np.atleast_2d(np.array(e.np, dtype=complex))

    out = []
    for kd, c in cons:
        if kd == "psd":
            out.append((kd, val(c.psd)))
        elif kd == "eq":
            out.append((kd, val(c.lhs) - val(c.rhs)))
        elif kd == "bound":
            out.append(("ge", np.atleast_2d(np.array(c.bound_constraint.slack, dtype=float)).astype(complex)))
        else:
            out.append(("ge", np.atleast_2d(np.array(c.slack, dtype=float)).astype(complex)))
    return out


def _violation_of(capt):
    """largest violation of the captured constraints at the current point: -min eigenvalue (and non-Hermiticity) of a PSD slack, modulus of an
    equality residual, -min of a `>=` slack"""
    vio = 0.0
    for kc, a in capt:
        if not a.size:
            continue
        if kc == "psd":
            vio = max(vio, -float(np.min(np.linalg.eigvalsh((a + a.conj().T) / 2))), float(np.max(np.abs(a - a.conj().T))))
        elif kc == "eq":
            vio = max(vio, float(np.max(np.abs(a))))
        else:
            vio = max(vio, -float(np.min(np.real(a))))
    return vio


def _point_json(pt):
    j = {}
    for key, v in pt.items():
        if v is None:
            continue
        if key == "q":
            j[key] = [[int(x), 1 << QBITS] for x in v]
        elif isinstance(v, list):
            if any(x is None for x in v):
                continue
            j[key] = [x.json() for x in v]
        else:
            j[key] = v.json()
    return j


def work_embed(task, res: Result):
    from toqito.state_opt import state_distinguishability
    warnings.filterwarnings("ignore")
    inst, seed = task
    rng = np.random.default_rng(seed)
    drv = worker_driver()
    states, probs, d, k = inst["states"], inst["probs"], inst["d"], inst["k"]
    raw = []            # exact images of what to_density_matrix returns for the arrays as given (no Hermitian part taken)
    for s_ in states:
        a = np.asarray(s_)
        if a.ndim == 1 or 1 in a.shape:
            v = DM.exact_float(a.reshape(-1, 1))
            raw.append(v @ v.H())
        else:
            raw.append(DM.exact_float(a))
    herm_in = all(r.is_herm() for r in raw)
    vec_in = inst["form"] in ("vec1d", "col")
    V = DM.exact_float(np.stack([np.asarray(s_).reshape(-1) for s_ in states], axis=1)) if vec_in else None
    base = {kk: inst[kk] for kk in ("d", "k", "cplx", "form", "kind", "probs")}
    base["states"] = [np.asarray(s_) for s_ in states]
    base["pres"], base["real_idx"] = inst.get("pres"), list(inst.get("real_idx", ()))
    pj = [frac_json(Fraction(float(p))) for p in probs] if inst["probs_given"] else None
    sargs = _state_args(states)
    cplx = any(np.iscomplexobj(np.asarray(s_)) and np.any(np.imag(np.asarray(s_))) for s_ in states)
    thm = "checkMinErrPrimal_sound / checkMinErrDual_sound / checkUnambPrimal_sound / checkUnambDual_sound (the programs they speak about), sd_gram_and_density"
    for form, (strategy, pd, direction) in _EMBED_FORMS.items():
        if form.startswith("ua") and not vec_in:
            continue
        desc0 = dict(base, fn="embedding", emb_form=form, strategy=strategy, primal_dual=pd, solver="cvxopt", probs_given=inst["probs_given"], seed=int(seed))
        prng = call_rng(inst.get("pres"), "embed", form)
        vecs = present_list(prng, states, force_real=inst.get("real_idx", ()))
        got = _capture(lambda: state_distinguishability(vecs, (list(probs) if inst["probs_given"] else None), strategy=strategy, primal_dual=pd))
        if len(got) != 1:
            raise CorrespondenceBroken(f"state_distinguishability({strategy},{pd}): expected one picos problem handed to solve(), captured {len(got)}")
        P, kw = got[0]
        res.count("embedding/problems-captured")
        if kw.get("solver") != "cvxopt":
            res.count("embedding/other-default-solver")
        cons, same_layout = _captured_layout(P, form, d, k)
        res.count("embedding/constraints-captured", len(cons))
        if not same_layout:
            res.count("embedding/other-constraint-layout")
        if P.objective.direction != direction:
            res.violation(f"state_distinguishability({strategy},{pd}) hands a '{P.objective.direction}' problem to the solver, the modelled program is a '{direction}' problem",
                          {"function": "state_distinguishability", "args": desc0, "impl": P.objective.direction, "model": direction, "check": "embedding-direction", "cplx": inst["cplx"],
                           "theorem": "minErr_weak_duality / unamb_weak_duality"})
            continue
        points = [("interior",) + _embed_points(rng, form, raw, probs, V, d, k, cplx)]
        if herm_in:
            points += [("near-optimal",) + x for x in _near_optimal_points(form, raw, probs, V, d, k)]
        shape = (d, d) if form.startswith("me") else (k, k)
        for pname, pt, bad in points:
            desc = dict(desc0, point=pname)
            m = drv.ask("sd_program", dict({"d": d, "states": sargs, "p": pj, "form": form}, **_point_json(pt)))
            if "reject" in m:
                raise RuntimeError(f"sd_program rejected the request: {m}")
            feasible = "ok" in m["check"]
            if not feasible:
                # a PSD witness could not be computed (degenerate optimum) or the raw input is not exactly Hermitian: counted, no feasibility verdict
                res.count(f"embedding/{pname}-point-not-certified" + ("" if herm_in else "/non-hermitian-input"))
            why = _assign(P, form, pt, k)
            ptj = _point_json({kk: vv for kk, vv in pt.items() if not kk.startswith("L")})
            if why is not None:
                res.case(desc, True, f"embedding/{form}/variable-refuses-point")
                res.violation(f"state_distinguishability({strategy},{pd}): a point of the modelled program cannot be written into the variables of the program the code builds ({why})",
                              {"function": "state_distinguishability", "args": desc, "impl": why, "model": "feasible" if feasible else "uncertified", "check": "embedding-variable", "cplx": inst["cplx"],
                               "point": ptj, "theorem": thm})
                break
            capt = _captured_residuals(cons)
            model = [("psd", _qmat(x, shape)) for x in m["psd"]] + [("eq", _qmat(x, shape)) for x in m["eq"]]
            if m["ge"]:
                ge = np.array([float(Fraction(*x)) for x in m["ge"]]).astype(complex)
                model += [("ge", ge.reshape(-1, 1))] if form == "ua_primal" else [("ge", np.array([[g]])) for g in ge]
            worst = None
            if same_layout and len(model) == len(capt) and all(a.shape == b_.shape for (_, a), (_, b_) in zip(capt, model)):
                worst = max([float(np.max(np.abs(a - b_))) if a.size else 0.0 for (_, a), (_, b_) in zip(capt, model)] + [0.0])
            obj_c = complex(P.objective.function.value)
            obj_m = float(Fraction(*m["objective"]))
            scale = max([1.0] + [float(np.max(np.abs(b_))) for _, b_ in model if b_.size])
            res.case(desc, feasible, f"embedding/{form}/{pname}/{inst['form']}/{'c' if inst['cplx'] else 'r'}/{'feasible' if feasible else 'uncertified'}")
            # evidence only: are the constraints written exactly as in the model (same slack operators), or in an equivalent other form?
            res.count("embedding/slacks-identical" if (worst is not None and worst <= EMB_TOL * scale) else "embedding/slacks-differ")
            if abs(obj_c - obj_m) > EMB_TOL * scale:
                res.violation(f"state_distinguishability({strategy},{pd}): the objective of the program the code builds is {obj_c!r} at an exact point, the modelled objective is {obj_m!r}",
                              {"function": "state_distinguishability", "args": desc, "impl": [obj_c.real, obj_c.imag], "model": obj_m, "check": "embedding-objective", "cplx": inst["cplx"], "point": ptj, "theorem": thm})
                break
            if feasible:
                vio = _violation_of(capt)
                if vio > 1e-9:
                    res.violation(f"state_distinguishability({strategy},{pd}): a point certified feasible for the modelled program ({pname}) violates a constraint of the program the code builds by {vio:.3e}",
                                  {"function": "state_distinguishability", "args": desc, "impl": vio, "model": "feasible", "check": "embedding-feasible", "cplx": inst["cplx"], "point": ptj, "theorem": thm})
                    break
                res.count("embedding/feasible-points-embedded")
            # negative controls: the model rejects, and some captured constraint is violated
            for label, mod in bad:
                pt2 = dict(pt, **mod)
                m2 = drv.ask("sd_program", dict({"d": d, "states": sargs, "p": pj, "form": form}, **_point_json(pt2)))
                if "ok" in m2.get("check", {}):
                    raise RuntimeError(f"negative control {label}: the verified checker accepted an infeasible point")
                # the control must be infeasible for the MODEL by a margin, else it proves nothing
                worst_m = min([float(np.min(np.linalg.eigvalsh(_qmat(x, shape)))) for x in m2["psd"]] + [float(Fraction(*x)) for x in m2["ge"]]
                              + [-float(np.max(np.abs(_qmat(x, shape)))) for x in m2["eq"]])
                if worst_m > -1e-2:
                    continue
                if _assign(P, form, pt2, k) is not None:
                    continue
                vio = _violation_of(_captured_residuals(cons))
                res.count("embedding/negative-controls")
                if vio < EMB_BAD:
                    res.violation(f"state_distinguishability({strategy},{pd}): the infeasible point '{label}' (rejected by the model, which it violates by {-worst_m:.3e}) satisfies every constraint of the "
                                  f"program the code builds (largest violation {vio:.3e}): a constraint is missing or weakened",
                                  {"function": "state_distinguishability", "args": dict(desc, control=label), "impl": vio, "model": "infeasible", "check": "embedding-negative-control", "cplx": inst["cplx"],
                                   "point": _point_json({kk: vv for kk, vv in pt2.items() if not kk.startswith("L")}), "theorem": thm})


# ------------------------------------------------------------------------------------------------
# stream `front`: argument check, defaults and dispatch of state_distinguishability against the Lean mirror `sdFront`


def _shape_json(a):
    a = np.asarray(a)
    return [int(x) for x in a.shape]


def _front_task(task):
    """(arrs, probs, pos, kw): the older task form (arrs, probs, strategy, primal_dual) = options by keyword, None = omitted"""
    arrs, probs, x, y = task
    if isinstance(x, list) and isinstance(y, dict):
        return arrs, probs, list(x), dict(y)
    kw = {}
    if x is not None:
        kw["strategy"] = x
    if y is not None:
        kw["primal_dual"] = y
    return arrs, probs, [], kw


def work_front(task, res: Result):
    """which program is built for which arguments (no solve): accepted / ValueError / TypeError, number of states, dimension, program chosen by
    `strategy` / `primal_dual`, solver handed to picos -- for options given by keyword, by position in the documented order (strategy, solver,
    primal_dual after vectors, probs) or mixed, including the omitted-argument defaults; Lean: sdFrontCall = sdBind (Python's binding rule), then sdFront"""
    from toqito.state_opt import state_distinguishability
    warnings.filterwarnings("ignore")
    arrs, probs, pos, kw = _front_task(task)
    drv = worker_driver()
    m = drv.ask("sd_front_call", {"shapes": [_shape_json(a) for a in arrs], "p": (None if probs is None else [frac_json(Fraction(float(p))) for p in probs]),
                                  "pos": list(pos), "kw": [[n, str(v)] for n, v in kw.items()]})
    raised = None
    got = []
    try:
        got = _capture(lambda: state_distinguishability([np.array(a) for a in arrs], (None if probs is None else list(probs)), *pos, **kw))
    except Exception as e:
        raised = e
    desc = {"fn": "front", "shapes": [_shape_json(a) for a in arrs], "probs": probs, "pos": list(pos), "kw": dict(kw)}
    call = "state_distinguishability(vectors, probs" + "".join(f", {v!r}" for v in pos) + "".join(f", {n}={v!r}" for n, v in kw.items()) + ")"
    if "reject" in m:
        res.case(desc, True, f"front/rejected/{m['reject']}")
        want = TypeError if m["reject"] == "TypeError" else ValueError
        if not isinstance(raised, want):
            raise CorrespondenceBroken(f"{call} on arrays of shapes {desc['shapes']}: the model raises {m['reject']}, the code {'built a program' if raised is None else 'raises ' + type(raised).__name__}")
        return
    n_kw = sum(1 for n in kw if n in _OPT_NAMES)
    res.case(desc, True, f"front/{m['form']}/{len(pos)}-positional/{n_kw}-keyword/{'no' if probs is None else 'with'}-probs")
    if isinstance(raised, TypeError) and pos:
        # a well-formed positional call in the documented order is refused
        res.violation(f"{call} raises TypeError: {str(raised)[:120]}; the documented signature (vectors, probs, strategy, solver, primal_dual) accepts it",
                      {"function": "state_distinguishability", "args": desc, "impl": repr(raised)[:200], "model": m["form"], "check": "front-binding", "theorem": "sd_bind_documented_order"})
        return
    if raised is not None or len(got) != 1:
        raise CorrespondenceBroken(f"{call} on arrays of shapes {desc['shapes']}: the model builds the program {m['form']}, the code "
                                   + (f"raises {type(raised).__name__}: {str(raised)[:120]}" if raised is not None else f"hands {len(got)} problems to the solver"))
    P, skw = got[0]
    names = sorted(P.variables.keys())
    form = {"Y": "me_dual", "success_probabilities": "ua_primal", "Z": "ua_dual"}.get(names[0], "me_primal" if names[0].startswith("M[") else "?")
    shp = tuple(next(iter(P.variables.values())).shape)
    n_c = {"me_primal": len(names), "me_dual": len(P.constraints), "ua_primal": shp[0], "ua_dual": shp[0]}.get(form, -1)
    dim_c = shp[0] if form in ("me_primal", "me_dual") else None
    if form != m["form"]:
        res.violation(f"{call} builds the program {form}, the documented dispatch (and the model) gives {m['form']} "
                      f"(strategy={m['strategy']!r}, primal_dual={m['primal_dual']!r})",
                      {"function": "state_distinguishability", "args": desc, "impl": form, "model": m["form"], "check": "front-dispatch",
                       "theorem": "sd_dispatch / sd_bind_positional_eq_keyword / sd_call_dispatch_positional"})
        return
    if n_c != m["n"] or (dim_c is not None and dim_c != m["dim"]):
        raise CorrespondenceBroken(f"state_distinguishability on shapes {desc['shapes']}: program for {n_c} states in dimension {dim_c}, the model: {m['n']} states in dimension {m['dim']}")
    solver_given = len(pos) >= 2 or "solver" in kw
    if skw.get("solver") != m["solver"]:
        if solver_given:
            res.violation(f"{call} hands solver={skw.get('solver')!r} to picos, the caller asked for {m['solver']!r}",
                          {"function": "state_distinguishability", "args": desc, "impl": skw.get("solver"), "model": m["solver"], "check": "front-solver",
                           "theorem": "sd_bind_positional_eq_keyword"})
        else:
            res.count("front/other-default-solver")
    extra = {n: v for n, v in kw.items() if n not in _OPT_NAMES}
    if any(skw.get(n) != v for n, v in extra.items()):
        raise CorrespondenceBroken(f"{call}: solver options {extra} do not reach picos' solve ({skw})")


# ------------------------------------------------------------------------------------------------
# stream `post`: what is_distinguishable does around the solve (state_distinguishability replaced by a recorder)


def work_post(task, res: Result):
    import importlib
    states, probs, vals = task
    drv = worker_driver()
    mod = importlib.import_module("toqito.state_props.is_distinguishable")
    if not hasattr(mod, "state_distinguishability"):
        raise CorrespondenceBroken("is_distinguishable: the module no longer refers to state_distinguishability by a module-level name")
    fn = mod.is_distinguishable
    for v in vals:
        calls = []

        def stub(*a, **kw):
            calls.append((a, kw))
            return float(v), None

        orig = mod.state_distinguishability
        mod.state_distinguishability = stub
        try:
            out = fn(list(states)) if probs is None else fn(list(states), list(probs))
        finally:
            mod.state_distinguishability = orig
        desc = {"fn": "post", "function": "is_distinguishable", "n": len(states), "v": float(v), "probs": probs}
        m = drv.ask("sd_post", {"v": frac_json(Fraction(float(v)))})
        near = abs(abs(float(v) - 1.0) - 1.001e-5) <= 1e-13    # float and rational thresholds may differ in the last bits: guard only
        res.case(desc, not near, "post/is_distinguishable")
        if len(calls) != 1:
            raise CorrespondenceBroken(f"is_distinguishable calls state_distinguishability {len(calls)} times, the model: once")
        a, kw = calls[0]
        names = ("vectors", "probs", "strategy", "solver", "primal_dual")
        got = dict(zip(names, a), **kw)
        pr = got.get("probs")
        ok_args = (((pr is None) if probs is None else (pr is not None and [float(x) for x in pr] == [float(x) for x in probs]))
                   and got.get("strategy", "min_error") == m["strategy"] and got.get("primal_dual", "dual") == m["primal_dual"]
                   and len(got.get("vectors", ())) == len(states) and all(np.array_equal(np.asarray(x), np.asarray(y)) for x, y in zip(got["vectors"], states)))
        if not ok_args:
            raise CorrespondenceBroken(f"is_distinguishable calls state_distinguishability with probs={pr!r}, strategy={got.get('strategy')!r}, primal_dual={got.get('primal_dual')!r}; "
                                       "the model: the caller's states and probs, min_error, dual")
        if near or bool(out) == bool(m["dist"]):
            continue
        if abs(float(v) - 1.0) <= 1e-6 or abs(float(v) - 1.0) >= 1e-3:
            # contradicts the property itself: a value that is 1 to solver accuracy must be reported distinguishable, a value 1e-3 away must not
            res.violation(f"is_distinguishable answers {bool(out)} for the minimum-error value {float(v)!r}",
                          {"function": "is_distinguishable", "args": desc, "impl": bool(out), "model": bool(m["dist"]), "check": "post-value",
                           "theorem": "sd_dist_test_iff / sd_dist_test_false_of_dual / sd_dist_test_true_of_near_one"})
        else:
            raise CorrespondenceBroken(f"is_distinguishable answers {bool(out)} for the solver value {float(v)!r}; the model np.isclose(v, 1) gives {bool(m['dist'])}")


def _sdp_solvers():
    """every solver picos has available that can solve a (tiny) complex SDP; 'cvxopt' first"""
    import picos
    out = []
    for s in picos.available_solvers():
        try:
            P = picos.Problem()
            X = picos.HermitianVariable("X", (2, 2))
            P.add_constraint(X >> 0)
            P.add_constraint(picos.trace(X) == 1)
            P.set_objective("min", (X | np.array([[1.0, 0.5j], [-0.5j, 0.0]])).real)
            P.solve(solver=s)
            out.append(s)
        except Exception:
            continue
    return sorted(out, key=lambda s: s != "cvxopt")


def run(ctx, model_ok=True):
    global _tier
    rng = ctx.rng
    quick = ctx.tier == "quick"
    _tier = ctx.tier  # inherited by the forked workers
    ctx.matchers["unamb_dual_complex_typeerror"] = lambda info: (info.get("args", {}).get("strategy") == "unambiguous" and info.get("args", {}).get("primal_dual") == "dual"
                                                                  and info.get("cplx") and "exception" in info and "TypeError" in info["exception"])
    n_inst = 160 if quick else 1200
    warnings.filterwarnings("ignore")
    solvers = ["cvxopt"] if quick else (_sdp_solvers() or ["cvxopt"])     # "every supported solver": all SDP-capable solvers picos finds (thorough tier)
    ctx.extra["solvers"] = solvers
    tasks = []
    prs = rng.spawn(1)[0]   # presentation stream: a child of the seeded generator (spawning does not consume the parent's draws)
    cfs = rng.spawn(1)[0]   # call-form stream (how the options are handed over: keyword / positional / mixed), another child generator

    def cform():
        return "kw" if int(cfs.integers(10)) < 3 else CALL_FORMS[1 + int(cfs.integers(len(CALL_FORMS) - 1))]

    for i in range(n_inst):
        inst = vary_ensemble(prs, gen_instance(rng, quick))
        calls = [(st, pd, sv, cform()) for sv in solvers for (st, pd) in (("min_error", "primal"), ("min_error", "dual"), ("unambiguous", "primal"), ("unambiguous", "dual"))]
        tasks.append((inst, calls))
    # closed-form stream: the families with a proved closed form, through the same worker
    for i in range(24 if quick else 180):
        inst = vary_ensemble(prs, gen_instance(rng, quick, family=["pair", "dependent", "orthogonal"][i % 3]))
        tasks.append((inst, [("min_error", "primal", "cvxopt", cform()), ("min_error", "dual", "cvxopt", cform()), ("unambiguous", "primal", "cvxopt", cform()),
                             ("unambiguous", "dual", "cvxopt", cform())]))
    # zero-prior stream: occurring states mutually orthogonal + overlapping states of prior 0 / 2^-33 / 1e-10 (value 1, is_distinguishable True)
    for i in range(24 if quick else 160):
        inst = vary_ensemble(prs, gen_instance(rng, quick, family="orth+null"), kinds=())
        tasks.append((inst, [("min_error", "primal", "cvxopt", cform()), ("min_error", "dual", "cvxopt", cform())]))
    run_pool(ctx, work, tasks)
    inv = []
    for i in range(24 if quick else 160):
        inst = vary_ensemble(prs, gen_instance(rng, quick))
        U = qgen.cayley_unitary(rng, inst["d"], inst["cplx"])
        if not inst["cplx"]:
            U = np.real(U)
        inv.append((inst, U, [int(x) for x in rng.permutation(inst["k"])]))
    run_pool(ctx, work_invariance, inv)
    insts = [t[0] for t in tasks[:n_inst]]
    # ---- history independence: values before and after a call that hands solver options over
    hist = []
    for i, (st, pd) in enumerate([("min_error", "primal"), ("min_error", "dual"), ("unambiguous", "primal"), ("unambiguous", "dual")] * (5 if quick else 16)):
        cand = [x for x in insts if x["form"] in ("vec1d", "col") and x["kind"] in ("random", "near")] if st == "unambiguous" else insts
        if len(cand) >= 2:
            hist.append((cand[(2 * i) % len(cand)], cand[(2 * i + 1) % len(cand)], st, pd))
    run_pool(ctx, work_history, hist)
    # ---- the programs the code builds against the modelled programs (no solve)
    emb = insts[: (64 if quick else 400)]
    run_pool(ctx, work_embed, [(inst, int(rng.integers(2 ** 31))) for inst in emb])
    # ---- argument check, defaults and dispatch (no solve)
    front = []
    for i in range(64 if quick else 400):
        d_ = int(rng.choice([2, 3, 4]))
        k_ = int(rng.integers(2, 6))
        lay = str(rng.choice(["vec1d", "col", "row", "dm", "vec-mixed", "mismatch", "mismatch-dm", "nonsquare"], p=[0.2, 0.2, 0.05, 0.2, 0.15, 0.1, 0.05, 0.05]))
        arrs = []
        for n_ in range(k_):
            v = qgen.unit(qgen.int_vector(rng, d_, bool(rng.integers(2))))
            f = lay if lay != "vec-mixed" else str(rng.choice(["vec1d", "col"]))
            if f == "vec1d":
                arrs.append(v)
            elif f == "col":
                arrs.append(v.reshape(-1, 1))
            elif f == "row":
                arrs.append(v.reshape(1, -1))
            elif f == "dm":
                arrs.append(np.outer(v, v.conj()))
            elif f == "mismatch":
                arrs.append(v if n_ != k_ - 1 else np.concatenate([v, [0.0]]))
            elif f == "mismatch-dm":
                arrs.append(np.outer(v, v.conj()) if n_ == 0 else v)
            else:
                arrs.append(np.outer(np.concatenate([v, [0.0]]), v.conj()))     # (d+1) x d arrays: neither vectors nor square
        st = [None, "min_error", "unambiguous"][int(rng.integers(3))]
        if lay in ("dm", "mismatch-dm", "nonsquare", "row") and st == "unambiguous":
            st = "min_error"     # the Gram-form programs are modelled for 1-D / column vector arguments only
        pd = [None, "primal", "dual"][int(rng.integers(3))]
        pr = None if rng.integers(2) else qgen.dyadic_probs(rng, k_)
        # call form (from the call-form stream): the first n_pos options by position (omitted ones filled with a value), the others by keyword when drawn;
        # one call in 16 is ill-formed (an option twice, or a fourth positional value): TypeError
        n_pos = [0, 0, 0, 1, 1, 2, 3, 3][int(cfs.integers(8))]
        vals = {"strategy": st, "solver": [None, None, "cvxopt", "scs", "mosek"][int(cfs.integers(5))], "primal_dual": pd}
        pos_, kw_ = [], {}
        for j_, name in enumerate(_OPT_NAMES):
            if j_ < n_pos:
                pos_.append(vals[name] if vals[name] is not None else _OPT_DEFAULTS[j_])
            elif vals[name] is not None:
                kw_[name] = vals[name]
        if int(cfs.integers(3)) == 0:
            kw_ = dict(reversed(list(kw_.items())))
        if int(cfs.integers(6)) == 0:
            kw_["abstol"] = 1e-6          # travels on to the solver (**kwargs), takes no part in the dispatch
        bad = int(cfs.integers(16))
        if bad == 0 and n_pos >= 1:
            kw_[_OPT_NAMES[int(cfs.integers(n_pos))]] = pos_[0]
        elif bad == 1:
            pos_ = (pos_ + list(_OPT_DEFAULTS[len(pos_):]))[:3] + ["dual"]
            kw_ = {n: v for n, v in kw_.items() if n not in _OPT_NAMES}
        front.append((arrs, pr, pos_, kw_))
    # corpus: the documented positional calls on a pair of qubit vectors
    pair = [np.array([1.0, 0.0]), np.array([0.6, 0.8j])]
    for pos_ in (["unambiguous"], ["min_error"], ["unambiguous", "cvxopt"], ["unambiguous", "cvxopt", "primal"], ["min_error", "cvxopt", "primal"], ["min_error", "cvxopt", "dual"],
                 ["unambiguous", "cvxopt", "dual"]):
        front.append((pair, [0.5, 0.5], pos_, {}))
    front.append((pair, None, ["unambiguous"], {"primal_dual": "primal"}))
    front.append((pair, [0.25, 0.75], ["min_error", "scs"], {"primal_dual": "primal"}))
    run_pool(ctx, work_front, front)
    # ---- is_distinguishable around the solve
    post_vals = [1.0, 1.0 - 1e-9, 1.0 + 1e-9, 1.0 - 9e-6, 1.0 + 9e-6, 1.0 - 1.1e-5, 1.0 + 1.1e-5, 1.0 - 1e-4, 0.999, 0.5, 0.0, 1.5] + [float(1.0 + x) for x in (rng.random(4 if quick else 40) - 0.5) * rng.choice([1e-5, 4e-5, 1e-2, 1.0], size=(4 if quick else 40))]
    run_pool(ctx, work_post, [([np.eye(n_)[:, i % n_] for i in range(m_)], pr_, post_vals) for (n_, m_, pr_) in ((2, 2, None), (3, 2, [0.25, 0.75]), (3, 3, None), (4, 4, [0.125, 0.125, 0.25, 0.5]))])
    ctx.extra["embedding"] = {"tolerance_objective": EMB_TOL, "tolerance_feasible": 1e-9, "negative_control_margin": EMB_BAD}
    ctx.extra["tolerances"] = TAU
    ctx.extra["certified_interval_width_bound"] = WIDTH_OK


def replay(ctx, rec):
    a = rec["args"]
    inst = {"d": a.get("d"), "k": a.get("k"), "cplx": a.get("cplx"), "form": a.get("form"), "kind": a.get("kind", "random"), "probs": a.get("probs"), "probs_given": a.get("probs_given", True),
            "pres": a.get("pres"), "real_idx": a.get("real_idx") or []}

    def arr(s):
        x = np.array([[complex(e["re"], e["im"]) if isinstance(e, dict) else e for e in row] if isinstance(row, list) else (complex(row["re"], row["im"]) if isinstance(row, dict) else row) for row in s])
        return x
    inst["states"] = [arr(s) for s in a.get("states", [])]
    res = Result()
    from ..pool import fold
    if a.get("fn") == "post":
        work_post(([np.eye(a["n"])[:, i % a["n"]] for i in range(a["n"])], a.get("probs"), [a["v"]]), res)
    elif a.get("fn") == "front":
        if "pos" in a:
            work_front(([np.zeros(tuple(sh)) + 1.0 for sh in a["shapes"]], a.get("probs"), list(a["pos"]), dict(a.get("kw") or {})), res)
        else:
            work_front(([np.zeros(tuple(sh)) + 1.0 for sh in a["shapes"]], a.get("probs"), a.get("strategy"), a.get("primal_dual")), res)
    elif a.get("fn") == "embedding":
        work_embed((inst, a["seed"]), res)
    elif a.get("fn") == "history":
        o = a["other"]
        instB = dict(inst, states=[arr(s) for s in o["states"]], probs=o["probs"])
        work_history((inst, instB, a["strategy"], a["primal_dual"]), res)
    elif a.get("fn") == "is_distinguishable":
        work((inst, [("min_error", "dual", "cvxopt")]), res)
    else:
        work((inst, [(a["strategy"], a["primal_dual"], a["solver"], a.get("call_form", "kw"))]), res)
    fold(ctx, res)
