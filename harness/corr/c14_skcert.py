"""C14, S(k) operator norm: construction of certificate CANDIDATES (untrusted; the verified Lean checkers `checkSkUpperPPT`,
`checkSkUpperRed`, `checkSkLower` of lean/Toq/Model/EntangleSk.lean and `checkSkUpperDps` of lean/Toq/Model/EntangleSkDps.lean are the judges, theorems
`C14.checkSkUpperPPT_sound`, `checkSkUpperRed_sound`, `checkSkUpperDps_sound`, `checkSkLower_sound`).

* upper side: the dual of the relaxation  max tr(X rho), rho >= 0, tr rho <= 1, Phi(rho) >= 0  is  min lam, Y >= 0, lam*1 - X - Phi(Y) >= 0
  (Phi = partial transpose on B for k = 1, Phi(Y) = k (tr_B Y) (x) 1 - Y for any k; both maps are self-adjoint for the trace pairing).  It is
  solved independently of toqito with cvxpy's own atoms, Y is rounded to dyadics, shifted to be strictly positive, lam is raised until the
  slack is strictly positive, Cholesky factors of both are the PSD witnesses.
* upper side, two-copy level (k = 1; needed from 2x4 / 3x3 on, where the PPT relaxation is no longer exact): the dual of the Bose-symmetric two-copy extension
  program with one partial transpose is  min lam, Y >= 0 on A B1 B2, Pi (lam*1 - X (x) 1 - Y^{T_B2}) Pi >= 0, Pi = 1_A (x) (1 + SWAP)/2.  Same repair; the slack sent
  to the checker is Pi (...) Pi + t (1 - Pi), strictly positive on the antisymmetric part as well.
* lower side: a float vector of Schmidt rank <= k (alternating optimisation), its SVD terms rounded to dyadics, second factors made exactly
  orthogonal by division-free Gram-Schmidt, first factors refitted."""
from __future__ import annotations

import warnings
from fractions import Fraction

import numpy as np

from ..cert import DM, chol_factor


# ------------------------------------------------------------------------------------------------ maps

def pt_b(Y, dA, dB):
    return Y.reshape(dA, dB, dA, dB).transpose(0, 3, 2, 1).reshape(dA * dB, dA * dB)


def ptr_b(Y, dA, dB):
    return np.einsum("abcb->ac", Y.reshape(dA, dB, dA, dB))


def red_k(Y, dA, dB, k):
    return k * np.kron(ptr_b(Y, dA, dB), np.eye(dB)) - Y


def phi(Y, dA, dB, k, ppt):
    return pt_b(Y, dA, dB) if ppt else red_k(Y, dA, dB, k)


# ------------------------------------------------------------------------------------------------ upper certificate

def dual_solve(X, dA, dB, k, ppt):
    """untrusted: approximate optimal (Y, lam) of the dual; None when the solver fails"""
    import cvxpy as cp

    N = dA * dB
    Y = cp.Variable((N, N), hermitian=True)
    lam = cp.Variable()
    if ppt:
        ph = cp.partial_transpose(Y, [dA, dB], 1)
    else:
        ph = k * cp.kron(cp.partial_trace(Y, [dA, dB], 1), np.eye(dB)) - Y
    prob = cp.Problem(cp.Minimize(lam), [Y >> 0, lam * np.eye(N) - X - ph >> 0])
    for solver, kw in (("CLARABEL", {}), ("SCS", {"eps": 1e-8, "max_iters": 20000})):
        try:
            with warnings.catch_warnings():
                warnings.simplefilter("ignore")
                prob.solve(solver=solver, **kw)
        except Exception:  # noqa: BLE001
            continue
        if prob.status in ("optimal", "optimal_inaccurate") and Y.value is not None:
            return np.asarray(Y.value, dtype=complex), float(lam.value)
    return None


def upper_certificate(X, dA, dB, k, ppt, bits=40):
    """(json args for c14_sk_upper_ppt / c14_sk_upper_red, float lam) or None"""
    N = dA * dB
    sol = dual_solve(X, dA, dB, k, ppt)
    if sol is None:
        return None
    Yf, _ = sol
    Yf = (Yf + Yf.conj().T) / 2
    scale = max(1.0, float(np.linalg.norm(X, 2)))
    w = float(np.min(np.linalg.eigvalsh(Yf)))
    Yf = Yf + (max(0.0, -w) + scale * 2.0 ** -24) * np.eye(N)
    Yd = DM.from_float(Yf, bits).herm_part()
    Yx = Yd.to_float()
    LY = chol_factor(Yx)
    if LY is None:
        return None
    M = X + phi(Yx, dA, dB, k, ppt)
    M = (M + M.conj().T) / 2
    lam_f = float(np.max(np.linalg.eigvalsh(M))) + scale * 2.0 ** -20
    lam = Fraction(int(np.ceil(lam_f * (1 << bits))), 1 << bits)
    S = float(lam) * np.eye(N) - M
    LS = chol_factor(S)
    if LS is None:
        return None
    args = {"dA": dA, "dB": dB, "X": DM.exact_float(X).json(), "Y": Yd.json(), "LY": LY.json(),
            "lam": [lam.numerator, lam.denominator], "LS": LS.json()}
    if not ppt:
        args["k"] = k
    return args, float(lam)


# ------------------------------------------------------------------------------------------------ upper certificate, two-copy level (k = 1)

def swap_copies_perm(dA, dB):
    """the index permutation (a, b, c) -> (a, c, b) of the flat index (a*dB + b)*dB + c"""
    idx = np.arange(dA * dB * dB).reshape(dA, dB, dB)
    return idx.transpose(0, 2, 1).reshape(-1)


def sym_isometry(dA, dB):
    """real isometry onto C^dA (x) Sym^2(C^dB) inside C^dA (x) C^dB (x) C^dB"""
    cols = []
    for a in range(dA):
        for b in range(dB):
            for c in range(b, dB):
                v = np.zeros(dA * dB * dB)
                if b == c:
                    v[(a * dB + b) * dB + c] = 1.0
                else:
                    v[(a * dB + b) * dB + c] = v[(a * dB + c) * dB + b] = 1.0 / np.sqrt(2.0)
                cols.append(v)
    return np.array(cols).T


def sym_sandwich(M, dA, dB):
    """Pi M Pi for Pi = 1_A (x) (1 + SWAP)/2"""
    s = swap_copies_perm(dA, dB)
    return (M + M[s, :] + M[:, s] + M[np.ix_(s, s)]) / 4


def dps_dual_solve(X, dA, dB):
    """untrusted: approximate optimal Y of  min lam, Y >= 0 on A B1 B2, Pi (lam - X (x) 1 - Y^{T_B2}) Pi >= 0 on the symmetric subspace; None when the solver fails"""
    import cvxpy as cp

    P, N3 = dA * dB, dA * dB * dB
    V = sym_isometry(dA, dB)
    XX = np.kron(X, np.eye(dB))
    Y = cp.Variable((N3, N3), hermitian=True)
    lam = cp.Variable()
    M = lam * np.eye(N3) - XX - cp.partial_transpose(Y, [P, dB], 1)
    S = V.T @ M @ V
    prob = cp.Problem(cp.Minimize(lam), [Y >> 0, (S + S.H) / 2 >> 0])
    for solver, kw in (("CLARABEL", {}), ("SCS", {"eps": 1e-8, "max_iters": 20000})):
        try:
            with warnings.catch_warnings():
                warnings.simplefilter("ignore")
                prob.solve(solver=solver, **kw)
        except Exception:  # noqa: BLE001
            continue
        if prob.status in ("optimal", "optimal_inaccurate") and Y.value is not None:
            return np.asarray(Y.value, dtype=complex), float(lam.value)
    return None


def upper_certificate_dps(X, dA, dB, bits=40):
    """(json args for c14_sk_upper_dps, float lam) or None.  The checker forms the slack Pi (lam - X (x) 1 - Y^{T_B2} - t) Pi + t exactly from X, Y, lam, t; only the
    two Cholesky-type witnesses are approximate."""
    P, N3 = dA * dB, dA * dB * dB
    sol = dps_dual_solve(X, dA, dB)
    if sol is None:
        return None
    Yf, _ = sol
    Yf = (Yf + Yf.conj().T) / 2
    scale = max(1.0, float(np.linalg.norm(X, 2)))
    w = float(np.min(np.linalg.eigvalsh(Yf)))
    Yf = Yf + (max(0.0, -w) + scale * 2.0 ** -24) * np.eye(N3)
    Yd = DM.from_float(Yf, bits).herm_part()
    Yx = Yd.to_float()
    LY = chol_factor(Yx)
    if LY is None:
        return None
    V = sym_isometry(dA, dB)
    M = np.kron(X, np.eye(dB)) + pt_b(Yx, P, dB)
    M = (M + M.conj().T) / 2
    Ms = V.T @ M @ V
    lam_f = float(np.max(np.linalg.eigvalsh((Ms + Ms.conj().T) / 2))) + scale * 2.0 ** -20
    lam = Fraction(int(np.ceil(lam_f * (1 << bits))), 1 << bits)
    t = Fraction(int(np.ceil(scale)))
    S = sym_sandwich((float(lam) - float(t)) * np.eye(N3) - M, dA, dB) + float(t) * np.eye(N3)
    LS = chol_factor(S)
    if LS is None:
        return None
    args = {"dA": dA, "dB": dB, "X": DM.exact_float(X).json(), "Y": Yd.json(), "LY": LY.json(),
            "lam": [lam.numerator, lam.denominator], "t": [t.numerator, t.denominator], "LS": LS.json()}
    return args, float(lam)


# ------------------------------------------------------------------------------------------------ lower certificate

def best_rank_k_vector(rng, X, dA, dB, k, starts=8, sweeps=60, hints=()):
    """untrusted: alternating maximisation of <v|X|v> over v = sum_{i<k} x_i (x) y_i (each half-step is an eigenvalue problem)"""
    N = dA * dB
    T = X.reshape(dA, dB, dA, dB)
    best, best_v = -np.inf, None

    def value(v):
        return float(np.real(np.vdot(v, X @ v)))

    cands = []
    w, vecs = np.linalg.eigh((X + X.conj().T) / 2)
    for i in range(1, min(N, 3) + 1):
        cands.append(vecs[:, -i])
    for _ in range(starts):
        cands.append(rng.normal(size=N) + 1j * rng.normal(size=N))
    cands = [np.asarray(h, dtype=complex) for h in hints] + cands
    for v in cands:
        A = v.reshape(dA, dB)
        u, s, vh = np.linalg.svd(A, full_matrices=False)
        Yb = vh[:k, :].T                              # dB x k, orthonormal columns: the second factors (A = sum_i u_i s_i vh_i)
        val = -np.inf
        for _ in range(sweeps):
            # fix the B-side subspace (orthonormal Yb): v = sum_i x_i (x) yb_i, maximise over the x_i: top eigenvector of the compressed operator
            W = np.einsum("bi,ac->abci", Yb, np.eye(dA)).reshape(N, dA * k)
            Mx = W.conj().T @ X @ W
            ew, ev = np.linalg.eigh((Mx + Mx.conj().T) / 2)
            v2 = W @ ev[:, -1]
            A = v2.reshape(dA, dB)
            u, s, vh = np.linalg.svd(A, full_matrices=False)
            Xa = u[:, :k]                             # now fix the A-side subspace
            W2 = np.einsum("ai,bc->abic", Xa, np.eye(dB)).reshape(N, k * dB)
            My = W2.conj().T @ X @ W2
            ew2, ev2 = np.linalg.eigh((My + My.conj().T) / 2)
            v3 = W2 @ ev2[:, -1]
            A = v3.reshape(dA, dB)
            u, s, vh = np.linalg.svd(A, full_matrices=False)
            Yb = vh[:k, :].T
            if ew2[-1] - val < 1e-13:
                val = ew2[-1]
                break
            val = ew2[-1]
        v3 = v3 / np.linalg.norm(v3)
        if value(v3) > best:
            best, best_v = value(v3), v3
    return best_v


class _C:
    """exact complex dyadic number as a pair of Fractions"""
    __slots__ = ("re", "im")

    def __init__(self, re=0, im=0):
        self.re, self.im = Fraction(re), Fraction(im)

    def __add__(self, o):
        return _C(self.re + o.re, self.im + o.im)

    def __sub__(self, o):
        return _C(self.re - o.re, self.im - o.im)

    def __mul__(self, o):
        return _C(self.re * o.re - self.im * o.im, self.re * o.im + self.im * o.re)

    def conj(self):
        return _C(self.re, -self.im)

    def scale(self, q):
        return _C(self.re * q, self.im * q)


def _round(z, bits):
    s = 1 << bits
    return _C(Fraction(int(round(float(np.real(z)) * s)), s), Fraction(int(round(float(np.imag(z)) * s)), s))


def _dot(u, v):
    acc = _C()
    for a, b in zip(u, v):
        acc = acc + a.conj() * b
    return acc


def _pow2_normalise(y):
    mx = max(max(abs(c.re), abs(c.im)) for c in y)
    if mx == 0:
        return y
    t = mx.numerator.bit_length() - mx.denominator.bit_length()
    q = Fraction(1, 1 << t) if t >= 0 else Fraction(1 << (-t), 1)
    return [c.scale(q) for c in y]


def orthogonalise(ys):
    """division-free Gram-Schmidt on exact dyadic vectors (each result rescaled by a power of two): pairwise exactly orthogonal, all dyadic"""
    out = []
    for y in ys:
        for z in out:
            nz = _dot(z, z).re
            if nz == 0:
                continue
            c = _dot(z, y)
            y = _pow2_normalise([yb.scale(nz) - c * zb for yb, zb in zip(y, z)])
        out.append(y)
    return out


def _dy_json(rows):
    """rows: list of lists of _C (all dyadic) -> QJson {"e", "re", "im"} row-major"""
    flat = [c for row in rows for c in row]
    e = 0
    for c in flat:
        for q in (c.re, c.im):
            d = q.denominator
            if d & (d - 1):
                raise ValueError("not dyadic")
            e = max(e, d.bit_length() - 1)
    s = 1 << e
    return {"e": e, "re": [int(c.re * s) for c in flat], "im": [int(c.im * s) for c in flat]}


def lower_certificate(X, dA, dB, k, v, bits=24):
    """json args for c14_sk_lower from a float vector v of (approximate) Schmidt rank <= k"""
    A = np.asarray(v, dtype=complex).reshape(dA, dB)
    u, s, vh = np.linalg.svd(A, full_matrices=False)
    kk = min(k, len(s))
    ys = [[_round(vh[i, b], bits) for b in range(dB)] for i in range(kk)]
    ys = orthogonalise(ys)
    xs = []
    for y in ys:
        yf = np.array([complex(float(c.re), float(c.im)) for c in y])
        n = float(np.real(np.vdot(yf, yf)))
        xf = (A @ yf.conj()) / n if n > 0 else np.zeros(dA, dtype=complex)
        xs.append([_round(z, 30) for z in xf])
    while len(xs) < k:                                # pad with zero terms: the checker takes exactly k columns
        xs.append([_C() for _ in range(dA)])
        ys.append([_C() for _ in range(dB)])
    Xs = [[xs[i][a] for i in range(k)] for a in range(dA)]
    Ys = [[ys[i][b] for i in range(k)] for b in range(dB)]
    return {"dA": dA, "dB": dB, "k": k, "X": DM.exact_float(X).json(), "Xs": _dy_json(Xs), "Ys": _dy_json(Ys)}


def frac_of(ans):
    return Fraction(ans["ok"][0], ans["ok"][1])
