"""C11: state_exclusion (min-error primal/dual; unambiguous primal/dual), is_antidistinguishable and
common_quantum_overlap against certified intervals, and the programs / arithmetic the code builds against the Lean model.

For each instance the exact dyadic images of the float inputs handed to toqito define the instance; an exact
feasible POVM (UPPER bound hi of the minimum) and an exact dual-feasible operator (LOWER bound lo) are built by
untrusted means and accepted only by the verified Lean checker (theorems checkExclPrimal_sound / checkExclDual_sound
in lean/Toq/Properties/C11.lean; lo = max(lo, 0) by excl_nonneg when the exact states are v v^H, toDensityVec_psd).  The value
returned by toqito must lie in [lo - tau, hi + tau]; the returned operators must form a POVM attaining the reported value.
The unambiguous pair is certified in the same way for vector inputs (checkUnambExclPrimal_sound / checkUnambExclDual_sound).

Streams added by the deepening pass:
* `embedding`: picos.Problem.solve is replaced by a recorder, so the four programs state_exclusion BUILDS are captured without being
  solved; exact points of the modelled programs (Lean `excl_program` = `prepare` + the slack functions the verified checkers use) are
  written into the captured variables: a point the verified checker certifies feasible must satisfy every captured constraint to 1e-9,
  the captured objective must equal the modelled objective to 1e-12 at every point, and negative controls (points the model rejects)
  must violate a captured constraint by 1e-3.  Points: random interior ones and the (repaired) optimal ones, where constraints are tight.
* `post`: state_exclusion is replaced by a recorder returning a chosen value: the arguments is_antidistinguishable /
  common_quantum_overlap pass (all-ones weights, min-error, dual form) and what they compute from the value against Lean `excl_post`
  (`antidistTest`, `cqoPost`; theorems antidist_test_iff, cqo_post_eq, antidist_test_decides).
* `families`: trine() and pusey_barrett_rudolph(n, theta) against the Lean constructors `trineStates` / `pbrStates` evaluated on the exact
  images of sqrt(3), cos(theta/2), sin(theta/2) (the vectors trine_antidistinguishable / pbr2_antidistinguishable / pbr1_antidist_iff speak about)."""
from __future__ import annotations

import itertools
import warnings

import numpy as np

from fractions import Fraction

from ..cert import DM, chol_factor, frac_json, repair_povm
from ..common import CorrespondenceBroken
from ..exact import Pure, call_rng, describe, present_list, strict_fp_call, vary_ensemble
from ..pool import Result, TaskTimeout, run_pool, worker_driver
from .. import qgen

RULE = ("ensembles (2..5 states, dimension 2..4, real/complex integer amplitudes normalised in floating point, vectors as 1-D / column arrays or "
        "density matrices (pure or mixed), dyadic priors or None) from the seeded generator, kinds random / clustered ('near') / orthogonal / dependent / "
        "mixed, plus the named families trine, BB84 subsets, Bell, PBR(n=1,2) at, above and below the threshold angle (optionally rotated by an exact "
        "rational unitary) x strategy x primal/dual form x solver; per instance the Lean checker certifies [lo, hi] for the exact image of the inputs; "
        "non-trivial = certified interval of width <= 1e-4 with 1e-2 <= lo and hi <= min prior - 1e-2, or a member of a named family whose certified "
        "interval confirms its known antidistinguishability status (hi <= 1e-7 resp. lo > 1e-3); distinct = hash of the instance and call form; "
        "presentation: every call receives the same values in a freshly drawn presentation per list element (C / Fortran / strided memory layout; real-valued "
        "states as float64, integer-valued ones as int64), one in three complex ensembles of the kinds random / near / mixed has some states made real-valued "
        "(real-dtype first element followed by complex ones, or the reverse; also computational basis vectors); the caller's list, arrays and priors must be "
        "untouched by every call and a repeated call on the same objects (one in four min-error calls) must return the same value; "
        "embedding: the first 40 random instances and every third family instance x the four programs x (one random interior point, the repaired optimal point [min-error: exactly "
        "Hermitian inputs; unambiguous: vector inputs with positive priors]) with 1-3 negative controls each, non-trivial = point certified feasible by the Lean checker; points are complex "
        "exactly when some state is; post: 4 ensemble sizes x 16 values (0, +-1e-9, around +-1e-8, 1e-7, 2e-3, 0.25, 1, random), values within 2^-30 relative of the threshold 1e-8 are not generated; "
        "families: trine and PBR n = 1, 2, 3 at the threshold angle, pi/2 and random angles; "
        "strict-fp stream: to_density_matrix (1-D / column / row vectors, pure and mixed density matrices, basis and zero vectors, int / real / complex), trine(), "
        "pusey_barrett_rudolph(n, theta) at theta = 0, the threshold angle, pi/2, pi, 2 pi and seeded angles, and is_antidistinguishable / common_quantum_overlap on trine, BB84, "
        "identical, orthogonal and seeded ensembles are called once in the default state and once with NumPy's error state set to raise for invalid / divide / overflow "
        "(harness.exact.strict_fp_call): same outcome (exact equality; the two solver-backed functions: same verdict / value within 2e-5); "
        "same-object stream: state_exclusion (min-error primal and dual), is_antidistinguishable and common_quantum_overlap on a list that holds ONE array object in two slots "
        "against the same list with an equal copy in the second slot (corpus + seeded ensembles from ctx.rng.spawn): same value within 1e-7 / same verdict / same exception class")
ASSUMPTIONS = [
    "toqito computes with the float inputs it is given; the instance certified is their exact dyadic image (difference <= 1e-15 relative); a state vector v denotes the exact operator v v^H",
    "tolerance 2e-5 on CVXOPT-solved values (declared in DESIGN.md 4.4), 1e-3 for other solvers; 1e-4 on the POVM residuals of returned operators",
    "unambiguous exclusion: agreement of toqito's primal and dual values within 1e-4 on instances where both solves return (weak duality of that pair: unamb_excl_weak_duality); for vector inputs with positive "
    "priors additionally a certified interval [lo, hi] (width <= 1e-4, else counted as uncertified) from the verified unambiguous checkers, and every returned value must lie in [lo - 1e-4, hi + 1e-4]; "
    "density-matrix inputs are not certified for this strategy (the exact image of a float outer product has no exact kernel, so the exact program is a different one); "
    "when CVXOPT breaks down numerically at its default tolerance the call is repeated once with abs/rel_ipm_opt_tol=1e-6 (the remedy named in the function's docstring)",
    "the PBR threshold tan(theta/2) >= 2^(1/n) - 1 and the antidistinguishability of trine/BB84/Bell sets are cited facts; each is re-confirmed per instance by the certified interval",
    "is_antidistinguishable is only judged when the certified interval for all-ones weights is decisive (hi <= 1e-7 or lo > 1e-3)",
    "embedding: picos evaluates the captured constraint / objective expressions faithfully at assigned variable values (Constraint.psd / lhs / rhs / slack, Expression.np); the point handed to picos is the "
    "float image of the exact point (entries rounded once, <= 1e-16 relative), hence the tolerances 1e-12 (objective) and 1e-9 (feasibility); whether the constraints are written with exactly the model's slack "
    "operators is recorded as evidence (slacks-identical / slacks-differ) but is not a verdict: an equivalent reformulation of a constraint is not a failing input",
    "post / families: a difference between the code and the modelled arithmetic that does not contradict the property itself (other tolerance of the zero test, other call form, other order or sign of a named "
    "family) is reported as a broken correspondence (CorrespondenceBroken), not as a failing input; contradictions (common_quantum_overlap off by > 1e-9, a value <= 1e-9 not reported antidistinguishable or a "
    "value >= 1e-3 reported antidistinguishable) are violations",
]
TAU = {"cvxopt": 2e-5}
TAU_OTHER = 1e-3
TAU_UNAMB = 1e-4  # unambiguous programs: the tolerance of the primal/dual agreement check, also used against the certified interval
WIDTH_OK = 1e-4  # certified intervals wider than this are counted as uncertified (never a violation by themselves)
ZERO_HI = 1e-7  # certified upper bound that confirms "value 0" for antidistinguishable sets
POS_LO = 1e-3  # certified lower bound that confirms "not antidistinguishable"
RELAXED = {"abs_ipm_opt_tol": 1e-6, "rel_ipm_opt_tol": 1e-6}  # second configuration for the unambiguous programs when CVXOPT breaks down at its default 1e-8


# ------------------------------------------------------------------------------------------------
# instance generation (in the parent, so every random choice derives from the one seeded generator)


def _shape_states(vecs, form, cplx):
    if form == "dm":
        states = [np.outer(v, v.conj()) for v in vecs]
    elif form == "col":
        states = [np.asarray(v).reshape(-1, 1) for v in vecs]
    else:
        states = [np.asarray(v).reshape(-1) for v in vecs]
    if not cplx:
        states = [np.real(s) for s in states]
    return states


def gen_instance(rng):
    d = int(rng.choice([2, 2, 3, 3, 4]))
    k = int(rng.choice([2, 2, 3, 3, 4, 5]))
    cplx = bool(rng.integers(2))
    form = str(rng.choice(["vec1d", "col", "dm", "dm_mixed", "dm_mixed"]))
    kind = str(rng.choice(["random", "near", "near", "near", "orthogonal", "dependent"]))
    if form == "dm_mixed":
        kind = "mixed"
        # full or high rank: exclusion of mixed states with overlapping supports has a value well inside (0, min prior)
        states = [qgen.rand_density(rng, d, int(rng.integers(max(1, d - 1), d + 1)), cplx) for _ in range(k)]
        if not cplx:
            states = [np.real(s) for s in states]
    else:
        if kind == "orthogonal" and k <= d:
            U = qgen.cayley_unitary(rng, d, cplx)
            vecs = [U[:, i] for i in range(k)]
        elif kind == "dependent" and k >= 3:
            base = [qgen.unit(qgen.int_vector(rng, d, cplx)) for _ in range(k - 1)]
            c = rng.integers(1, 4, size=k - 1)
            vecs = base + [qgen.unit(sum(ci * b for ci, b in zip(c, base)))]
        elif kind == "near":
            v0 = qgen.int_vector(rng, d, cplx, lim=4)
            vecs = [qgen.unit(v0)]
            while len(vecs) < k:
                e = np.zeros(d, dtype=complex)
                e[int(rng.integers(d))] = (1j if (cplx and rng.integers(2)) else 1) * int(rng.choice([-1, 1]))
                if np.any(v0 + e != 0):
                    vecs.append(qgen.unit(v0 + e))
        else:
            kind = "random"
            vecs = [qgen.unit(qgen.int_vector(rng, d, cplx)) for _ in range(k)]
        if k >= 3 and rng.integers(8) == 0:
            # the same state listed twice (two labels for one preparation): degenerate but inside the quantifier
            i, j = (int(x) for x in rng.choice(k, size=2, replace=False))
            vecs[j] = vecs[i].copy()
            kind = kind + "+repeat"
        states = _shape_states(vecs, form, cplx)
    probs = qgen.dyadic_probs(rng, k)
    if k >= 3 and rng.integers(6) == 0:
        # "any prior": a prior with an exact zero (that state may always be announced, so the optimum is 0)
        z = int(rng.integers(k))
        rest = qgen.dyadic_probs(rng, k - 1)
        probs = rest[:z] + [0.0] + rest[z:]
    uniform = len(set(probs)) == 1
    return {"d": d, "k": k, "cplx": cplx, "form": form, "kind": kind, "states": states, "probs": probs,
            "probs_given": (not uniform) or bool(rng.integers(3) > 0), "family": None, "anti": None}


def family_instances(rng, n_rot):
    """named families with known status; 'anti' = True/False by the cited facts (re-confirmed by the certificate)"""
    from toqito.states import bb84, bell, pusey_barrett_rudolph, trine
    fams = [("trine", trine(), True)]
    B = [x for pair in bb84() for x in pair]
    for r in (2, 3, 4):
        for sub in itertools.combinations(range(4), r):
            orth = any((a, b) in ((0, 1), (2, 3)) for a in sub for b in sub)
            fams.append((f"bb84{list(sub)}", [B[i] for i in sub], orth))
    fams.append(("bell", [bell(i) for i in range(4)], True))
    fams.append(("bell3", [bell(i) for i in range(3)], True))
    for n in (1, 2):
        thr = 2 * np.arctan(2 ** (1 / n) - 1)
        for th, anti in [(thr, True), (min(np.pi / 2, thr + 0.05), True), (min(np.pi / 2, thr + 0.3), True), (np.pi / 2, True),
                         (thr - 0.12, False), (thr - 0.3, False), (thr / 2, False)]:
            fams.append((f"pbr{n}@{th:.6f}", pusey_barrett_rudolph(n, float(th)), anti))
    out = []
    for name, st, anti in fams:
        d = int(np.asarray(st[0]).size)
        k = len(st)
        for r in range(n_rot + 1):
            cplx = r > 0 and bool(rng.integers(2))
            U = np.eye(d) if r == 0 else qgen.cayley_unitary(rng, d, cplx)
            if not cplx:
                U = np.real(U)
            form = ["col", "vec1d", "dm"][r % 3] if r else "col"
            vecs = [(U @ np.asarray(s).reshape(-1)) for s in st]
            states = _shape_states(vecs, form, cplx)
            out.append({"d": d, "k": k, "cplx": cplx, "form": form, "kind": "family", "states": states, "probs": [1.0 / k] * k,
                        "probs_given": bool(r % 2), "family": name + ("" if r == 0 else f"/rot{r}"), "anti": anti})
    return out


# ------------------------------------------------------------------------------------------------
# bounded calls of the implementation (CVXOPT occasionally needs minutes or does not terminate on degenerate programs)


class CallTimeout(BaseException):
    """raised by the CPU-time limit around one call of the implementation (BaseException: must not be swallowed by `except Exception`)"""


CALL_LIMIT_S = {"quick": 8.0, "thorough": 12.0}  # x (4 calls + 2 retries) stays below the pool's 90 s task limit
_tier = "quick"


def _limited(fn, *a, **kw):
    """run fn with a CPU-time limit (SIGVTALRM, independent of the pool's wall-clock SIGALRM); raises CallTimeout"""
    import signal

    def h(signum, frame):
        raise CallTimeout()

    old = signal.signal(signal.SIGVTALRM, h)
    signal.setitimer(signal.ITIMER_VIRTUAL, CALL_LIMIT_S.get(_tier, 8.0))
    try:
        return fn(*a, **kw)
    finally:
        signal.setitimer(signal.ITIMER_VIRTUAL, 0)
        signal.signal(signal.SIGVTALRM, old)


# ------------------------------------------------------------------------------------------------
# certification


def _dms_exact(states):
    """exact dyadic density operators = exact image of what to_density_matrix computes from the float input"""
    out = []
    for s in states:
        a = np.asarray(s)
        if a.ndim == 1 or 1 in a.shape:
            v = DM.exact_float(a.reshape(-1, 1))
            out.append((v @ v.H()))
        else:
            out.append(DM.exact_float(a).herm_part())
    return out


def _dms_exact_raw(states):
    """as _dms_exact, but square-matrix inputs are taken as they are (to_density_matrix returns them unchanged)"""
    out = []
    for s in states:
        a = np.asarray(s)
        if a.ndim == 1 or 1 in a.shape:
            v = DM.exact_float(a.reshape(-1, 1))
            out.append((v @ v.H()))
        else:
            out.append(DM.exact_float(a))
    return out


def _solve(prob):
    """untrusted reference solve: CLARABEL first (robust on degenerate instances), then CVXOPT, then SCS"""
    import cvxpy as cp
    last = None
    for kw in (dict(solver=cp.CLARABEL), dict(solver=cp.CVXOPT, abstol=1e-9, reltol=1e-9, feastol=1e-9), dict(solver=cp.CVXOPT), dict(solver=cp.SCS, eps=1e-9, max_iters=20000)):
        try:
            prob.solve(**kw)
            if prob.status in ("optimal", "optimal_inaccurate") and all(v.value is not None for v in prob.variables()):
                return
        except Exception as e:
            last = e
    raise RuntimeError(f"reference solve failed: {last}")


def _solve_ref(rhos_f, probs):
    """independent solve (cvxpy) for certificate candidates: returns (POVM list, Y) as float arrays"""
    import cvxpy as cp
    d = rhos_f[0].shape[0]
    k = len(rhos_f)
    Ms = [cp.Variable((d, d), hermitian=True) for _ in range(k)]
    cons = [M >> 0 for M in Ms] + [sum(Ms) == np.eye(d)]
    obj = cp.Minimize(cp.real(sum(probs[i] * cp.trace(rhos_f[i] @ Ms[i]) for i in range(k))))
    pr = cp.Problem(obj, cons)
    _solve(pr)
    Mv = [np.array(M.value) for M in Ms]
    Y = cp.Variable((d, d), hermitian=True)
    pd = cp.Problem(cp.Maximize(cp.real(cp.trace(Y))), [probs[i] * rhos_f[i] - Y >> 0 for i in range(k)])
    _solve(pd)
    return Mv, np.array(Y.value)


def _polish_zero(Ms_f, rhos_f):
    """untrusted: for (nearly) antidistinguishable sets push M_i onto the kernel of rho_i and re-normalise with S^-1/2, which
    keeps a POVM and makes tr(rho_i M_i) vanish to rounding; used only as an additional certificate candidate"""
    try:
        d = rhos_f[0].shape[0]
        out = []
        for M, r in zip(Ms_f, rhos_f):
            w, V = np.linalg.eigh((r + r.conj().T) / 2)
            K = V[:, w < 1e-9]
            P = K @ K.conj().T
            out.append(P @ M @ P)
        S = sum(out)
        w, V = np.linalg.eigh((S + S.conj().T) / 2)
        if w.min() < 1e-3:
            return None
        Si = V @ np.diag(w ** -0.5) @ V.conj().T
        return [Si @ M @ Si for M in out]
    except Exception:
        return None


def certify_excl(drv, rhos, probs, Ms_f, Y_f, psd_exact, eps_bits=26):
    """returns (lo, hi, why) as floats/None using the Lean checker"""
    d = rhos[0].re.shape[0]
    k = len(rhos)
    pj = [frac_json(DM.exact_float(np.array([[p]])).frac(0, 0)[0]) for p in probs]
    lo = hi = None
    why = []
    for cand, eb in [(c, e) for c in Ms_f for e in (eps_bits, 22)]:
        if cand is None or (eb == 22 and hi is not None):
            continue
        P = repair_povm(cand, eps_bits=eb)
        Ls = [chol_factor(M.to_float(), delta=2.0 ** -(eb + 5)) for M in P]
        if all(L is not None for L in Ls):
            r = drv.ask("excl_primal", {"d": d, "rho": [r_.json() for r_ in rhos], "p": pj, "M": [M.json() for M in P], "LM": [L.json() for L in Ls]})
            if "ok" in r:
                v = r["ok"][0] / r["ok"][1]
                hi = v if hi is None else min(hi, v)
            else:
                why.append("primal:" + r["reject"])
        else:
            why.append("primal:cholesky")
    if Y_f is not None:
        Y = DM.from_float((Y_f + Y_f.conj().T) / 2, 40).herm_part() - DM.eye(d).scale_dy(1, 24)
        Ls = []
        for i in range(k):
            pi = DM.exact_float(np.array([[probs[i]]]))
            A = rhos[i].scale_dy(int(pi.re[0, 0]), pi.e) - Y
            Ls.append(chol_factor(A.to_float()))
        if all(L is not None for L in Ls):
            r = drv.ask("excl_dual", {"d": d, "rho": [r_.json() for r_ in rhos], "p": pj, "Y": Y.json(), "LY": [L.json() for L in Ls]})
            if "ok" in r:
                lo = r["ok"][0] / r["ok"][1]
            else:
                why.append("dual:" + r["reject"])
        else:
            why.append("dual:cholesky")
    if psd_exact and all(p > 0 for p in probs):
        # theorem excl_nonneg: states v v^H are PSD exactly, priors positive => every POVM has value >= 0
        lo = 0.0 if lo is None else max(lo, 0.0)
    return lo, hi, why



# ------------------------------------------------------------------------------------------------
# unambiguous exclusion: certified interval (vector inputs) -- Lean checkUnambExclPrimal_sound / checkUnambExclDual_sound


def _chol_exact(A: DM, delta=Fraction(0), bits=80):
    """untrusted: dyadic L (denominator 2^bits) with A - L L^H = delta I up to ~2^-bits, by Cholesky in exact rational arithmetic with
    rounded square roots (the float Cholesky of cert.chol_factor loses the small eigenvalues when the multipliers a_i are ~1e5)"""
    import math
    n = A.re.shape[0]
    sc = 1 << bits

    def rnd(q):
        return Fraction(int(math.floor(q * sc + Fraction(1, 2))), sc)

    Are = [[Fraction(int(A.re[i, j]), 1 << A.e) for j in range(n)] for i in range(n)]
    Aim = [[Fraction(int(A.im[i, j]), 1 << A.e) for j in range(n)] for i in range(n)]
    Lre = [[Fraction(0)] * n for _ in range(n)]
    Lim = [[Fraction(0)] * n for _ in range(n)]
    for j in range(n):
        s_ = Are[j][j] - delta - sum(Lre[j][c] ** 2 + Lim[j][c] ** 2 for c in range(j))
        if s_ <= 0:
            return None
        ljj = Fraction(math.isqrt(int(math.floor(s_ * sc * sc))), sc)
        if ljj == 0:
            return None
        Lre[j][j] = ljj
        for i in range(j + 1, n):
            sr = sum(Lre[i][c] * Lre[j][c] + Lim[i][c] * Lim[j][c] for c in range(j))
            si = sum(Lim[i][c] * Lre[j][c] - Lre[i][c] * Lim[j][c] for c in range(j))
            Lre[i][j] = rnd((Are[i][j] - sr) / ljj)
            Lim[i][j] = rnd((Aim[i][j] - si) / ljj)
    re = np.array([[int(Lre[i][j] * sc) for j in range(n)] for i in range(n)], dtype=object)
    im = np.array([[int(Lim[i][j] * sc) for j in range(n)] for i in range(n)], dtype=object)
    return DM(re, im, bits)


def _solve_unamb_ref(rhos_f, probs, vecs=None):
    """independent solve (cvxpy) of the unambiguous pair for certificate candidates: (POVM part M_i, N, a) as float arrays"""
    import cvxpy as cp
    d = rhos_f[0].shape[0]
    k = len(rhos_f)
    sig = [probs[i] * rhos_f[i] for i in range(k)]
    S = sum(sig)
    if vecs is not None:
        # pure states: M_i = B_i X_i B_i^H with B_i an orthonormal basis of the orthogonal complement of v_i (the equality constraints are
        # eliminated, which the interior-point solvers handle much more accurately)
        Bs = []
        for v in vecs:
            v = np.asarray(v, dtype=complex).reshape(-1)
            _, _, Vh = np.linalg.svd(v.conj().reshape(1, -1))
            Bs.append(Vh[1:].conj().T)
        Xs = [cp.Variable((d - 1, d - 1), hermitian=True) for _ in range(k)]
        Ms = [Bs[i] @ Xs[i] @ Bs[i].conj().T for i in range(k)]
        R = np.eye(d) - sum(Ms)
        pr = cp.Problem(cp.Minimize(cp.real(cp.trace(S @ R))), [X >> 0 for X in Xs] + [R >> 0])
    else:
        Ms = [cp.Variable((d, d), hermitian=True) for _ in range(k)]
        R = np.eye(d) - sum(Ms)
        cons = [M >> 0 for M in Ms] + [R >> 0] + [cp.real(cp.trace(sig[i] @ Ms[i])) == 0 for i in range(k)]
        pr = cp.Problem(cp.Minimize(cp.real(cp.trace(S @ R))), cons)
    _solve(pr)
    N = cp.Variable((d, d), hermitian=True)
    if vecs is not None:
        # the dual optimum is only approached as a_i -> infinity; in that limit the constraint N + a_i sigma_i >= S says that N - S is PSD on the
        # orthogonal complement of v_i.  Solve that well-conditioned program for N, then compute multipliers a_i that suffice for N + 2^-19 I.
        pd = cp.Problem(cp.Maximize(cp.real(cp.trace(S)) - cp.real(cp.trace(N))), [N >> 0] + [Bs[i].conj().T @ (N - S) @ Bs[i] >> 0 for i in range(k)])
        _solve(pd)
        Nv = np.array(N.value)
        T = (Nv + Nv.conj().T) / 2 + 2.0 ** -19 * np.eye(d) - S
        av = []
        for i, v in enumerate(vecs):
            v = np.asarray(v, dtype=complex).reshape(-1)
            nv = float(np.real(np.vdot(v, v)))
            u = v / np.sqrt(nv)
            c = Bs[i].conj().T @ T @ u
            TB = Bs[i].conj().T @ T @ Bs[i]
            need = float(np.real(np.vdot(c, np.linalg.solve(TB, c)))) - float(np.real(np.vdot(u, T @ u)))
            av.append(2.0 * max(0.0, need) / (probs[i] * nv) + 1.0)
        return [np.array(M.value) for M in Ms], Nv, np.array(av)
    a = cp.Variable(k)
    pd = cp.Problem(cp.Maximize(cp.real(cp.trace(S)) - cp.real(cp.trace(N))), [N >> 0] + [N + a[i] * sig[i] - S >> 0 for i in range(k)])
    _solve(pd)
    return [np.array(M.value) for M in Ms], np.array(N.value), np.array(a.value).reshape(-1)


def _weighted(rhos, probs):
    sig = []
    for i in range(len(rhos)):
        pi = DM.exact_float(np.array([[probs[i]]]))
        sig.append(rhos[i].scale_dy(int(pi.re[0, 0]), pi.e))
    S = sig[0]
    for t in sig[1:]:
        S = S + t
    return sig, S


def _unamb_points(states, rhos, probs, Ms_f, N_f, a_f):
    """untrusted: exact near-optimal points (with PSD witnesses) of the unambiguous primal and dual for VECTOR inputs.
    primal: M_i = s^2 K_i L L^H K_i with K_i = (v^H v) I - v v^H (so tr(rho_i M_i) = 0 exactly, witness s K_i L with residual 0) and
    L L^H ~ solver's M_i + 2^-26; dual: N + 2^-e I with the solver's a (rounded to 2^-16)"""
    d = rhos[0].re.shape[0]
    k = len(rhos)
    I = DM.eye(d)
    sb = 17
    M, LM = [], []
    for i, s_ in enumerate(states):
        v = DM.exact_float(np.asarray(s_).reshape(-1, 1))
        n2 = v.H() @ v
        K = I.scale_dy(int(n2.re[0, 0]), n2.e) - (v @ v.H())
        Mh = (Ms_f[i] + Ms_f[i].conj().T) / 2
        try:
            L = np.linalg.cholesky(Mh + 2.0 ** -26 * np.eye(d))
        except np.linalg.LinAlgError:
            w, V = np.linalg.eigh(Mh)
            L = V @ np.diag(np.sqrt(np.clip(w, 0, None) + 2.0 ** -26))
        Lq = (K @ DM.from_float(L, 36)).scale_dy((1 << sb) - 1, sb)
        LM.append(Lq)
        M.append(Lq @ Lq.H())
    Ssum = M[0]
    for m in M[1:]:
        Ssum = Ssum + m
    primal = {"M": M, "LM": LM, "LR": _chol_exact(I - Ssum, Fraction(1, 1 << 30))}
    sig, Sx = _weighted(rhos, probs)
    am = [int(round(float(x) * (1 << 16))) for x in a_f]
    dual = None
    for eps_bits in (19, 17, 15):
        N = DM.from_float((N_f + N_f.conj().T) / 2, 40).herm_part() + I.scale_dy(1, eps_bits)
        LD = [_chol_exact(N + sig[i].scale_dy(am[i], 16) - Sx, Fraction(1, 1 << (eps_bits + 3))) for i in range(k)]
        LN = _chol_exact(N, Fraction(1, 1 << (eps_bits + 3)))
        dual = {"N": N, "a": [Fraction(m_, 1 << 16) for m_ in am], "LN": LN, "LD": LD}
        if LN is not None and all(x is not None for x in LD):
            break
    return primal, dual


def certify_unamb_excl(drv, rhos, probs, primal, dual):
    """(lo, hi, why) of the unambiguous optimum from the verified checkers"""
    d = rhos[0].re.shape[0]
    pj = [frac_json(Fraction(float(p))) for p in probs]
    lo = hi = None
    why = []
    rj = [r_.json() for r_ in rhos]
    if primal["LR"] is None:
        why.append("primal:rest-cholesky")
    else:
        r = drv.ask("excl_unamb_primal", {"d": d, "rho": rj, "p": pj, "M": [m.json() for m in primal["M"]], "LM": [m.json() for m in primal["LM"]], "LR": primal["LR"].json()})
        if "ok" in r:
            hi = r["ok"][0] / r["ok"][1]
        else:
            why.append("primal:" + r["reject"])
    if dual["LN"] is None or any(x is None for x in dual["LD"]):
        why.append("dual:cholesky")
    else:
        r = drv.ask("excl_unamb_dual", {"d": d, "rho": rj, "p": pj, "N": dual["N"].json(), "a": [frac_json(x) for x in dual["a"]], "LN": dual["LN"].json(), "LD": [m.json() for m in dual["LD"]]})
        if "ok" in r:
            lo = r["ok"][0] / r["ok"][1]
        else:
            why.append("dual:" + r["reject"])
    return lo, hi, why


def _meas_values(meas):
    out = []
    for m in meas:
        v = getattr(m, "value", m)
        out.append(np.array(v, dtype=complex))
    return out


def _base(inst):
    b = {kk: inst[kk] for kk in ("d", "k", "cplx", "form", "kind", "probs", "family")}
    b["states"] = [np.asarray(s) for s in inst["states"]]
    b["pres"], b["real_idx"] = inst.get("pres"), list(inst.get("real_idx", ()))
    return b


# ------------------------------------------------------------------------------------------------
# workers


def work(task, res: Result):
    from toqito.state_opt import state_exclusion
    warnings.filterwarnings("ignore")
    inst, calls = task
    drv = worker_driver()
    states, probs, d, k = inst["states"], inst["probs"], inst["d"], inst["k"]
    rhos = _dms_exact(states)
    rhos_f = [r.to_float() for r in rhos]
    base = _base(inst)
    psd_exact = inst["form"] in ("vec1d", "col")
    fam = inst["family"]
    try:
        Ms_ref, Y_ref = _solve_ref(rhos_f, probs)
    except Exception:
        res.count("uncertified/ref-solve-failed")
        return
    cands = [Ms_ref]
    if inst["anti"] or float(np.real(sum(probs[i] * np.trace(rhos_f[i] @ Ms_ref[i]) for i in range(k)))) < 1e-6:
        cands.append(_polish_zero(Ms_ref, rhos_f))
    lo, hi, why = certify_excl(drv, rhos, probs, cands, Y_ref, psd_exact)
    certified = lo is not None and hi is not None and hi - lo <= WIDTH_OK
    if not certified:
        res.count("uncertified/minerr:" + ";".join(why)[:60])
    minp = min(probs)
    fam_ok = None
    if fam is not None and certified:
        # the certified interval must confirm the cited status of the family (otherwise the harness/citation is wrong)
        fam_ok = (hi <= ZERO_HI) if inst["anti"] else (lo > POS_LO)
        res.count("family/" + ("anti" if inst["anti"] else "not-anti") + ("/confirmed" if fam_ok else "/UNCONFIRMED"))
        if not fam_ok:
            res.violation(f"certified interval [{lo:.3e}, {hi:.3e}] contradicts the cited status anti={inst['anti']} of family {fam} (harness or citation wrong)",
                          {"function": "family-status", "args": base, "certified": [lo, hi], "theorem": "checkExclPrimal_sound / checkExclDual_sound / excl_nonneg"})
    unamb = {}
    queue = [(s_, p_, v_, {}) for (s_, p_, v_) in calls]
    while queue:
        strategy, pd, solver, kw = queue.pop(0)
        desc = dict(base, strategy=strategy, primal_dual=pd, solver=solver, probs_given=inst["probs_given"])
        if kw:
            desc["kwargs"] = kw
        # the same values in a presentation drawn for this call (layout / real and integer dtypes, independently per list element)
        prng = call_rng(inst.get("pres"), strategy, pd, solver, bool(kw))
        args = dict(vectors=present_list(prng, states, force_real=inst.get("real_idx", ())), probs=(list(probs) if inst["probs_given"] else None),
                    strategy=strategy, solver=solver, primal_dual=pd, **kw)
        guard = Pure(**args)
        cfg = solver + ("+relaxed-tol" if kw else "")

        def numfail():
            # CVXOPT's KKT solver breaking down numerically on a degenerate instance: runtime behaviour of the solver,
            # not a statement about the optimum (DESIGN.md section 10); counted, never silently dropped
            res.case(desc, False, f"{strategy}/{pd}/{cfg}/solver-numerical-failure")
            if strategy == "unambiguous" and not kw and solver == "cvxopt":
                # the remedy recommended in the function's own docstring (a looser interior-point tolerance), as a second configuration
                queue.append((strategy, pd, solver, dict(RELAXED)))

        try:
            val, meas = _limited(state_exclusion, **args)
            why_mod = guard.modified()
            val2 = None
            if why_mod is None and strategy == "min_error" and prng is not None and int(prng.integers(4)) == 0:
                try:
                    val2 = float(np.real(_limited(state_exclusion, **args)[0]))   # the SAME objects again
                    why_mod = guard.modified()
                except (ArithmeticError, ZeroDivisionError, CallTimeout):
                    res.count("repeat-call/solver-numerical-failure-or-timeout")
        except CallTimeout:
            # the solver did not finish within the CPU-time limit: runtime behaviour, counted in the evidence, no verdict
            res.case(desc, False, f"{strategy}/{pd}/{cfg}/solver-timeout")
            continue
        except TaskTimeout:
            raise
        except (ArithmeticError, ZeroDivisionError):
            numfail()
            continue
        except Exception as e:
            if isinstance(e, ValueError) and "math domain error" in str(e):
                # same breakdown surfacing as sqrt of a negative number inside cvxopt's scaling update
                numfail()
                continue
            if strategy == "unambiguous" and type(e).__name__ in ("SolutionFailure",):
                res.case(desc, False, f"{strategy}/{pd}/{solver}/no-solution")
                continue
            res.case(desc, True, f"{strategy}/{pd}/{solver}/raise")
            res.violation(f"state_exclusion({strategy},{pd}) raises {type(e).__name__}: {str(e)[:120]} on a valid {'complex' if inst['cplx'] else 'real'} ensemble",
                          {"function": "state_exclusion", "args": desc, "exception": f"{type(e).__name__}: {str(e)[:300]}", "cplx": inst["cplx"],
                           "presentation": describe(args["vectors"])})
            continue
        tau = TAU.get(solver, TAU_OTHER)
        val = float(np.real(val))
        if why_mod is not None:
            res.violation(f"state_exclusion({strategy},{pd}): caller's arguments were modified ({why_mod})",
                          {"function": "state_exclusion", "args": desc, "modified": why_mod, "presentation": describe(args["vectors"]), "cplx": inst["cplx"], "check": "purity"})
        elif val2 is not None:
            res.count("repeat-call/checked")
            if abs(val2 - val) > 2 * tau:
                res.violation(f"state_exclusion({strategy},{pd}): a second call on the same objects returns {val2:.8f}, the first returned {val:.8f}",
                              {"function": "state_exclusion", "args": desc, "values": [val, val2], "presentation": describe(args["vectors"]), "cplx": inst["cplx"], "check": "repeat"})
        tag = f"{strategy}/{pd}/{cfg}/{inst['form']}/{'c' if inst['cplx'] else 'r'}/{inst['kind']}"
        if strategy == "unambiguous":
            unamb.setdefault((pd, solver), (val, desc))
            res.case(desc, False, tag)
            continue
        nontriv = certified and ((1e-2 <= lo and hi <= minp - 1e-2) or bool(fam_ok))
        res.case(desc, nontriv, tag)
        if not certified:
            continue
        if not (lo - tau <= val <= hi + tau):
            res.violation(f"state_exclusion(min_error,{pd},{solver}) = {val:.8f} outside the certified optimum [{lo:.8f}, {hi:.8f}]",
                          {"function": "state_exclusion", "args": desc, "impl": val, "certified": [lo, hi], "tau": tau,
                           "theorem": "checkExclPrimal_sound / checkExclDual_sound / excl_nonneg", "cplx": inst["cplx"], "check": "value",
                           "presentation": describe(args["vectors"])})
            continue
        # returned measurement: a valid POVM attaining the reported value
        try:
            Mv = _meas_values(meas)
        except Exception:
            res.count("returned-measurement-unreadable")
            continue
        if len(Mv) != k or any(M.shape != (d, d) for M in Mv):
            res.violation(f"state_exclusion(min_error,{pd}): returned {len(Mv)} operators of shapes {[M.shape for M in Mv]} for {k} states of dimension {d}",
                          {"function": "state_exclusion", "args": desc, "impl": val, "cplx": inst["cplx"], "check": "povm-shape"})
            continue
        S = sum(Mv)
        povm_res = float(np.max(np.abs(S - np.eye(d))))
        mineig = min(float(np.min(np.linalg.eigvalsh((M + M.conj().T) / 2))) for M in Mv)
        herm = max(float(np.max(np.abs(M - M.conj().T))) for M in Mv)
        att = float(sum(probs[i] * np.real(np.trace(rhos_f[i] @ Mv[i])) for i in range(k)))
        if povm_res > 1e-4 or mineig < -1e-4 or herm > 1e-4 or abs(att - val) > 1e-4:
            att_t = float(sum(probs[i] * np.real(np.trace(rhos_f[i] @ Mv[i].T)) for i in range(k)))
            res.violation(f"state_exclusion(min_error,{pd}): returned measurement is not a POVM attaining the value (sum residual {povm_res:.2e}, min eig {mineig:.2e}, "
                          f"attained {att:.6f} vs reported {val:.6f}; the transposed operators attain {att_t:.6f})",
                          {"function": "state_exclusion", "args": desc, "impl": val, "povm_residual": povm_res, "min_eig": mineig, "attained": att,
                           "attained_by_transposes": att_t, "cplx": inst["cplx"], "check": "povm-attains",
                           "theorem": "checkExclPrimal_sound (a POVM's value is what the objective says)"})
    # ---- unambiguous variant: certified interval of the optimum (vector inputs: v v^H has an exact kernel) ...
    if unamb and psd_exact and all(p > 0 for p in probs):
        ulo = uhi = None
        try:
            Mu, Nu, au = _solve_unamb_ref(rhos_f, probs, vecs=states)
            pr_pt, du_pt = _unamb_points(states, rhos, probs, Mu, Nu, au)
            ulo, uhi, uwhy = certify_unamb_excl(drv, rhos, probs, pr_pt, du_pt)
        except TaskTimeout:
            raise
        except Exception as e:
            uwhy = [f"ref:{type(e).__name__}"]
        if ulo is None or uhi is None or uhi - ulo > WIDTH_OK:
            res.count("uncertified/unamb:" + (";".join(uwhy)[:60] or "width"))
        else:
            res.count("unambiguous/certified")
            for (pd_, solver_), (v_, d_) in unamb.items():
                if not (ulo - TAU_UNAMB <= v_ <= uhi + TAU_UNAMB):
                    res.violation(f"state_exclusion(unambiguous,{pd_},{solver_}) = {v_:.8f} outside the certified optimum [{ulo:.8f}, {uhi:.8f}]",
                                  {"function": "state_exclusion", "args": d_, "impl": v_, "certified": [ulo, uhi], "tau": TAU_UNAMB, "cplx": inst["cplx"], "check": "unamb-value",
                                   "theorem": "checkUnambExclPrimal_sound / checkUnambExclDual_sound"})
    # ---- ... and primal and dual agree where both return
    for solver in {s for (_, s) in unamb}:
        if ("primal", solver) in unamb and ("dual", solver) in unamb:
            vp, dp = unamb[("primal", solver)]
            vd, dd = unamb[("dual", solver)]
            res.count("unambiguous/both-solved")
            if abs(vp - vd) > 1e-4:
                res.violation(f"state_exclusion(unambiguous): primal {vp:.8f} and dual {vd:.8f} disagree",
                              {"function": "state_exclusion", "args": dp, "impl": [vp, vd], "cplx": inst["cplx"], "check": "unamb-agree", "theorem": "unamb_excl_weak_duality_normalised"})
            elif certified and vp < lo - 1e-4:
                # an unambiguous strategy with the inconclusive outcome reassigned is a conclusive one: P(inconclusive) >= min-error value
                res.violation(f"state_exclusion(unambiguous) = {vp:.8f} below the certified min-error value {lo:.8f}",
                              {"function": "state_exclusion", "args": dp, "impl": vp, "certified": [lo, hi], "cplx": inst["cplx"], "check": "unamb-ge-minerr"})
    # ---- inequalities on the certified interval (theorems excl_nonneg, excl_le_min_prior; closed form for two states)
    if certified:
        tau = 2e-5
        trs = [float(np.real(np.trace(r))) for r in rhos_f]
        if hi < -1e-9:
            res.violation("certified optimum negative (harness error)", {"function": "nonneg", "args": base, "certified": [lo, hi]})
        if lo > min(p * t for p, t in zip(probs, trs)) + 1e-9:
            res.violation("certified optimum above the smallest prior (harness error)", {"function": "minprior", "args": base, "certified": [lo, hi]})
        if k == 2:
            hel = 0.5 * (sum(p * t for p, t in zip(probs, trs)) - float(np.sum(np.abs(np.linalg.eigvalsh(probs[0] * rhos_f[0] - probs[1] * rhos_f[1])))))
            res.count("closed-form/two-states")
            if not (lo - tau <= hel <= hi + tau):
                res.violation("certified exclusion optimum for two states disagrees with 1 - Helstrom (harness or cited closed form wrong)",
                              {"function": "helstrom", "args": base, "helstrom": hel, "certified": [lo, hi]})
        if inst["kind"] == "orthogonal":
            res.count("closed-form/orthogonal")
            if hi > 1e-6:
                res.violation("certified optimum above 0 for mutually orthogonal states (harness error)", {"function": "orthogonal", "args": base, "certified": [lo, hi]})


def work_anti(task, res: Result):
    """is_antidistinguishable / common_quantum_overlap against the certified interval for all-ones weights"""
    from toqito.state_props import common_quantum_overlap, is_antidistinguishable
    warnings.filterwarnings("ignore")
    inst = task
    drv = worker_driver()
    states, d, k = inst["states"], inst["d"], inst["k"]
    ones = [1.0] * k
    rhos = _dms_exact(states)
    rhos_f = [r.to_float() for r in rhos]
    base = _base(inst)
    base["probs"] = ones
    try:
        Ms_ref, Y_ref = _solve_ref(rhos_f, ones)
    except Exception:
        res.count("uncertified/anti-ref-solve-failed")
        return
    cands = [Ms_ref]
    if inst["anti"] or float(np.real(sum(np.trace(rhos_f[i] @ Ms_ref[i]) for i in range(k)))) < 1e-6:
        cands.append(_polish_zero(Ms_ref, rhos_f))
    lo, hi, why = certify_excl(drv, rhos, ones, cands, Y_ref, inst["form"] in ("vec1d", "col"), eps_bits=28)
    certified = lo is not None and hi is not None and hi - lo <= WIDTH_OK
    if not certified:
        res.count("uncertified/anti:" + ";".join(why)[:60])
    for fn_name, fn in (("is_antidistinguishable", is_antidistinguishable), ("common_quantum_overlap", common_quantum_overlap)):
        desc = dict(base, fn=fn_name)
        vecs = present_list(call_rng(inst.get("pres"), fn_name), states, force_real=inst.get("real_idx", ()))
        guard = Pure(vecs)
        try:
            out = _limited(fn, vecs)
            if guard.modified() is not None:
                res.violation(f"{fn_name}: caller's arguments were modified ({guard.modified()})",
                              {"function": fn_name, "args": desc, "modified": guard.modified(), "presentation": describe(vecs), "cplx": inst["cplx"], "check": "purity"})
        except CallTimeout:
            res.case(desc, False, f"{fn_name}/solver-timeout")
            continue
        except TaskTimeout:
            raise
        except (ArithmeticError, ZeroDivisionError):
            res.case(desc, False, f"{fn_name}/solver-numerical-failure")
            continue
        except Exception as e:
            res.case(desc, True, f"{fn_name}/raise")
            res.violation(f"{fn_name} raises {type(e).__name__}: {str(e)[:120]} on a valid ensemble",
                          {"function": fn_name, "args": desc, "exception": f"{type(e).__name__}: {str(e)[:300]}", "cplx": inst["cplx"], "presentation": describe(vecs)})
            continue
        if not certified:
            res.case(desc, False, f"{fn_name}/uncertified")
            continue
        if fn_name == "common_quantum_overlap":
            out = float(np.real(out))
            nontriv = (lo >= 1e-2 and hi <= 1 - 1e-2) or inst["family"] is not None
            res.case(desc, nontriv, f"{fn_name}/{inst['kind']}")
            if not (lo - 2e-5 * k <= out <= hi + 2e-5 * k):
                res.violation(f"common_quantum_overlap = {out:.8f} outside the certified all-ones-weights exclusion optimum [{lo:.8f}, {hi:.8f}]",
                              {"function": fn_name, "args": desc, "impl": out, "certified": [lo, hi], "theorem": "checkExclPrimal_sound / checkExclDual_sound / excl_scale", "cplx": inst["cplx"]})
        else:
            if hi <= ZERO_HI:
                expect = True
            elif lo > POS_LO:
                expect = False
            else:
                res.case(desc, False, f"{fn_name}/indecisive-interval")
                continue
            if inst["anti"] is not None and inst["anti"] != expect:
                res.violation(f"certified interval [{lo:.3e}, {hi:.3e}] (all-ones weights) contradicts the cited status anti={inst['anti']} of family {inst['family']} (harness or citation wrong)",
                              {"function": "family-status", "args": desc, "certified": [lo, hi]})
                continue
            res.case(desc, True, f"{fn_name}/{'anti' if expect else 'not-anti'}/{inst['kind']}")
            if bool(out) != expect:
                res.violation(f"is_antidistinguishable = {bool(out)} but the certified all-ones-weights exclusion optimum is in [{lo:.3e}, {hi:.3e}]",
                              {"function": fn_name, "args": desc, "impl": bool(out), "certified": [lo, hi],
                               "theorem": "antidist_iff_zero / not_antidist_of_dual_pos / checkExclPrimal_sound", "cplx": inst["cplx"]})


def work_invariance(task, res: Result):
    """unitary and relabelling invariance of the implementation's value (exact rational unitary); theorem excl_values_unitary_invariant"""
    from toqito.state_opt import state_exclusion
    warnings.filterwarnings("ignore")
    inst, U, perm = task
    states, probs = inst["states"], inst["probs"]
    vecs = [np.asarray(s) for s in states]

    def rot(s):
        a = np.asarray(s)
        if a.ndim == 1 or a.shape[1] == 1:
            return U @ a
        return U @ a @ U.conj().T

    ri = list(inst.get("real_idx", ()))
    a0 = present_list(call_rng(inst.get("pres"), "inv0"), vecs, force_real=ri)
    a2 = present_list(call_rng(inst.get("pres"), "inv2"), [vecs[i] for i in perm], force_real=[n for n, i in enumerate(perm) if i in ri])
    try:
        v0, _ = _limited(state_exclusion, a0, probs)
        v1, _ = _limited(state_exclusion, present_list(call_rng(inst.get("pres"), "inv1"), [rot(s) for s in vecs]), probs)
        v2, _ = _limited(state_exclusion, a2, [probs[i] for i in perm])
    except TaskTimeout:
        raise
    except (Exception, CallTimeout):
        res.case({"fn": "invariance", "k": inst["k"], "d": inst["d"]}, False, "invariance/raise")
        return
    desc = {"fn": "invariance", "d": inst["d"], "k": inst["k"], "cplx": inst["cplx"], "form": inst["form"], "perm": perm, "states": vecs, "probs": probs, "U": U,
            "pres": inst.get("pres"), "real_idx": ri}
    res.case(desc, min(v0, v1) > 1e-2, "invariance")
    if abs(v0 - v1) > 4e-5 or abs(v0 - v2) > 4e-5:
        res.violation(f"min-error exclusion value not invariant: base {v0:.8f}, common unitary {v1:.8f}, relabelled {v2:.8f}",
                      {"function": "state_exclusion", "args": desc, "values": [float(v0), float(v1), float(v2)], "theorem": "excl_values_unitary_invariant", "check": "invariance"})



LOOSE_OPTS = {"abs_ipm_opt_tol": 1e-2, "rel_ipm_opt_tol": 1e-2, "abs_prim_fsb_tol": 1e-2, "rel_prim_fsb_tol": 1e-2, "abs_dual_fsb_tol": 1e-2, "rel_dual_fsb_tol": 1e-2}


def work_history(task, res: Result):
    """the value of a call does not depend on what was computed before it in the same process: default call on ensemble A, then a call on
    another ensemble B with coarse solver options handed over through **kwargs (a documented argument), then the default call on A again.
    The solver is deterministic, so the two values of A must coincide (to 1e-9); options that outlive the call they were given to show here."""
    from toqito.state_opt import state_exclusion
    warnings.filterwarnings("ignore")
    instA, instB, strategy, pd = task
    sa, sb = [np.asarray(x) for x in instA["states"]], [np.asarray(x) for x in instB["states"]]
    desc = dict(_base(instA), fn="history", strategy=strategy, primal_dual=pd, other={"states": sb, "probs": instB["probs"]}, options=LOOSE_OPTS)

    def default_call():
        return float(_limited(state_exclusion, [x.copy() for x in sa], list(instA["probs"]), strategy=strategy, primal_dual=pd)[0])
    try:
        v0 = default_call()
    except TaskTimeout:
        raise
    except (Exception, CallTimeout):
        res.case(desc, False, "history/first-call-fails")
        return
    try:
        _limited(state_exclusion, [x.copy() for x in sb], list(instB["probs"]), strategy=strategy, primal_dual=pd, **LOOSE_OPTS)
    except TaskTimeout:
        raise
    except (Exception, CallTimeout):
        res.count("history/coarse-call-raises")
    res.case(desc, v0 > 1e-3, f"history/{strategy}/{pd}")
    try:
        v1 = default_call()
    except TaskTimeout:
        raise
    except (Exception, CallTimeout) as e:
        res.violation(f"state_exclusion({strategy},{pd}) raises {type(e).__name__} on an ensemble it solved before a call with other solver options was made",
                      {"function": "state_exclusion", "args": desc, "values": [v0, None], "check": "history"})
        return
    if not abs(v0 - v1) <= 1e-9:
        res.violation(f"state_exclusion({strategy},{pd}) depends on the calls made before it: {v0!r} before, {v1!r} after a call with coarse solver options on another ensemble",
                      {"function": "state_exclusion", "args": desc, "values": [v0, v1], "check": "history"})


# ------------------------------------------------------------------------------------------------
# stream `embedding`: the picos programs that state_exclusion BUILDS (captured at Problem.solve, never solved) against the
# programs the theorems are about (Lean `excl_program`: prepare + the slack functions used by the verified checkers)


class _Captured(BaseException):
    """raised by the patched picos.Problem.solve (BaseException: must pass through `except Exception` inside toqito)"""


def _capture(fn):
    """run fn with picos.Problem.solve replaced by a recorder; returns the list of (problem, solve-kwargs) it was called with"""
    import picos
    got = []
    orig = picos.Problem.solve

    def fake(self, *a, **kw):
        got.append((self, dict(kw)))
        raise _Captured()

    picos.Problem.solve = fake
    try:
        try:
            fn()
        except _Captured:
            pass
    finally:
        picos.Problem.solve = orig
    return got


def _state_args(states):
    """raw arguments for the Lean model: exact images of the arrays handed to toqito (vector layouts -> column vector)"""
    out = []
    for s_ in states:
        a = np.asarray(s_)
        if a.ndim == 1 or 1 in a.shape:
            out.append({"vec": DM.exact_float(a.reshape(-1, 1)).json()})
        else:
            out.append({"dm": DM.exact_float(a).json()})
    return out


def _qmat(j, shape):
    """model matrix {"re":[[n,d]..],"im":..} -> complex float array (each entry rounded once)"""
    re = np.array([float(Fraction(n, d_)) for n, d_ in j["re"]]).reshape(shape)
    im = np.array([float(Fraction(n, d_)) for n, d_ in j["im"]]).reshape(shape)
    return re + 1j * im


def _rand_mat(rng, d, cplx, lim=3):
    A = rng.integers(-lim, lim + 1, size=(d, d)).astype(complex)
    B = rng.integers(-lim, lim + 1, size=(d, d))     # drawn in both cases: the stream does not depend on cplx
    return A + 1j * B if cplx else A


def _rand_herm(rng, d, cplx, lim=3):
    A = _rand_mat(rng, d, cplx, lim)
    return (A + A.conj().T) / 2.0


def _dy(x, bits=20):
    """float -> DM 1x1 style dyadic (m, k) with x ~ m / 2^k"""
    return int(round(x * (1 << bits))), bits


def _embed_points(rng, form, rhos, probs, states, d, k):
    """exact points of the model's program for `form` (dict of DM / Fractions) plus PSD witnesses; feasible by construction
    (the verified checker is the judge) -- and the list of negative controls derived from the point: (label, modified point).
    Points are genuinely complex exactly when some state is (for a real ensemble the real points already decide the optimum, so a
    program restricted to real symmetric variables would not be a failing input there)."""
    I = DM.eye(d)
    cplx = any(np.iscomplexobj(np.asarray(s_)) and np.any(np.imag(np.asarray(s_))) for s_ in states)
    if form == "me_primal":
        Mf = [np.eye(d) / k + 0.02 * _rand_herm(rng, d, cplx) / d for _ in range(k)]
        M = repair_povm(Mf, eps_bits=10)
        pt = {"M": M, "LM": [chol_factor(m.to_float()) for m in M]}
        two = I.scale_dy(2, 0)
        quarter = I.scale_dy(1, 2)
        bad = [("M0-not-psd", {"M": [M[0] - two, M[1] + two] + M[2:]}), ("sum-above-identity", {"M": [M[0] + quarter] + M[1:]}),
               ("sum-below-identity", {"M": [M[0] - I.scale_dy(1, 4)] + M[1:]})]
        return pt, bad
    if form == "me_dual":
        G = DM.from_float(0.25 * _rand_mat(rng, d, cplx), 8)
        Y = ((I - I) - (G @ G.H()) - I.scale_dy(1, 6)).herm_part()       # Y = -(G G^H + I/64) <= 0 <= p_i rho_i
        LY = []
        for i in range(k):
            pi = DM.exact_float(np.array([[probs[i]]]))
            LY.append(chol_factor((rhos[i].scale_dy(int(pi.re[0, 0]), pi.e) - Y).to_float()))
        return {"Y": Y, "LY": LY}, [("Y-too-large", {"Y": Y + I.scale_dy(2, 0)})]
    if form == "ua_primal":
        M, LM, Ks = [], [], []
        t = 2 + k.bit_length() // 2 + 1                                    # c = 4^-t, k * c * 2.1 < 1
        for s_ in states:
            a = np.asarray(s_)
            if a.ndim == 1 or 1 in a.shape:
                v = DM.exact_float(a.reshape(-1, 1))
                n2 = (v.H() @ v)
                Kq = I.scale_dy(int(n2.re[0, 0]), n2.e) - (v @ v.H())     # exactly PSD with K v = 0, so tr(v v^H K X K) = 0 for every X
                Lg = DM.from_float(np.eye(d) + 0.1 * _rand_mat(rng, d, cplx) / d, 8)
                Li = (Kq @ Lg).scale_dy(1, t)                               # M_i = L_i L_i^H exactly: the PSD witness has residual 0
                Mi = (Li @ Li.H())
            else:
                Kq = I - I
                Li = I - I
                Mi = I - I                                                  # density-matrix input: its exact kernel is unknown, use M_i = 0
            Ks.append(Kq)
            LM.append(Li)
            M.append(Mi)
        S = M[0]
        for m in M[1:]:
            S = S + m
        pt = {"M": M, "LM": LM, "LR": chol_factor((I - S).to_float())}
        bad = [("rest-not-psd", {"M": [M[0] + (Ks[0].scale_dy(3, 0) if np.any(Ks[0].to_float()) else I.scale_dy(2, 0))] + M[1:]})]
        if probs[0] > 0:
            bad.append(("trace-rho0-M0-not-zero", {"M": [M[0] + I.scale_dy(1, 2)] + M[1:]}))
        return pt, bad
    if form == "ua_dual":
        S = None
        for i in range(k):
            pi = DM.exact_float(np.array([[probs[i]]]))
            t = rhos[i].scale_dy(int(pi.re[0, 0]), pi.e)
            S = t if S is None else S + t
        G = DM.from_float(0.25 * _rand_mat(rng, d, cplx), 8)
        N = (S + (G @ G.H()) + I.scale_dy(1, 6)).herm_part()
        a = [Fraction(int(rng.integers(-1, 64)), 16) if i else Fraction(-1, 1024) for i in range(k)]
        LD = []
        for i in range(k):
            pi = DM.exact_float(np.array([[probs[i]]]))
            sig = rhos[i].scale_dy(int(pi.re[0, 0]), pi.e)
            A = N + sig.scale_dy(a[i].numerator, a[i].denominator.bit_length() - 1) - S
            LD.append(chol_factor(A.to_float()))
        return {"N": N, "a": a, "LN": chol_factor(N.to_float()), "LD": LD}, [("N-not-psd", {"N": N - I.scale_dy(3, 0)})]
    raise ValueError(form)


_EMBED_FORMS = {"me_primal": ("min_error", "primal", "min"), "me_dual": ("min_error", "dual", "max"),
                "ua_primal": ("unambiguous", "primal", "min"), "ua_dual": ("unambiguous", "dual", "max")}
EMB_TOL = 1e-12   # captured slack vs model slack, entrywise (both are the float image of the same exact affine expression)
EMB_BAD = 1e-3    # a negative control must violate a captured constraint by at least this much


def _captured_layout(P, form, d, k):
    """([(kind, constraint)], same-layout-as-the-model?) of the captured problem; CorrespondenceBroken when its VARIABLES are not those of
    the modelled program (then no point of the model can be written into it).  Constraints are evaluated whatever they are: a dropped or
    relaxed constraint lets a negative control through, an added or tightened one rejects a certified feasible point."""
    names = sorted(P.variables.keys())
    want = {"me_primal": sorted(f"M[{i}]" for i in range(k)), "me_dual": ["Y"], "ua_primal": sorted(f"M[{i}]" for i in range(k)), "ua_dual": ["N", "a"]}[form]
    if names != want:
        raise CorrespondenceBroken(f"state_exclusion/{form}: the captured picos problem has variables {names}, the modelled program has {want}")
    for n_, v in P.variables.items():
        shp = (k, 1) if n_ == "a" else (d, d)
        if tuple(v.shape) != shp:
            raise CorrespondenceBroken(f"state_exclusion/{form}: variable {n_} has shape {tuple(v.shape)}, the modelled program has {shp}")
    cons = []
    for c in P.constraints.values():
        if hasattr(c, "psd"):
            cons.append(("psd", c))
        elif type(c).__name__ in ("ComplexAffineConstraint",) or (hasattr(c, "is_equality") and c.is_equality()):
            cons.append(("eq", c))
        else:
            cons.append(("other", c))     # evaluated through its slack only
    want_kinds = {"me_primal": ["psd"] * k + ["eq"], "me_dual": ["psd"] * k, "ua_primal": ["psd"] * (k + 1) + ["eq"] * k, "ua_dual": ["psd"] * (k + 1)}[form]
    return cons, [kd for kd, _ in cons] == want_kinds


def _assign(P, form, pt, k):
    """write the exact point (as floats) into the captured variables; returns an error text when a variable refuses the value"""
    try:
        if form in ("me_primal", "ua_primal"):
            for i in range(k):
                P.variables[f"M[{i}]"].value = pt["M"][i].to_float()
        elif form == "me_dual":
            P.variables["Y"].value = pt["Y"].to_float()
        else:
            P.variables["N"].value = pt["N"].to_float()
            P.variables["a"].value = [float(x) for x in pt["a"]]
    except Exception as e:   # e.g. a real symmetric variable refusing a complex Hermitian value
        return f"{type(e).__name__}: {str(e)[:200]}"
    return None


def _captured_residuals(cons):
    """per constraint: ('psd', slack matrix) or ('eq', residual array) as complex numpy arrays"""
    def val(e):
        return np.atleast_2d(np.array(e.np, dtype=complex))     # picos: numeric value as a numpy array / scalar

    out = []
    for kd, c in cons:
        if kd == "psd":
            out.append((kd, val(c.psd)))
        elif kd == "eq":
            out.append((kd, val(c.lhs) - val(c.rhs)))
        else:
            out.append((kd, np.atleast_2d(np.array(c.slack, dtype=float))))    # picos: slack >= 0 iff the constraint holds
    return out


def _point_json(pt):
    j = {}
    for key, v in pt.items():
        if v is None:
            continue
        if key == "a":
            j[key] = [frac_json(x) for x in v]
        elif isinstance(v, list):
            if any(x is None for x in v):
                continue
            j[key] = [x.json() for x in v]
        else:
            j[key] = v.json()
    return j


def _near_optimal_points(form, rhos, probs, d, k):
    """untrusted: the reference solver's optimal POVM / dual operator, rounded and repaired to exact feasible points (as in certify_excl);
    at these points the constraints are (nearly) tight, so a wrong weight, conjugate or transpose inside a constraint shows"""
    try:
        Ms_ref, Y_ref = _solve_ref([r.to_float() for r in rhos], probs)
    except Exception:
        return []
    I = DM.eye(d)
    if form == "me_primal":
        M = repair_povm(Ms_ref, eps_bits=26)
        return [({"M": M, "LM": [chol_factor(m.to_float(), delta=2.0 ** -31) for m in M]}, [])]
    Y = DM.from_float((Y_ref + Y_ref.conj().T) / 2, 40).herm_part() - I.scale_dy(1, 24)
    LY = []
    for i in range(k):
        pi = DM.exact_float(np.array([[probs[i]]]))
        LY.append(chol_factor((rhos[i].scale_dy(int(pi.re[0, 0]), pi.e) - Y).to_float()))
    return [({"Y": Y, "LY": LY}, [("Y-optimal-plus-1/32", {"Y": Y + I.scale_dy(1, 5)})])]


def _violation_of(capt):
    """largest violation of the captured constraints at the current point: -min eigenvalue of a PSD slack, modulus of an equality residual
    (real part for the scalar constraints `(m | rho).real == 0`)"""
    vio = 0.0
    for kc, a in capt:
        if not a.size:
            continue
        if kc == "psd":
            vio = max(vio, -float(np.min(np.linalg.eigvalsh((a + a.conj().T) / 2))), float(np.max(np.abs(a - a.conj().T))))
        elif kc == "eq":
            vio = max(vio, float(np.max(np.abs(np.real(a) if a.shape == (1, 1) else a))))
        else:
            vio = max(vio, -float(np.min(np.real(a))))
    return vio


def work_embed(task, res: Result):
    from toqito.state_opt import state_exclusion
    warnings.filterwarnings("ignore")
    inst, seed = task
    rng = np.random.default_rng(seed)
    drv = worker_driver()
    states, probs, d, k = inst["states"], inst["probs"], inst["d"], inst["k"]
    rhos = _dms_exact_raw(states)
    herm_in = all(r.is_herm() for r in rhos)
    base = _base(inst)
    pj = [frac_json(Fraction(float(p))) for p in probs] if inst["probs_given"] else None
    sargs = _state_args(states)
    thm = "checkExclPrimal_sound / checkExclDual_sound / checkUnambExclPrimal_sound / checkUnambExclDual_sound (the programs they speak about)"
    vec_in = all(np.asarray(s_).ndim == 1 or 1 in np.asarray(s_).shape for s_ in states)
    ua_pts = None
    for form, (strategy, pd, direction) in _EMBED_FORMS.items():
        desc0 = dict(base, fn="embedding", form=form, probs_given=inst["probs_given"], seed=int(seed))
        prng = call_rng(inst.get("pres"), "embed", form)
        vecs = present_list(prng, states, force_real=inst.get("real_idx", ()))
        got = _capture(lambda: state_exclusion(vecs, (list(probs) if inst["probs_given"] else None), strategy=strategy, primal_dual=pd))
        if len(got) != 1:
            raise CorrespondenceBroken(f"state_exclusion({strategy},{pd}): expected one picos problem handed to solve(), captured {len(got)}")
        P, kw = got[0]
        res.count("embedding/problems-captured")
        cons, same_layout = _captured_layout(P, form, d, k)
        res.count("embedding/constraints-captured", len(cons))
        if not same_layout:
            res.count("embedding/other-constraint-layout")
        if P.objective.direction != direction:
            res.violation(f"state_exclusion({strategy},{pd}) hands a '{P.objective.direction}' problem to the solver, the modelled program is a '{direction}' problem",
                          {"function": "state_exclusion", "args": desc0, "impl": P.objective.direction, "model": direction, "check": "embedding-direction", "theorem": "excl_weak_duality / unamb_excl_weak_duality"})
            continue
        points = [("interior",) + _embed_points(rng, form, rhos, probs, states, d, k)]
        if form in ("me_primal", "me_dual") and herm_in:
            points += [("near-optimal",) + x for x in _near_optimal_points(form, rhos, probs, d, k)]
        elif vec_in and all(p > 0 for p in probs):
            if ua_pts is None:
                try:
                    ua_pts = _unamb_points(states, rhos, probs, *_solve_unamb_ref([r.to_float() for r in rhos], probs, vecs=states))
                except Exception:
                    ua_pts = ()
            if ua_pts:
                pt_ = ua_pts[0] if form == "ua_primal" else ua_pts[1]
                if form == "ua_primal":
                    bad_ = []
                else:
                    bad_ = [("N-optimal-minus-1/32", {"N": pt_["N"] - DM.eye(d).scale_dy(1, 5)})]
                points.append(("near-optimal", pt_, bad_))
        for pname, pt, bad in points:
            desc = dict(desc0, point=pname)
            m = drv.ask("excl_program", dict({"d": d, "states": sargs, "p": pj, "form": form}, **_point_json(pt)))
            if "reject" in m:
                raise RuntimeError(f"excl_program rejected the request: {m}")
            feasible = "ok" in m["check"]
            if not feasible:
                # a PSD witness could not be computed (degenerate optimum) or the raw input is not exactly Hermitian: counted, no feasibility verdict
                res.count(f"embedding/{pname}-point-not-certified" + ("" if herm_in else "/non-hermitian-input"))
            why = _assign(P, form, pt, k)
            ptj = _point_json({kk: vv for kk, vv in pt.items() if not kk.startswith("L")})
            if why is not None:
                res.case(desc, True, f"embedding/{form}/variable-refuses-point")
                res.violation(f"state_exclusion({strategy},{pd}): a point of the modelled program cannot be written into the variables of the program the code builds ({why})",
                              {"function": "state_exclusion", "args": desc, "impl": why, "model": "feasible" if feasible else "uncertified", "check": "embedding-variable", "cplx": inst["cplx"],
                               "point": ptj, "theorem": thm})
                break
            capt = _captured_residuals(cons)
            model = [("psd", _qmat(x, (d, d))) for x in m["psd"]] + [("eq", _qmat(x, (d, d))) for x in m["eq"]] + [("eq", np.array([[float(Fraction(*x))]]).astype(complex)) for x in m["zero"]]
            worst = None
            if same_layout and len(model) == len(capt) and all(a.shape == b_.shape for (_, a), (_, b_) in zip(capt, model)):
                worst = 0.0
                for (kc, a), (km, b_) in zip(capt, model):
                    if kc == "eq" and b_.shape == (1, 1):
                        a = np.real(a) + 0j     # `(m | rho).real == 0`
                    worst = max(worst, float(np.max(np.abs(a - b_))) if a.size else 0.0)
            obj_c = complex(P.objective.function.value)
            obj_m = float(Fraction(*m["objective"]))
            scale = max(1.0, float(max(np.max(np.abs(b_)) for _, b_ in model)))
            res.case(desc, feasible, f"embedding/{form}/{pname}/{inst['form']}/{'c' if inst['cplx'] else 'r'}/{'feasible' if feasible else 'uncertified'}")
            # evidence only: are the constraints written exactly as in the model (same slack operators), or in an equivalent other form?
            res.count("embedding/slacks-identical" if (worst is not None and worst <= EMB_TOL * scale) else "embedding/slacks-differ")
            if abs(obj_c - obj_m) > EMB_TOL * scale:
                res.violation(f"state_exclusion({strategy},{pd}): the objective of the program the code builds is {obj_c!r} at an exact point, the modelled objective is {obj_m!r}",
                              {"function": "state_exclusion", "args": desc, "impl": [obj_c.real, obj_c.imag], "model": obj_m, "check": "embedding-objective", "cplx": inst["cplx"], "point": ptj, "theorem": thm})
                break
            if feasible:
                vio = _violation_of(capt)
                if vio > 1e-9:
                    res.violation(f"state_exclusion({strategy},{pd}): a point certified feasible for the modelled program ({pname}) violates a constraint of the program the code builds by {vio:.3e}",
                                  {"function": "state_exclusion", "args": desc, "impl": vio, "model": "feasible", "check": "embedding-feasible", "cplx": inst["cplx"], "point": ptj, "theorem": thm})
                    break
                res.count("embedding/feasible-points-embedded")
            # negative controls: the model rejects, and some captured constraint is violated
            for label, mod in bad:
                pt2 = dict(pt, **mod)
                m2 = drv.ask("excl_program", dict({"d": d, "states": sargs, "p": pj, "form": form}, **_point_json(pt2)))
                if "ok" in m2.get("check", {}):
                    raise RuntimeError(f"negative control {label}: the verified checker accepted an infeasible point")
                if pname == "near-optimal":
                    # the control must be infeasible for the MODEL by a margin (smallest eigenvalue of a model slack below -1e-2), else it proves nothing
                    if min(float(np.min(np.linalg.eigvalsh(_qmat(x, (d, d))))) for x in m2["psd"]) > -1e-2:
                        continue
                if _assign(P, form, pt2, k) is not None:
                    continue
                vio = _violation_of(_captured_residuals(cons))
                res.count("embedding/negative-controls")
                if vio < EMB_BAD:
                    res.violation(f"state_exclusion({strategy},{pd}): the infeasible point '{label}' (rejected by the model) satisfies every constraint of the program the code builds (largest violation {vio:.3e}): "
                                  "a constraint is missing or weakened",
                                  {"function": "state_exclusion", "args": dict(desc, control=label), "impl": vio, "model": "infeasible", "check": "embedding-negative-control", "cplx": inst["cplx"],
                                   "point": _point_json({kk: vv for kk, vv in pt2.items() if not kk.startswith("L")}), "theorem": thm})


# ------------------------------------------------------------------------------------------------
# stream `post`: what is_antidistinguishable / common_quantum_overlap do around the solve (state_exclusion replaced by a recorder)


def work_post(task, res: Result):
    import importlib
    states, vals = task
    drv = worker_driver()
    n = len(states)
    for fn_name in ("is_antidistinguishable", "common_quantum_overlap"):
        mod = importlib.import_module(f"toqito.state_props.{fn_name}")
        if not hasattr(mod, "state_exclusion"):
            raise CorrespondenceBroken(f"{fn_name}: the module no longer refers to state_exclusion by a module-level name")
        fn = getattr(mod, fn_name)
        for v in vals:
            calls = []

            def stub(*a, **kw):
                calls.append((a, kw))
                return float(v), None

            orig = mod.state_exclusion
            mod.state_exclusion = stub
            try:
                out = fn(list(states))
            finally:
                mod.state_exclusion = orig
            desc = {"fn": "post", "function": fn_name, "n": n, "v": float(v)}
            m = drv.ask("excl_post", {"n": n, "v": frac_json(Fraction(float(v)))})
            near = abs(abs(v) - 1e-8) <= 1e-8 * 2.0 ** -30   # the float and the rational threshold differ by 1 ulp: not generated, guard only
            res.case(desc, not near, f"post/{fn_name}")
            if len(calls) != 1:
                raise CorrespondenceBroken(f"{fn_name} calls state_exclusion {len(calls)} times, the model: once")
            a, kw = calls[0]
            names = ("vectors", "probs", "strategy", "solver", "primal_dual")
            got = dict(zip(names, a), **kw)
            ones = [float(Fraction(*x)) for x in m["ones"]]
            pr = got.get("probs")
            ok_args = (pr is not None and [float(x) for x in pr] == ones and got.get("strategy", "min_error") == "min_error" and got.get("primal_dual", "dual") == "dual"
                       and len(got.get("vectors", ())) == n and all(np.array_equal(np.asarray(x), np.asarray(y)) for x, y in zip(got["vectors"], states)))
            if not ok_args:
                # the value checks of work_anti decide whether this changes the answer; here: the model of the call no longer mirrors the code
                raise CorrespondenceBroken(f"{fn_name} calls state_exclusion with probs={pr!r}, strategy={got.get('strategy')!r}, primal_dual={got.get('primal_dual')!r}; "
                                           "the model: all-ones weights, min_error, dual, the caller's states")
            if fn_name == "is_antidistinguishable":
                if near or bool(out) == bool(m["anti"]):
                    continue
                if abs(v) <= 1e-9 or v >= POS_LO:
                    # contradicts the property itself: a value that is zero to solver accuracy must be reported antidistinguishable, a value >= 1e-3 must not
                    res.violation(f"is_antidistinguishable answers {bool(out)} for the exclusion value {float(v)!r} (all-ones weights)",
                                  {"function": fn_name, "args": desc, "impl": bool(out), "model": bool(m["anti"]), "check": "post-value", "theorem": "antidist_test_iff / antidist_test_decides"})
                else:
                    raise CorrespondenceBroken(f"is_antidistinguishable answers {bool(out)} for the solver value {float(v)!r}; the model np.isclose(v, 0) gives {bool(m['anti'])}")
            else:
                want = float(Fraction(*m["cqo"]))
                dev = abs(float(np.real(out)) - want)
                if dev > 1e-9:
                    res.violation(f"common_quantum_overlap returns {float(np.real(out))!r} when the exclusion value for all-ones weights is {float(v)!r} (n={n}); the two must agree (n(1-(1-v/n)) = v)",
                                  {"function": fn_name, "args": desc, "impl": float(np.real(out)), "model": want, "check": "post-value", "theorem": "cqo_post_eq"})
                elif dev > 4e-16 * n + 1e-15 * abs(want):
                    raise CorrespondenceBroken(f"common_quantum_overlap returns {float(np.real(out))!r} for the solver value {float(v)!r}, n={n}; the modelled arithmetic n(1-(1-v/n)) gives {want!r}")


# ------------------------------------------------------------------------------------------------
# stream `families`: trine() and pusey_barrett_rudolph(n, theta) against the Lean constructors on the exact images of sqrt(3), cos, sin


def work_family(task, res: Result):
    from toqito.states import pusey_barrett_rudolph, trine
    drv = worker_driver()
    kind, n, theta = task
    if kind == "trine":
        out = trine()
        m = drv.ask("excl_family", {"name": "trine", "h": [1, 2], "r": frac_json(Fraction(float(np.sqrt(3))))})
        desc = {"fn": "family", "name": "trine"}
        tol = 0.0
    else:
        out = pusey_barrett_rudolph(n, theta)
        m = drv.ask("excl_family", {"name": "pbr", "n": n, "c": frac_json(Fraction(float(np.cos(theta / 2)))), "s": frac_json(Fraction(float(np.sin(theta / 2))))})
        desc = {"fn": "family", "name": "pbr", "n": n, "theta": float(theta)}
        tol = 2.0 ** -51 * n
    res.case(desc, True, f"family/{kind}" + (f"/n={n}" if kind != "trine" else ""))
    model = [[Fraction(*x) for x in v] for v in m["states"]]
    impl = [np.asarray(v) for v in out]
    ok = len(impl) == len(model) and all(a.size == len(b) and (a.ndim == 1 or a.shape == (len(b), 1)) for a, b in zip(impl, model))
    if ok:
        for a, b in zip(impl, model):
            for x, y in zip(a.reshape(-1), b):
                if np.iscomplexobj(x) and np.imag(x) != 0 or abs(Fraction(float(np.real(x))) - y) > tol:
                    ok = False
    if not ok:
        # the certified-interval checks on the family instances decide whether the values are still right; here: the theorems about the named
        # families (trine_antidistinguishable, pbr2_antidistinguishable, pbr1_antidist_iff) speak about other vectors than the code returns
        raise CorrespondenceBroken(f"{desc['name']}({'' if kind == 'trine' else f'{n}, {theta!r}'}) = {[np.asarray(v).reshape(-1).tolist() for v in out]} differs from the Lean constructor "
                                   f"{[[float(y) for y in v] for v in model]} (order of the states, of the tensor factors, or a sign)")


def _outcome(fn, *a, **kw):
    try:
        return "ok", fn(*a, **kw)
    except Exception as e:  # noqa: BLE001
        return "raise", f"{type(e).__name__}: {str(e)[:200]}"


def _eq_value(a, b, tol):
    """arrays / lists of arrays / scalars / booleans: equal exactly, or (tol > 0) within tol"""
    if isinstance(a, (list, tuple)) or isinstance(b, (list, tuple)):
        return isinstance(a, (list, tuple)) and isinstance(b, (list, tuple)) and len(a) == len(b) and all(_eq_value(x, y, tol) for x, y in zip(a, b))
    a, b = np.asarray(a), np.asarray(b)
    if a.shape != b.shape or (a.dtype.kind == "b") != (b.dtype.kind == "b"):
        return False
    if a.dtype.kind == "b":
        return bool(np.array_equal(a, b))
    if np.array_equal(a, b):
        return True
    return bool(tol > 0 and a.size and np.all(np.isfinite(a)) and np.all(np.isfinite(b)) and np.max(np.abs(a - b)) <= tol)


def _strict_same(res, name, make, desc, tol=0.0):
    """make() -> (fn, args, kwargs) on fresh copies; default state vs strict_fp_call"""
    fn, a, kw = make()
    st0, v0 = _outcome(_limited, fn, *a, **kw)
    fn, a, kw = make()
    st1, v1 = strict_fp_call(_limited, fn, *a, **kw)
    if st1 == "raise" and v1.startswith(("CallTimeout", "TaskTimeout")):
        res.count("strict-fp/call-timeout")
        return
    res.count(f"strict-fp/{name}")
    info = {"function": name, "args": desc, "stream": "strict-fp"}
    if st0 == "ok" and st1 != "ok":
        res.violation(f"{name}: value depends on NumPy's floating-point error state: returns {str(v0)[:60]!r} in the default state, raises {v1} under np.seterr(invalid/divide/over='raise')",
                      dict(info, impl_default_state=repr(v0)[:300], impl_strict_state=v1))
    elif st0 != st1:
        res.violation(f"{name}: outcome depends on NumPy's floating-point error state: {v0} in the default state, returns under np.seterr(invalid/divide/over='raise')",
                      dict(info, impl_default_state=v0, impl_strict_state=repr(v1)[:300]))
    elif st0 == "ok" and not _eq_value(v0, v1, tol):
        res.violation(f"{name}: value depends on NumPy's floating-point error state: {str(v0)[:60]!r} in the default state, {str(v1)[:60]!r} under np.seterr(invalid/divide/over='raise')",
                      dict(info, impl_default_state=repr(v0)[:300], impl_strict_state=repr(v1)[:300]))
    elif st0 == "raise" and v0.split(":")[0] != v1.split(":")[0]:
        res.violation(f"{name}: exception depends on NumPy's floating-point error state: {v0} in the default state, {v1} under np.seterr(invalid/divide/over='raise')",
                      dict(info, impl_default_state=v0, impl_strict_state=v1))


def work_strict(task, res: Result):
    """strict-fp and same-object streams (see RULE).  task = (kind, payload)"""
    from toqito.matrix_ops import to_density_matrix
    from toqito.state_opt import state_exclusion
    from toqito.state_props import common_quantum_overlap, is_antidistinguishable
    from toqito.states import pusey_barrett_rudolph, trine
    warnings.filterwarnings("ignore")
    try:
        _work_strict(task, res, to_density_matrix, state_exclusion, common_quantum_overlap, is_antidistinguishable, pusey_barrett_rudolph, trine)
    except CallTimeout:
        res.count("strict-fp/call-timeout")


def _work_strict(task, res, to_density_matrix, state_exclusion, common_quantum_overlap, is_antidistinguishable, pusey_barrett_rudolph, trine):
    kind, payload = task
    if kind == "to_dm":
        states = [np.asarray(s) for s in payload]
        desc = {"fn": "strict", "kind": kind, "states": states}
        res.case(desc, True, "strict-fp/to_density_matrix")
        for s in states:
            forms = [s]
            if s.ndim == 1 or (s.ndim == 2 and 1 in s.shape):
                v = s.reshape(-1)
                forms = [v, v.reshape(-1, 1), v.reshape(1, -1)]
            for f in forms:
                _strict_same(res, "to_density_matrix", lambda f=f: (to_density_matrix, (f.copy(),), {}), dict(desc, shape=list(f.shape)))
    elif kind == "family":
        name, n, theta = payload
        desc = {"fn": "strict", "kind": kind, "name": name, "n": n, "theta": float(theta)}
        res.case(desc, True, f"strict-fp/{name}")
        if name == "trine":
            _strict_same(res, "trine", lambda: (trine, (), {}), desc)
        else:
            _strict_same(res, "pusey_barrett_rudolph", lambda: (pusey_barrett_rudolph, (n, theta), {}), desc)
    elif kind == "anti":
        states = [np.asarray(s) for s in payload]
        desc = {"fn": "strict", "kind": kind, "states": states}
        res.case(desc, True, "strict-fp/anti")
        _strict_same(res, "is_antidistinguishable", lambda: (is_antidistinguishable, ([s.copy() for s in states],), {}), desc)
        _strict_same(res, "common_quantum_overlap", lambda: (common_quantum_overlap, ([s.copy() for s in states],), {}), desc, tol=TAU["cvxopt"])
    elif kind == "same-object":
        states, i, j, fname = payload
        states = [np.asarray(s) for s in states]
        desc = {"fn": "strict", "kind": kind, "states": states, "i": i, "j": j, "function": fname}
        res.case(desc, True, f"same-object/{fname}")
        shared = [s.copy() for s in states]
        shared[j] = shared[i]                      # ONE object in slots i and j
        copies = [s.copy() for s in states]
        copies[j] = copies[i].copy()               # equal values, distinct objects
        call = {"state_exclusion/primal": lambda L: float(np.real(state_exclusion(L, primal_dual="primal")[0])),
                "state_exclusion/dual": lambda L: float(np.real(state_exclusion(L, primal_dual="dual")[0])),
                "is_antidistinguishable": lambda L: bool(is_antidistinguishable(L)),
                "common_quantum_overlap": lambda L: float(np.real(common_quantum_overlap(L)))}[fname]
        o_s = _outcome(_limited, call, shared)
        o_c = _outcome(_limited, call, copies)
        same = o_s[0] == o_c[0] and (_eq_value(o_s[1], o_c[1], 1e-7) if o_s[0] == "ok" else o_s[1].split(":")[0] == o_c[1].split(":")[0])
        if not same:
            res.violation(f"{fname.split('/')[0]}: a list holding the same array object in slots {i} and {j} gives {str(o_s[1])[:80]!r}, the same list with an equal copy in slot {j} gives {str(o_c[1])[:80]!r}",
                          {"function": fname.split("/")[0], "args": desc, "stream": "same-object", "impl_same_object": repr(o_s[1])[:300], "impl_copies": repr(o_c[1])[:300]})
    else:
        raise ValueError(kind)


def strict_tasks(srng, quick):
    from toqito.states import trine
    e0, e1 = np.array([1.0, 0.0]), np.array([0.0, 1.0])
    plus, minus = (e0 + e1) / np.sqrt(2), (e0 - e1) / np.sqrt(2)
    tri = [np.asarray(v) for v in trine()]
    mixed = np.diag([0.5, 0.5, 0.0])
    tasks = [("to_dm", [e0, np.zeros(3), np.array([1, 0, 0]), plus, np.array([1j, 0, 1]) / np.sqrt(2), np.outer(plus, plus), mixed, np.eye(2, dtype=complex) / 2, np.array([[1]]), np.array([3.0])])]
    tasks += [("family", ("trine", 0, 0.0))]
    for n in (1, 2, 3):
        for th in (0.0, 2 * np.arctan(2 ** (1 / n) - 1), np.pi / 2, np.pi, 2 * np.pi):
            tasks.append(("family", ("pbr", n, float(th))))
    for st in (tri, [e0, e1, plus, minus], [e0, e0.copy()], [e0, e1], [plus.reshape(-1, 1), plus.reshape(-1, 1), e1.reshape(-1, 1)], [np.outer(e0, e0), np.outer(plus, plus), np.eye(2) / 2]):
        tasks.append(("anti", st))
    for st, fname in ((tri, "state_exclusion/dual"), ([e0, e1, plus], "state_exclusion/primal"), ([e0, e1, plus], "is_antidistinguishable"), ([np.outer(e0, e0), np.eye(2) / 2, np.outer(plus, plus)], "common_quantum_overlap")):
        tasks.append(("same-object", (st, 0, 2 if fname.endswith("dual") else 1, fname)))
    fnames = ["state_exclusion/primal", "state_exclusion/dual", "is_antidistinguishable", "common_quantum_overlap"]
    for t in range(4 if quick else 24):
        inst = gen_instance(srng)
        tasks.append(("to_dm", inst["states"]))
        tasks.append(("family", ("pbr", int(srng.integers(1, 4)), float(srng.uniform(0.0, np.pi)))))
        if t % 2 == 0:
            tasks.append(("anti", inst["states"]))
        i, j = (int(x) for x in srng.choice(inst["k"], size=2, replace=False))
        tasks.append(("same-object", (inst["states"], i, j, fnames[t % 4])))
    return tasks


# ------------------------------------------------------------------------------------------------


def _sdp_solvers():
    """every solver picos has available that can solve a (tiny) complex SDP; 'cvxopt' first"""
    import picos
    out = []
    for s in picos.available_solvers():
        try:
            P = picos.Problem()
            X = picos.HermitianVariable("X", (2, 2))
            P.add_constraint(X >> 0)
            P.add_constraint(picos.trace(X) == 1)
            P.set_objective("min", (X | np.array([[1.0, 0.5j], [-0.5j, 0.0]])).real)
            P.solve(solver=s)
            out.append(s)
        except Exception:
            continue
    return sorted(out, key=lambda s: s != "cvxopt")


def run(ctx, model_ok=True):
    global _tier
    rng = ctx.rng
    quick = ctx.tier == "quick"
    _tier = ctx.tier  # inherited by the forked workers
    # import the heavy modules once in the parent: forked workers inherit them, so no C-extension initialisation can be
    # interrupted by a task timeout on a loaded machine
    import cvxopt  # noqa: F401
    import cvxpy  # noqa: F401
    import picos  # noqa: F401
    import toqito.state_opt  # noqa: F401
    import toqito.state_props  # noqa: F401
    import toqito.states  # noqa: F401
    warnings.filterwarnings("ignore")
    solvers = ["cvxopt"] if quick else (_sdp_solvers() or ["cvxopt"])
    ctx.extra["solvers"] = solvers
    calls = []
    for s in solvers:
        calls += [("min_error", "primal", s), ("min_error", "dual", s), ("unambiguous", "primal", s), ("unambiguous", "dual", s)]
    fam = family_instances(rng, 1 if quick else 6)
    n_inst = 100 if quick else 1200
    insts = [gen_instance(rng) for _ in range(n_inst)]
    prs = rng.spawn(1)[0]   # presentation stream: a child of the seeded generator (spawning does not consume the parent's draws)
    for inst in fam + insts:
        vary_ensemble(prs, inst)   # families have kind "family": presentation seed only, values untouched
    # the unambiguous pair (slow and often numerically failing in CVXOPT) runs on every second random instance in the quick tier
    tasks = [(inst, [c for c in calls if c[0] == "min_error"]) for inst in fam] + [(inst, calls if (not quick or i % 2 == 0) else [c for c in calls if c[0] == "min_error"]) for i, inst in enumerate(insts)]
    run_pool(ctx, work, tasks)
    anti_tasks = fam + insts[: (40 if quick else 400)]
    run_pool(ctx, work_anti, anti_tasks)
    inv = []
    for i in range(24 if quick else 160):
        inst = vary_ensemble(prs, gen_instance(rng))
        U = qgen.cayley_unitary(rng, inst["d"], inst["cplx"])
        if not inst["cplx"]:
            U = np.real(U)
        inv.append((inst, U, [int(x) for x in rng.permutation(inst["k"])]))
    run_pool(ctx, work_invariance, inv)
    # ---- history independence: values before and after a call that hands solver options over
    hist = []
    for i, (st, pd) in enumerate([("min_error", "primal"), ("min_error", "dual"), ("unambiguous", "primal"), ("unambiguous", "dual")] * (5 if quick else 16)):
        cand = [x for x in insts if x["form"] in ("vec1d", "col") and min(x["probs"]) > 0] if st == "unambiguous" else insts
        if len(cand) >= 2:
            hist.append((cand[(2 * i) % len(cand)], cand[(2 * i + 1) % len(cand)], st, pd))
    run_pool(ctx, work_history, hist)
    # ---- the programs the code builds against the modelled programs (no solve), the arithmetic around the solve, the named constructors
    emb = (insts[:40] + fam[::3]) if quick else (insts[:400] + fam)
    run_pool(ctx, work_embed, [(inst, int(rng.integers(2 ** 31))) for inst in emb])
    post_vals = [0.0, 1e-9, -1e-9, 9.9e-9, 1.01e-8, -1.01e-8, -9.9e-9, 1e-7, 2e-3, 0.25, 1.0, -3e-12] + [float(x) for x in rng.random(4 if quick else 40) * rng.choice([1e-8, 1e-2, 1.0, 4.0], size=(4 if quick else 40))]
    run_pool(ctx, work_post, [([np.eye(n_)[:, i % n_] for i in range(m_)], post_vals) for (n_, m_) in ((2, 2), (2, 3), (3, 4), (4, 5))])
    fam_tasks = [("trine", 0, 0.0)] + [("pbr", n_, float(th)) for n_ in (1, 2, 3) for th in [2 * np.arctan(2 ** (1 / n_) - 1), np.pi / 2] + [float(x) for x in rng.uniform(0.05, 1.5, size=(2 if quick else 12))]]
    run_pool(ctx, work_family, fam_tasks)
    # ---- strict-fp / same-object streams: seeded from a child generator, so the streams above do not shift
    run_pool(ctx, work_strict, strict_tasks(rng.spawn(1)[0], quick))
    ctx.extra["embedding"] = {"tolerance_objective": EMB_TOL, "tolerance_feasible": 1e-9, "negative_control_margin": EMB_BAD}
    ctx.extra["tolerances"] = dict(TAU, other=TAU_OTHER, povm=1e-4, zero_hi=ZERO_HI, pos_lo=POS_LO)
    ctx.extra["certified_interval_width_bound"] = WIDTH_OK


def replay(ctx, rec):
    a = rec["args"]

    def arr(s):
        def el(e):
            return complex(e["re"], e["im"]) if isinstance(e, dict) else e
        return np.array([[el(e) for e in row] if isinstance(row, list) else el(row) for row in s])

    if a.get("fn") in ("post", "family", "strict"):
        inst = None
    else:
        inst = {"d": a["d"], "k": a["k"], "cplx": a["cplx"], "form": a["form"], "kind": a.get("kind", "random"), "probs": a["probs"],
                "probs_given": a.get("probs_given", True), "family": a.get("family"), "anti": None, "states": [arr(s) for s in a["states"]],
                "pres": a.get("pres"), "real_idx": a.get("real_idx") or []}
    res = Result()
    fn = rec.get("function")
    if a.get("fn") == "strict":
        k_ = a["kind"]
        sts = [arr(x) for x in a["states"]] if "states" in a else None
        work_strict((k_, sts if k_ in ("to_dm", "anti") else (a["name"], a["n"], a["theta"]) if k_ == "family" else (sts, a["i"], a["j"], a["function"])), res)
    elif a.get("fn") == "post":
        work_post(([np.eye(a["n"])[:, i % a["n"]] for i in range(a["n"])], [a["v"]]), res)
    elif a.get("fn") == "family":
        work_family((("trine", 0, 0.0) if a["name"] == "trine" else ("pbr", a["n"], a["theta"])), res)
    elif a.get("fn") == "embedding":
        work_embed((inst, a["seed"]), res)
    elif fn in ("is_antidistinguishable", "common_quantum_overlap") or a.get("fn") in ("is_antidistinguishable", "common_quantum_overlap"):
        work_anti(inst, res)
    elif a.get("fn") == "invariance":
        work_invariance((inst, arr(a["U"]), a["perm"]), res)
    else:
        solver = a.get("solver", "cvxopt")
        if a.get("strategy") == "unambiguous":  # the verdict compares the two forms
            calls = [("unambiguous", "primal", solver), ("unambiguous", "dual", solver)]
        else:
            calls = [(a.get("strategy", "min_error"), a.get("primal_dual", "dual"), solver)]
        work((inst, calls), res)
    from ..pool import fold
    fold(ctx, res)
