"""C11: state_exclusion (min-error primal/dual; unambiguous primal vs dual), is_antidistinguishable and
common_quantum_overlap against certified intervals.

For each instance the exact dyadic images of the float inputs handed to toqito define the instance; an exact
feasible POVM (UPPER bound hi of the minimum) and an exact dual-feasible operator (LOWER bound lo) are built by
untrusted means and accepted only by the verified Lean checker (theorems checkExclPrimal_sound / checkExclDual_sound
in lean/Toq/Properties/C11.lean; lo = max(lo, 0) by excl_nonneg when the exact states are v v^H).  The value returned
by toqito must lie in [lo - tau, hi + tau]; the returned operators must form a POVM attaining the reported value."""
from __future__ import annotations

import itertools
import warnings

import numpy as np

from ..cert import DM, chol_factor, frac_json, repair_povm
from ..exact import Pure, call_rng, describe, present_list, vary_ensemble
from ..pool import Result, TaskTimeout, run_pool, worker_driver
from .. import qgen

RULE = ("ensembles (2..5 states, dimension 2..4, real/complex integer amplitudes normalised in floating point, vectors as 1-D / column arrays or "
        "density matrices (pure or mixed), dyadic priors or None) from the seeded generator, kinds random / clustered ('near') / orthogonal / dependent / "
        "mixed, plus the named families trine, BB84 subsets, Bell, PBR(n=1,2) at, above and below the threshold angle (optionally rotated by an exact "
        "rational unitary) x strategy x primal/dual form x solver; per instance the Lean checker certifies [lo, hi] for the exact image of the inputs; "
        "non-trivial = certified interval of width <= 1e-4 with 1e-2 <= lo and hi <= min prior - 1e-2, or a member of a named family whose certified "
        "interval confirms its known antidistinguishability status (hi <= 1e-7 resp. lo > 1e-3); distinct = hash of the instance and call form; "
        "presentation: every call receives the same values in a freshly drawn presentation per list element (C / Fortran / strided memory layout; real-valued "
        "states as float64, integer-valued ones as int64), one in three complex ensembles of the kinds random / near / mixed has some states made real-valued "
        "(real-dtype first element followed by complex ones, or the reverse; also computational basis vectors); the caller's list, arrays and priors must be "
        "untouched by every call and a repeated call on the same objects (one in four min-error calls) must return the same value")
ASSUMPTIONS = [
    "toqito computes with the float inputs it is given; the instance certified is their exact dyadic image (difference <= 1e-15 relative); a state vector v denotes the exact operator v v^H",
    "tolerance 2e-5 on CVXOPT-solved values (declared in DESIGN.md 4.4), 1e-3 for other solvers; 1e-4 on the POVM residuals of returned operators",
    "unambiguous exclusion: only agreement of toqito's primal and dual values within 1e-4 on instances where both solves return (no certificate); weak duality of that pair is proved (unamb_excl_weak_duality); "
    "when CVXOPT breaks down numerically at its default tolerance the call is repeated once with abs/rel_ipm_opt_tol=1e-6 (the remedy named in the function's docstring)",
    "the PBR threshold tan(theta/2) >= 2^(1/n) - 1 and the antidistinguishability of trine/BB84/Bell sets are cited facts; each is re-confirmed per instance by the certified interval",
    "is_antidistinguishable is only judged when the certified interval for all-ones weights is decisive (hi <= 1e-7 or lo > 1e-3)",
]
TAU = {"cvxopt": 2e-5}
TAU_OTHER = 1e-3
WIDTH_OK = 1e-4  # certified intervals wider than this are counted as uncertified (never a violation by themselves)
ZERO_HI = 1e-7  # certified upper bound that confirms "value 0" for antidistinguishable sets
POS_LO = 1e-3  # certified lower bound that confirms "not antidistinguishable"
RELAXED = {"abs_ipm_opt_tol": 1e-6, "rel_ipm_opt_tol": 1e-6}  # second configuration for the unambiguous programs when CVXOPT breaks down at its default 1e-8


# ------------------------------------------------------------------------------------------------
# instance generation (in the parent, so every random choice derives from the one seeded generator)


def _shape_states(vecs, form, cplx):
    if form == "dm":
        states = [np.outer(v, v.conj()) for v in vecs]
    elif form == "col":
        states = [np.asarray(v).reshape(-1, 1) for v in vecs]
    else:
        states = [np.asarray(v).reshape(-1) for v in vecs]
    if not cplx:
        states = [np.real(s) for s in states]
    return states


def gen_instance(rng):
    d = int(rng.choice([2, 2, 3, 3, 4]))
    k = int(rng.choice([2, 2, 3, 3, 4, 5]))
    cplx = bool(rng.integers(2))
    form = str(rng.choice(["vec1d", "col", "dm", "dm_mixed", "dm_mixed"]))
    kind = str(rng.choice(["random", "near", "near", "near", "orthogonal", "dependent"]))
    if form == "dm_mixed":
        kind = "mixed"
        # full or high rank: exclusion of mixed states with overlapping supports has a value well inside (0, min prior)
        states = [qgen.rand_density(rng, d, int(rng.integers(max(1, d - 1), d + 1)), cplx) for _ in range(k)]
        if not cplx:
            states = [np.real(s) for s in states]
    else:
        if kind == "orthogonal" and k <= d:
            U = qgen.cayley_unitary(rng, d, cplx)
            vecs = [U[:, i] for i in range(k)]
        elif kind == "dependent" and k >= 3:
            base = [qgen.unit(qgen.int_vector(rng, d, cplx)) for _ in range(k - 1)]
            c = rng.integers(1, 4, size=k - 1)
            vecs = base + [qgen.unit(sum(ci * b for ci, b in zip(c, base)))]
        elif kind == "near":
            v0 = qgen.int_vector(rng, d, cplx, lim=4)
            vecs = [qgen.unit(v0)]
            while len(vecs) < k:
                e = np.zeros(d, dtype=complex)
                e[int(rng.integers(d))] = (1j if (cplx and rng.integers(2)) else 1) * int(rng.choice([-1, 1]))
                if np.any(v0 + e != 0):
                    vecs.append(qgen.unit(v0 + e))
        else:
            kind = "random"
            vecs = [qgen.unit(qgen.int_vector(rng, d, cplx)) for _ in range(k)]
        states = _shape_states(vecs, form, cplx)
    probs = qgen.dyadic_probs(rng, k)
    if k >= 3 and rng.integers(6) == 0:
        # "any prior": a prior with an exact zero (that state may always be announced, so the optimum is 0)
        z = int(rng.integers(k))
        rest = qgen.dyadic_probs(rng, k - 1)
        probs = rest[:z] + [0.0] + rest[z:]
    uniform = len(set(probs)) == 1
    return {"d": d, "k": k, "cplx": cplx, "form": form, "kind": kind, "states": states, "probs": probs,
            "probs_given": (not uniform) or bool(rng.integers(3) > 0), "family": None, "anti": None}


def family_instances(rng, n_rot):
    """named families with known status; 'anti' = True/False by the cited facts (re-confirmed by the certificate)"""
    from toqito.states import bb84, bell, pusey_barrett_rudolph, trine
    fams = [("trine", trine(), True)]
    B = [x for pair in bb84() for x in pair]
    for r in (2, 3, 4):
        for sub in itertools.combinations(range(4), r):
            orth = any((a, b) in ((0, 1), (2, 3)) for a in sub for b in sub)
            fams.append((f"bb84{list(sub)}", [B[i] for i in sub], orth))
    fams.append(("bell", [bell(i) for i in range(4)], True))
    fams.append(("bell3", [bell(i) for i in range(3)], True))
    for n in (1, 2):
        thr = 2 * np.arctan(2 ** (1 / n) - 1)
        for th, anti in [(thr, True), (min(np.pi / 2, thr + 0.05), True), (min(np.pi / 2, thr + 0.3), True), (np.pi / 2, True),
                         (thr - 0.12, False), (thr - 0.3, False), (thr / 2, False)]:
            fams.append((f"pbr{n}@{th:.6f}", pusey_barrett_rudolph(n, float(th)), anti))
    out = []
    for name, st, anti in fams:
        d = int(np.asarray(st[0]).size)
        k = len(st)
        for r in range(n_rot + 1):
            cplx = r > 0 and bool(rng.integers(2))
            U = np.eye(d) if r == 0 else qgen.cayley_unitary(rng, d, cplx)
            if not cplx:
                U = np.real(U)
            form = ["col", "vec1d", "dm"][r % 3] if r else "col"
            vecs = [(U @ np.asarray(s).reshape(-1)) for s in st]
            states = _shape_states(vecs, form, cplx)
            out.append({"d": d, "k": k, "cplx": cplx, "form": form, "kind": "family", "states": states, "probs": [1.0 / k] * k,
                        "probs_given": bool(r % 2), "family": name + ("" if r == 0 else f"/rot{r}"), "anti": anti})
    return out


# ------------------------------------------------------------------------------------------------
# bounded calls of the implementation (CVXOPT occasionally needs minutes or does not terminate on degenerate programs)


class CallTimeout(BaseException):
    """raised by the CPU-time limit around one call of the implementation (BaseException: must not be swallowed by `except Exception`)"""


CALL_LIMIT_S = {"quick": 8.0, "thorough": 12.0}  # x (4 calls + 2 retries) stays below the pool's 90 s task limit
_tier = "quick"


def _limited(fn, *a, **kw):
    """run fn with a CPU-time limit (SIGVTALRM, independent of the pool's wall-clock SIGALRM); raises CallTimeout"""
    import signal

    def h(signum, frame):
        raise CallTimeout()

    old = signal.signal(signal.SIGVTALRM, h)
    signal.setitimer(signal.ITIMER_VIRTUAL, CALL_LIMIT_S.get(_tier, 8.0))
    try:
        return fn(*a, **kw)
    finally:
        signal.setitimer(signal.ITIMER_VIRTUAL, 0)
        signal.signal(signal.SIGVTALRM, old)


# ------------------------------------------------------------------------------------------------
# certification


def _dms_exact(states):
    """exact dyadic density operators = exact image of what to_density_matrix computes from the float input"""
    out = []
    for s in states:
        a = np.asarray(s)
        if a.ndim == 1 or 1 in a.shape:
            v = DM.exact_float(a.reshape(-1, 1))
            out.append((v @ v.H()))
        else:
            out.append(DM.exact_float(a).herm_part())
    return out


def _solve(prob):
    """untrusted reference solve: CLARABEL first (robust on degenerate instances), then CVXOPT, then SCS"""
    import cvxpy as cp
    last = None
    for kw in (dict(solver=cp.CLARABEL), dict(solver=cp.CVXOPT, abstol=1e-9, reltol=1e-9, feastol=1e-9), dict(solver=cp.CVXOPT), dict(solver=cp.SCS, eps=1e-9, max_iters=20000)):
        try:
            prob.solve(**kw)
            if prob.status in ("optimal", "optimal_inaccurate") and all(v.value is not None for v in prob.variables()):
                return
        except Exception as e:
            last = e
    raise RuntimeError(f"reference solve failed: {last}")


def _solve_ref(rhos_f, probs):
    """independent solve (cvxpy) for certificate candidates: returns (POVM list, Y) as float arrays"""
    import cvxpy as cp
    d = rhos_f[0].shape[0]
    k = len(rhos_f)
    Ms = [cp.Variable((d, d), hermitian=True) for _ in range(k)]
    cons = [M >> 0 for M in Ms] + [sum(Ms) == np.eye(d)]
    obj = cp.Minimize(cp.real(sum(probs[i] * cp.trace(rhos_f[i] @ Ms[i]) for i in range(k))))
    pr = cp.Problem(obj, cons)
    _solve(pr)
    Mv = [np.array(M.value) for M in Ms]
    Y = cp.Variable((d, d), hermitian=True)
    pd = cp.Problem(cp.Maximize(cp.real(cp.trace(Y))), [probs[i] * rhos_f[i] - Y >> 0 for i in range(k)])
    _solve(pd)
    return Mv, np.array(Y.value)


def _polish_zero(Ms_f, rhos_f):
    """untrusted: for (nearly) antidistinguishable sets push M_i onto the kernel of rho_i and re-normalise with S^-1/2, which
    keeps a POVM and makes tr(rho_i M_i) vanish to rounding; used only as an additional certificate candidate"""
    try:
        d = rhos_f[0].shape[0]
        out = []
        for M, r in zip(Ms_f, rhos_f):
            w, V = np.linalg.eigh((r + r.conj().T) / 2)
            K = V[:, w < 1e-9]
            P = K @ K.conj().T
            out.append(P @ M @ P)
        S = sum(out)
        w, V = np.linalg.eigh((S + S.conj().T) / 2)
        if w.min() < 1e-3:
            return None
        Si = V @ np.diag(w ** -0.5) @ V.conj().T
        return [Si @ M @ Si for M in out]
    except Exception:
        return None


def certify_excl(drv, rhos, probs, Ms_f, Y_f, psd_exact, eps_bits=26):
    """returns (lo, hi, why) as floats/None using the Lean checker"""
    d = rhos[0].re.shape[0]
    k = len(rhos)
    pj = [frac_json(DM.exact_float(np.array([[p]])).frac(0, 0)[0]) for p in probs]
    lo = hi = None
    why = []
    for cand, eb in [(c, e) for c in Ms_f for e in (eps_bits, 22)]:
        if cand is None or (eb == 22 and hi is not None):
            continue
        P = repair_povm(cand, eps_bits=eb)
        Ls = [chol_factor(M.to_float(), delta=2.0 ** -(eb + 5)) for M in P]
        if all(L is not None for L in Ls):
            r = drv.ask("excl_primal", {"d": d, "rho": [r_.json() for r_ in rhos], "p": pj, "M": [M.json() for M in P], "LM": [L.json() for L in Ls]})
            if "ok" in r:
                v = r["ok"][0] / r["ok"][1]
                hi = v if hi is None else min(hi, v)
            else:
                why.append("primal:" + r["reject"])
        else:
            why.append("primal:cholesky")
    if Y_f is not None:
        Y = DM.from_float((Y_f + Y_f.conj().T) / 2, 40).herm_part() - DM.eye(d).scale_dy(1, 24)
        Ls = []
        for i in range(k):
            pi = DM.exact_float(np.array([[probs[i]]]))
            A = rhos[i].scale_dy(int(pi.re[0, 0]), pi.e) - Y
            Ls.append(chol_factor(A.to_float()))
        if all(L is not None for L in Ls):
            r = drv.ask("excl_dual", {"d": d, "rho": [r_.json() for r_ in rhos], "p": pj, "Y": Y.json(), "LY": [L.json() for L in Ls]})
            if "ok" in r:
                lo = r["ok"][0] / r["ok"][1]
            else:
                why.append("dual:" + r["reject"])
        else:
            why.append("dual:cholesky")
    if psd_exact and all(p > 0 for p in probs):
        # theorem excl_nonneg: states v v^H are PSD exactly, priors positive => every POVM has value >= 0
        lo = 0.0 if lo is None else max(lo, 0.0)
    return lo, hi, why


def _meas_values(meas):
    out = []
    for m in meas:
        v = getattr(m, "value", m)
        out.append(np.array(v, dtype=complex))
    return out


def _base(inst):
    b = {kk: inst[kk] for kk in ("d", "k", "cplx", "form", "kind", "probs", "family")}
    b["states"] = [np.asarray(s) for s in inst["states"]]
    b["pres"], b["real_idx"] = inst.get("pres"), list(inst.get("real_idx", ()))
    return b


# ------------------------------------------------------------------------------------------------
# workers


def work(task, res: Result):
    from toqito.state_opt import state_exclusion
    warnings.filterwarnings("ignore")
    inst, calls = task
    drv = worker_driver()
    states, probs, d, k = inst["states"], inst["probs"], inst["d"], inst["k"]
    rhos = _dms_exact(states)
    rhos_f = [r.to_float() for r in rhos]
    base = _base(inst)
    psd_exact = inst["form"] in ("vec1d", "col")
    fam = inst["family"]
    try:
        Ms_ref, Y_ref = _solve_ref(rhos_f, probs)
    except Exception:
        res.count("uncertified/ref-solve-failed")
        return
    cands = [Ms_ref]
    if inst["anti"] or float(np.real(sum(probs[i] * np.trace(rhos_f[i] @ Ms_ref[i]) for i in range(k)))) < 1e-6:
        cands.append(_polish_zero(Ms_ref, rhos_f))
    lo, hi, why = certify_excl(drv, rhos, probs, cands, Y_ref, psd_exact)
    certified = lo is not None and hi is not None and hi - lo <= WIDTH_OK
    if not certified:
        res.count("uncertified/minerr:" + ";".join(why)[:60])
    minp = min(probs)
    fam_ok = None
    if fam is not None and certified:
        # the certified interval must confirm the cited status of the family (otherwise the harness/citation is wrong)
        fam_ok = (hi <= ZERO_HI) if inst["anti"] else (lo > POS_LO)
        res.count("family/" + ("anti" if inst["anti"] else "not-anti") + ("/confirmed" if fam_ok else "/UNCONFIRMED"))
        if not fam_ok:
            res.violation(f"certified interval [{lo:.3e}, {hi:.3e}] contradicts the cited status anti={inst['anti']} of family {fam} (harness or citation wrong)",
                          {"function": "family-status", "args": base, "certified": [lo, hi], "theorem": "checkExclPrimal_sound / checkExclDual_sound / excl_nonneg"})
    unamb = {}
    queue = [(s_, p_, v_, {}) for (s_, p_, v_) in calls]
    while queue:
        strategy, pd, solver, kw = queue.pop(0)
        desc = dict(base, strategy=strategy, primal_dual=pd, solver=solver, probs_given=inst["probs_given"])
        if kw:
            desc["kwargs"] = kw
        # the same values in a presentation drawn for this call (layout / real and integer dtypes, independently per list element)
        prng = call_rng(inst.get("pres"), strategy, pd, solver, bool(kw))
        args = dict(vectors=present_list(prng, states, force_real=inst.get("real_idx", ())), probs=(list(probs) if inst["probs_given"] else None),
                    strategy=strategy, solver=solver, primal_dual=pd, **kw)
        guard = Pure(**args)
        cfg = solver + ("+relaxed-tol" if kw else "")

        def numfail():
            # CVXOPT's KKT solver breaking down numerically on a degenerate instance: runtime behaviour of the solver,
            # not a statement about the optimum (DESIGN.md section 10); counted, never silently dropped
            res.case(desc, False, f"{strategy}/{pd}/{cfg}/solver-numerical-failure")
            if strategy == "unambiguous" and not kw and solver == "cvxopt":
                # the remedy recommended in the function's own docstring (a looser interior-point tolerance), as a second configuration
                queue.append((strategy, pd, solver, dict(RELAXED)))

        try:
            val, meas = _limited(state_exclusion, **args)
            why_mod = guard.modified()
            val2 = None
            if why_mod is None and strategy == "min_error" and prng is not None and int(prng.integers(4)) == 0:
                try:
                    val2 = float(np.real(_limited(state_exclusion, **args)[0]))   # the SAME objects again
                    why_mod = guard.modified()
                except (ArithmeticError, ZeroDivisionError, CallTimeout):
                    res.count("repeat-call/solver-numerical-failure-or-timeout")
        except CallTimeout:
            # the solver did not finish within the CPU-time limit: runtime behaviour, counted in the evidence, no verdict
            res.case(desc, False, f"{strategy}/{pd}/{cfg}/solver-timeout")
            continue
        except TaskTimeout:
            raise
        except (ArithmeticError, ZeroDivisionError):
            numfail()
            continue
        except Exception as e:
            if isinstance(e, ValueError) and "math domain error" in str(e):
                # same breakdown surfacing as sqrt of a negative number inside cvxopt's scaling update
                numfail()
                continue
            if strategy == "unambiguous" and type(e).__name__ in ("SolutionFailure",):
                res.case(desc, False, f"{strategy}/{pd}/{solver}/no-solution")
                continue
            res.case(desc, True, f"{strategy}/{pd}/{solver}/raise")
            res.violation(f"state_exclusion({strategy},{pd}) raises {type(e).__name__}: {str(e)[:120]} on a valid {'complex' if inst['cplx'] else 'real'} ensemble",
                          {"function": "state_exclusion", "args": desc, "exception": f"{type(e).__name__}: {str(e)[:300]}", "cplx": inst["cplx"],
                           "presentation": describe(args["vectors"])})
            continue
        tau = TAU.get(solver, TAU_OTHER)
        val = float(np.real(val))
        if why_mod is not None:
            res.violation(f"state_exclusion({strategy},{pd}): caller's arguments were modified ({why_mod})",
                          {"function": "state_exclusion", "args": desc, "modified": why_mod, "presentation": describe(args["vectors"]), "cplx": inst["cplx"], "check": "purity"})
        elif val2 is not None:
            res.count("repeat-call/checked")
            if abs(val2 - val) > 2 * tau:
                res.violation(f"state_exclusion({strategy},{pd}): a second call on the same objects returns {val2:.8f}, the first returned {val:.8f}",
                              {"function": "state_exclusion", "args": desc, "values": [val, val2], "presentation": describe(args["vectors"]), "cplx": inst["cplx"], "check": "repeat"})
        tag = f"{strategy}/{pd}/{cfg}/{inst['form']}/{'c' if inst['cplx'] else 'r'}/{inst['kind']}"
        if strategy == "unambiguous":
            unamb.setdefault((pd, solver), (val, desc))
            res.case(desc, False, tag)
            continue
        nontriv = certified and ((1e-2 <= lo and hi <= minp - 1e-2) or bool(fam_ok))
        res.case(desc, nontriv, tag)
        if not certified:
            continue
        if not (lo - tau <= val <= hi + tau):
            res.violation(f"state_exclusion(min_error,{pd},{solver}) = {val:.8f} outside the certified optimum [{lo:.8f}, {hi:.8f}]",
                          {"function": "state_exclusion", "args": desc, "impl": val, "certified": [lo, hi], "tau": tau,
                           "theorem": "checkExclPrimal_sound / checkExclDual_sound / excl_nonneg", "cplx": inst["cplx"], "check": "value",
                           "presentation": describe(args["vectors"])})
            continue
        # returned measurement: a valid POVM attaining the reported value
        try:
            Mv = _meas_values(meas)
        except Exception:
            res.count("returned-measurement-unreadable")
            continue
        if len(Mv) != k or any(M.shape != (d, d) for M in Mv):
            res.violation(f"state_exclusion(min_error,{pd}): returned {len(Mv)} operators of shapes {[M.shape for M in Mv]} for {k} states of dimension {d}",
                          {"function": "state_exclusion", "args": desc, "impl": val, "cplx": inst["cplx"], "check": "povm-shape"})
            continue
        S = sum(Mv)
        povm_res = float(np.max(np.abs(S - np.eye(d))))
        mineig = min(float(np.min(np.linalg.eigvalsh((M + M.conj().T) / 2))) for M in Mv)
        herm = max(float(np.max(np.abs(M - M.conj().T))) for M in Mv)
        att = float(sum(probs[i] * np.real(np.trace(rhos_f[i] @ Mv[i])) for i in range(k)))
        if povm_res > 1e-4 or mineig < -1e-4 or herm > 1e-4 or abs(att - val) > 1e-4:
            att_t = float(sum(probs[i] * np.real(np.trace(rhos_f[i] @ Mv[i].T)) for i in range(k)))
            res.violation(f"state_exclusion(min_error,{pd}): returned measurement is not a POVM attaining the value (sum residual {povm_res:.2e}, min eig {mineig:.2e}, "
                          f"attained {att:.6f} vs reported {val:.6f}; the transposed operators attain {att_t:.6f})",
                          {"function": "state_exclusion", "args": desc, "impl": val, "povm_residual": povm_res, "min_eig": mineig, "attained": att,
                           "attained_by_transposes": att_t, "cplx": inst["cplx"], "check": "povm-attains",
                           "theorem": "checkExclPrimal_sound (a POVM's value is what the objective says)"})
    # ---- unambiguous variant: primal and dual agree where both return
    for solver in {s for (_, s) in unamb}:
        if ("primal", solver) in unamb and ("dual", solver) in unamb:
            vp, dp = unamb[("primal", solver)]
            vd, dd = unamb[("dual", solver)]
            res.count("unambiguous/both-solved")
            if abs(vp - vd) > 1e-4:
                res.violation(f"state_exclusion(unambiguous): primal {vp:.8f} and dual {vd:.8f} disagree",
                              {"function": "state_exclusion", "args": dp, "impl": [vp, vd], "cplx": inst["cplx"], "check": "unamb-agree", "theorem": "unamb_excl_weak_duality_normalised"})
            elif certified and vp < lo - 1e-4:
                # an unambiguous strategy with the inconclusive outcome reassigned is a conclusive one: P(inconclusive) >= min-error value
                res.violation(f"state_exclusion(unambiguous) = {vp:.8f} below the certified min-error value {lo:.8f}",
                              {"function": "state_exclusion", "args": dp, "impl": vp, "certified": [lo, hi], "cplx": inst["cplx"], "check": "unamb-ge-minerr"})
    # ---- inequalities on the certified interval (theorems excl_nonneg, excl_le_min_prior; closed form for two states)
    if certified:
        tau = 2e-5
        trs = [float(np.real(np.trace(r))) for r in rhos_f]
        if hi < -1e-9:
            res.violation("certified optimum negative (harness error)", {"function": "nonneg", "args": base, "certified": [lo, hi]})
        if lo > min(p * t for p, t in zip(probs, trs)) + 1e-9:
            res.violation("certified optimum above the smallest prior (harness error)", {"function": "minprior", "args": base, "certified": [lo, hi]})
        if k == 2:
            hel = 0.5 * (sum(p * t for p, t in zip(probs, trs)) - float(np.sum(np.abs(np.linalg.eigvalsh(probs[0] * rhos_f[0] - probs[1] * rhos_f[1])))))
            res.count("closed-form/two-states")
            if not (lo - tau <= hel <= hi + tau):
                res.violation("certified exclusion optimum for two states disagrees with 1 - Helstrom (harness or cited closed form wrong)",
                              {"function": "helstrom", "args": base, "helstrom": hel, "certified": [lo, hi]})
        if inst["kind"] == "orthogonal":
            res.count("closed-form/orthogonal")
            if hi > 1e-6:
                res.violation("certified optimum above 0 for mutually orthogonal states (harness error)", {"function": "orthogonal", "args": base, "certified": [lo, hi]})


def work_anti(task, res: Result):
    """is_antidistinguishable / common_quantum_overlap against the certified interval for all-ones weights"""
    from toqito.state_props import common_quantum_overlap, is_antidistinguishable
    warnings.filterwarnings("ignore")
    inst = task
    drv = worker_driver()
    states, d, k = inst["states"], inst["d"], inst["k"]
    ones = [1.0] * k
    rhos = _dms_exact(states)
    rhos_f = [r.to_float() for r in rhos]
    base = _base(inst)
    base["probs"] = ones
    try:
        Ms_ref, Y_ref = _solve_ref(rhos_f, ones)
    except Exception:
        res.count("uncertified/anti-ref-solve-failed")
        return
    cands = [Ms_ref]
    if inst["anti"] or float(np.real(sum(np.trace(rhos_f[i] @ Ms_ref[i]) for i in range(k)))) < 1e-6:
        cands.append(_polish_zero(Ms_ref, rhos_f))
    lo, hi, why = certify_excl(drv, rhos, ones, cands, Y_ref, inst["form"] in ("vec1d", "col"), eps_bits=28)
    certified = lo is not None and hi is not None and hi - lo <= WIDTH_OK
    if not certified:
        res.count("uncertified/anti:" + ";".join(why)[:60])
    for fn_name, fn in (("is_antidistinguishable", is_antidistinguishable), ("common_quantum_overlap", common_quantum_overlap)):
        desc = dict(base, fn=fn_name)
        vecs = present_list(call_rng(inst.get("pres"), fn_name), states, force_real=inst.get("real_idx", ()))
        guard = Pure(vecs)
        try:
            out = _limited(fn, vecs)
            if guard.modified() is not None:
                res.violation(f"{fn_name}: caller's arguments were modified ({guard.modified()})",
                              {"function": fn_name, "args": desc, "modified": guard.modified(), "presentation": describe(vecs), "cplx": inst["cplx"], "check": "purity"})
        except CallTimeout:
            res.case(desc, False, f"{fn_name}/solver-timeout")
            continue
        except TaskTimeout:
            raise
        except (ArithmeticError, ZeroDivisionError):
            res.case(desc, False, f"{fn_name}/solver-numerical-failure")
            continue
        except Exception as e:
            res.case(desc, True, f"{fn_name}/raise")
            res.violation(f"{fn_name} raises {type(e).__name__}: {str(e)[:120]} on a valid ensemble",
                          {"function": fn_name, "args": desc, "exception": f"{type(e).__name__}: {str(e)[:300]}", "cplx": inst["cplx"], "presentation": describe(vecs)})
            continue
        if not certified:
            res.case(desc, False, f"{fn_name}/uncertified")
            continue
        if fn_name == "common_quantum_overlap":
            out = float(np.real(out))
            nontriv = (lo >= 1e-2 and hi <= 1 - 1e-2) or inst["family"] is not None
            res.case(desc, nontriv, f"{fn_name}/{inst['kind']}")
            if not (lo - 2e-5 * k <= out <= hi + 2e-5 * k):
                res.violation(f"common_quantum_overlap = {out:.8f} outside the certified all-ones-weights exclusion optimum [{lo:.8f}, {hi:.8f}]",
                              {"function": fn_name, "args": desc, "impl": out, "certified": [lo, hi], "theorem": "checkExclPrimal_sound / checkExclDual_sound / excl_scale", "cplx": inst["cplx"]})
        else:
            if hi <= ZERO_HI:
                expect = True
            elif lo > POS_LO:
                expect = False
            else:
                res.case(desc, False, f"{fn_name}/indecisive-interval")
                continue
            if inst["anti"] is not None and inst["anti"] != expect:
                res.violation(f"certified interval [{lo:.3e}, {hi:.3e}] (all-ones weights) contradicts the cited status anti={inst['anti']} of family {inst['family']} (harness or citation wrong)",
                              {"function": "family-status", "args": desc, "certified": [lo, hi]})
                continue
            res.case(desc, True, f"{fn_name}/{'anti' if expect else 'not-anti'}/{inst['kind']}")
            if bool(out) != expect:
                res.violation(f"is_antidistinguishable = {bool(out)} but the certified all-ones-weights exclusion optimum is in [{lo:.3e}, {hi:.3e}]",
                              {"function": fn_name, "args": desc, "impl": bool(out), "certified": [lo, hi],
                               "theorem": "antidist_iff_zero / not_antidist_of_dual_pos / checkExclPrimal_sound", "cplx": inst["cplx"]})


def work_invariance(task, res: Result):
    """unitary and relabelling invariance of the implementation's value (exact rational unitary); theorem excl_values_unitary_invariant"""
    from toqito.state_opt import state_exclusion
    warnings.filterwarnings("ignore")
    inst, U, perm = task
    states, probs = inst["states"], inst["probs"]
    vecs = [np.asarray(s) for s in states]

    def rot(s):
        a = np.asarray(s)
        if a.ndim == 1 or a.shape[1] == 1:
            return U @ a
        return U @ a @ U.conj().T

    ri = list(inst.get("real_idx", ()))
    a0 = present_list(call_rng(inst.get("pres"), "inv0"), vecs, force_real=ri)
    a2 = present_list(call_rng(inst.get("pres"), "inv2"), [vecs[i] for i in perm], force_real=[n for n, i in enumerate(perm) if i in ri])
    try:
        v0, _ = _limited(state_exclusion, a0, probs)
        v1, _ = _limited(state_exclusion, present_list(call_rng(inst.get("pres"), "inv1"), [rot(s) for s in vecs]), probs)
        v2, _ = _limited(state_exclusion, a2, [probs[i] for i in perm])
    except TaskTimeout:
        raise
    except (Exception, CallTimeout):
        res.case({"fn": "invariance", "k": inst["k"], "d": inst["d"]}, False, "invariance/raise")
        return
    desc = {"fn": "invariance", "d": inst["d"], "k": inst["k"], "cplx": inst["cplx"], "form": inst["form"], "perm": perm, "states": vecs, "probs": probs, "U": U,
            "pres": inst.get("pres"), "real_idx": ri}
    res.case(desc, min(v0, v1) > 1e-2, "invariance")
    if abs(v0 - v1) > 4e-5 or abs(v0 - v2) > 4e-5:
        res.violation(f"min-error exclusion value not invariant: base {v0:.8f}, common unitary {v1:.8f}, relabelled {v2:.8f}",
                      {"function": "state_exclusion", "args": desc, "values": [float(v0), float(v1), float(v2)], "theorem": "excl_values_unitary_invariant", "check": "invariance"})


# ------------------------------------------------------------------------------------------------


def _sdp_solvers():
    """every solver picos has available that can solve a (tiny) complex SDP; 'cvxopt' first"""
    import picos
    out = []
    for s in picos.available_solvers():
        try:
            P = picos.Problem()
            X = picos.HermitianVariable("X", (2, 2))
            P.add_constraint(X >> 0)
            P.add_constraint(picos.trace(X) == 1)
            P.set_objective("min", (X | np.array([[1.0, 0.5j], [-0.5j, 0.0]])).real)
            P.solve(solver=s)
            out.append(s)
        except Exception:
            continue
    return sorted(out, key=lambda s: s != "cvxopt")


def run(ctx, model_ok=True):
    global _tier
    rng = ctx.rng
    quick = ctx.tier == "quick"
    _tier = ctx.tier  # inherited by the forked workers
    # import the heavy modules once in the parent: forked workers inherit them, so no C-extension initialisation can be
    # interrupted by a task timeout on a loaded machine
    import cvxopt  # noqa: F401
    import cvxpy  # noqa: F401
    import picos  # noqa: F401
    import toqito.state_opt  # noqa: F401
    import toqito.state_props  # noqa: F401
    import toqito.states  # noqa: F401
    warnings.filterwarnings("ignore")
    solvers = ["cvxopt"] if quick else (_sdp_solvers() or ["cvxopt"])
    ctx.extra["solvers"] = solvers
    calls = []
    for s in solvers:
        calls += [("min_error", "primal", s), ("min_error", "dual", s), ("unambiguous", "primal", s), ("unambiguous", "dual", s)]
    fam = family_instances(rng, 1 if quick else 6)
    n_inst = 100 if quick else 1200
    insts = [gen_instance(rng) for _ in range(n_inst)]
    prs = rng.spawn(1)[0]   # presentation stream: a child of the seeded generator (spawning does not consume the parent's draws)
    for inst in fam + insts:
        vary_ensemble(prs, inst)   # families have kind "family": presentation seed only, values untouched
    # the unambiguous pair (slow and often numerically failing in CVXOPT) runs on every second random instance in the quick tier
    tasks = [(inst, [c for c in calls if c[0] == "min_error"]) for inst in fam] + [(inst, calls if (not quick or i % 2 == 0) else [c for c in calls if c[0] == "min_error"]) for i, inst in enumerate(insts)]
    run_pool(ctx, work, tasks)
    anti_tasks = fam + insts[: (40 if quick else 400)]
    run_pool(ctx, work_anti, anti_tasks)
    inv = []
    for i in range(24 if quick else 160):
        inst = vary_ensemble(prs, gen_instance(rng))
        U = qgen.cayley_unitary(rng, inst["d"], inst["cplx"])
        if not inst["cplx"]:
            U = np.real(U)
        inv.append((inst, U, [int(x) for x in rng.permutation(inst["k"])]))
    run_pool(ctx, work_invariance, inv)
    ctx.extra["tolerances"] = dict(TAU, other=TAU_OTHER, povm=1e-4, zero_hi=ZERO_HI, pos_lo=POS_LO)
    ctx.extra["certified_interval_width_bound"] = WIDTH_OK


def replay(ctx, rec):
    a = rec["args"]

    def arr(s):
        def el(e):
            return complex(e["re"], e["im"]) if isinstance(e, dict) else e
        return np.array([[el(e) for e in row] if isinstance(row, list) else el(row) for row in s])

    inst = {"d": a["d"], "k": a["k"], "cplx": a["cplx"], "form": a["form"], "kind": a.get("kind", "random"), "probs": a["probs"],
            "probs_given": a.get("probs_given", True), "family": a.get("family"), "anti": None, "states": [arr(s) for s in a["states"]],
            "pres": a.get("pres"), "real_idx": a.get("real_idx") or []}
    res = Result()
    fn = rec.get("function")
    if fn in ("is_antidistinguishable", "common_quantum_overlap") or a.get("fn") in ("is_antidistinguishable", "common_quantum_overlap"):
        work_anti(inst, res)
    elif a.get("fn") == "invariance":
        work_invariance((inst, arr(a["U"]), a["perm"]), res)
    else:
        solver = a.get("solver", "cvxopt")
        if a.get("strategy") == "unambiguous":  # the verdict compares the two forms
            calls = [("unambiguous", "primal", solver), ("unambiguous", "dual", solver)]
        else:
            calls = [(a.get("strategy", "min_error"), a.get("primal_dual", "dual"), solver)]
        work((inst, calls), res)
    from ..pool import fold
    fold(ctx, res)
